"""Helpers shared by the bounded harnesses (run-time contracts on the real abTEM code)."""

from __future__ import annotations

import itertools
import json

import numpy as np

from vlib.main import Res  # noqa: F401  (re-export)


def rng_for(seed, *salt):
    """Deterministic generator from the run seed and any hashable salt."""
    import hashlib

    h = hashlib.sha256(json.dumps([seed, *[str(s) for s in salt]]).encode()).digest()
    return np.random.default_rng(int.from_bytes(h[:8], "little"))


def close(a, b, rtol=1e-5, atol=1e-6):
    """allclose with shape check and a readable reason; returns (ok, detail)."""
    a = np.asarray(a)
    b = np.asarray(b)
    if a.shape != b.shape:
        return False, f"shape {a.shape} != {b.shape}"
    if a.size == 0:
        return True, "empty"
    if not (np.all(np.isfinite(a)) and np.all(np.isfinite(b))):
        if np.array_equal(np.isfinite(a), np.isfinite(b)) and np.allclose(a[np.isfinite(a)], b[np.isfinite(b)], rtol=rtol, atol=atol):
            return True, "equal incl. non-finite pattern"
        return False, "non-finite values differ"
    err = np.abs(a - b)
    tol = atol + rtol * np.abs(b)
    ok = bool(np.all(err <= tol))
    i = np.unravel_index(int(np.argmax(err - tol)), err.shape) if err.ndim else ()
    return ok, f"max|a-b|={float(err.max()):.3e} at {tuple(int(x) for x in i)} (a={a[i]!r}, b={b[i]!r}), scale={float(np.abs(b).max()):.3e}"


def rel_close(a, b, rtol=1e-4):
    """Closeness relative to the largest magnitude in b (for float32 pipelines)."""
    a = np.asarray(a)
    b = np.asarray(b)
    scale = float(np.abs(b).max()) if b.size else 0.0
    return close(a, b, rtol=0.0, atol=rtol * max(scale, 1e-30))


def nontrivial(arr) -> bool:
    arr = np.asarray(arr)
    return arr.size > 0 and bool(np.any(arr != 0))


def product_cases(**axes):
    keys = list(axes)
    for vals in itertools.product(*[axes[k] for k in keys]):
        yield dict(zip(keys, vals))


def covering(axes: dict, strength_pairs=True, seed=0, extra_random=0):
    """Small pairwise covering array over discrete axes (greedy), deterministic."""
    keys = list(axes)
    rng = np.random.default_rng(seed)
    need = set()
    for i, a in enumerate(keys):
        for b in keys[i + 1:]:
            for va in range(len(axes[a])):
                for vb in range(len(axes[b])):
                    need.add((a, va, b, vb))
    out = []
    while need:
        best, bestcov = None, -1
        for _ in range(40):
            cand = {k: int(rng.integers(len(axes[k]))) for k in keys}
            cov = sum(1 for (a, va, b, vb) in need if cand[a] == va and cand[b] == vb)
            if cov > bestcov:
                best, bestcov = cand, cov
        if bestcov <= 0:
            a, va, b, vb = next(iter(need))
            best = {k: int(rng.integers(len(axes[k]))) for k in keys}
            best[a], best[b] = va, vb
        need = {(a, va, b, vb) for (a, va, b, vb) in need if not (best[a] == va and best[b] == vb)}
        out.append({k: axes[k][best[k]] for k in keys})
    for _ in range(extra_random):
        out.append({k: axes[k][int(rng.integers(len(axes[k])))] for k in keys})
    return out


# ---- tiny structures ---------------------------------------------------------------------


def tiny_atoms(kind="si", size=4.0, height=4.0, seed=0):
    """Small orthogonal periodic cells (pbc=True) used by the pipeline harnesses."""
    from ase import Atoms

    r = np.random.default_rng(seed)
    if kind == "single":
        sym, pos = ["Si"], [[size / 2, size / 2, height / 2]]
    elif kind == "two":
        sym, pos = ["C", "O"], [[size * 0.3, size * 0.4, height * 0.25], [size * 0.7, size * 0.55, height * 0.7]]
    elif kind == "random":
        n = 5
        sym = list(r.choice(["C", "Si", "Cu"], n))
        pos = r.uniform(0.05, 0.95, (n, 3)) * [size, size, height]
    else:
        sym = ["Si", "Si", "O"]
        pos = [[0.2 * size, 0.2 * size, 0.2 * height], [0.6 * size, 0.5 * size, 0.55 * height],
               [0.4 * size, 0.8 * size, 0.85 * height]]
    return Atoms(sym, positions=np.array(pos, float), cell=[size, size, height], pbc=True)


def snapshot_atoms(atoms):
    return dict(positions=atoms.positions.copy(), cell=np.array(atoms.cell).copy(), numbers=atoms.numbers.copy(),
                pbc=np.array(atoms.pbc).copy())


def atoms_equal(a, b):
    return all(np.array_equal(a[k], b[k]) for k in a)
