"""Driver:  ./check <Cxx> [--tier quick|thorough] [--replay FILE]

For one property it runs
  1. the deductive obligations (proofs/<cxx>.py, engine pyvc) generated from /repo's current source,
  2. the bounded run-time contracts (bounded/<cxx>.py) on the real abTEM code,
applies the verdict policy of DESIGN.md §2.5, writes evidence/<Cxx>.json and replays/<Cxx>/*.json.

Exit codes: 0 held on everything explored (known findings are printed, not alarms)
            1 violation (one line `VIOLATION property=<id> replay=<path>` per distinct obligation)
            2 nothing could be decided (zero obligations and zero evaluations)
            3 checker crash
"""

from __future__ import annotations

import argparse
import hashlib
import importlib
import json
import multiprocessing as mp
import os
import sys
import time
import traceback

ROOT = os.path.dirname(os.path.dirname(os.path.abspath(__file__)))
REPO = os.environ.get("VERIF_REPO", "/repo")
OUT = os.environ.get("VERIF_OUT", ROOT)  # evidence/ and replays/ are written here (scratch runs against seeded copies)


# --------------------------------------------------------------------------------------
# results of bounded contracts


class Res(dict):
    """One evaluated contract clause: obligation name, verdict, detail."""

    def __init__(self, obligation, ok, detail="", nontrivial=True):
        super().__init__(
            obligation=obligation, ok=bool(ok), detail=str(detail)[:2000], nontrivial=bool(nontrivial)
        )


def canon(case) -> str:
    return json.dumps(case, sort_keys=True, default=str)


def _in_repo_frame(tb) -> bool:
    """True if the innermost non-/verif frames of a traceback lie in the code under test."""
    frames = traceback.extract_tb(tb)
    for fr in reversed(frames):
        fn = fr.filename
        if fn.startswith(ROOT + os.sep) and not fn.startswith(os.path.join(ROOT, ".ovenv")):
            continue
        return True  # abtem, or a library called (transitively) from abtem
    return False


def _load(kind, prop):
    name = f"{kind}.{prop.lower()}"
    try:
        return importlib.import_module(name)
    except ModuleNotFoundError as e:
        if e.name in (name, kind):
            return None
        raise


def _worker(args):
    prop, case = args
    t0 = time.time()
    try:
        if case.get("_witness"):
            out = _load("proofs", prop).native_replay(case)
        else:
            mod = _load("bounded", prop)
            out = mod.run_case(case)
        res = [r if isinstance(r, dict) else Res(*r) for r in (out or [])]
        return dict(case=case, results=res, error=None, wall=time.time() - t0)
    except Exception as e:  # noqa: BLE001
        tb = traceback.format_exc()
        in_repo = _in_repo_frame(e.__traceback__)
        return dict(
            case=case,
            results=[],
            error=dict(type=type(e).__name__, msg=str(e)[:500], tb=tb[-4000:], in_repo=in_repo),
            wall=time.time() - t0,
        )


def _worker_batch(batch):
    return [_worker(item) for item in batch]


def _worker_init():
    os.environ.setdefault("OMP_NUM_THREADS", "1")
    os.environ.setdefault("NUMBA_NUM_THREADS", "1")
    import warnings

    warnings.filterwarnings("ignore")


# --------------------------------------------------------------------------------------
# known findings


def load_known():
    p = os.path.join(ROOT, "known_findings.json")
    if not os.path.exists(p):
        return []
    with open(p) as f:
        return json.load(f)


def match_known(known, prop, obligation, case, detail=""):
    for k in known:
        if k.get("status") != "finding" or k.get("property") != prop:
            continue
        if k.get("obligation") != obligation:
            continue
        where = k.get("where")
        if where:
            try:
                # `case` and `detail` live in the globals of the expression so that generator expressions see them
                if not eval(where, {"__builtins__": {"len": len, "min": min, "max": max, "abs": abs,
                                                     "any": any, "all": all, "tuple": tuple, "str": str,
                                                     "isinstance": isinstance, "list": list, "int": int,
                                                     "float": float},
                                    "case": case or {}, "detail": str(detail or "")}):
                    continue
            except Exception:  # noqa: BLE001
                continue
        return k
    return None


# --------------------------------------------------------------------------------------


def write_replay(prop, obligation, payload) -> str:
    d = os.path.join(OUT, "replays", prop)
    os.makedirs(d, exist_ok=True)
    h = hashlib.sha256(canon(payload.get("case", payload.get("solver_output", ""))).encode()).hexdigest()[:8]
    safe = obligation.replace("/", "_").replace(" ", "_")[:80]
    path = os.path.join(d, f"{safe}-{h}.json")
    with open(path, "w") as f:
        json.dump(payload, f, indent=1, default=str)
    return os.path.relpath(path, OUT)


def run_bounded(prop, tier, seed, budget_s, extra_cases=()):
    mod = _load("bounded", prop)
    if mod is None:
        return None
    t0 = time.time()
    cases = list(extra_cases)
    gen = list(mod.cases(tier, seed))
    if tier == "thorough":
        # deeper exploration: the seeded part of every case family is redrawn for further seeds (exhaustive families repeat
        # and are dropped as duplicates)
        seen = {canon(c) for c in gen}
        for extra in range(1, int(os.environ.get("VERIF_THOROUGH_SEEDS", "8"))):
            for c in mod.cases(tier, seed + 1000 * extra):
                k = canon(c)
                if k not in seen:
                    seen.add(k)
                    gen.append(c)
    cases += gen
    nproc = int(os.environ.get("VERIF_JOBS", min(16, os.cpu_count() or 1)))
    nproc = max(1, min(nproc, len(cases)))
    outs = []
    truncated = False
    if nproc == 1 or os.environ.get("VERIF_SERIAL"):
        for c in cases:
            if time.time() - t0 > budget_s:
                truncated = True
                break
            outs.append(_worker((prop, c)))
    else:
        ctx = mp.get_context("forkserver")
        with ctx.Pool(nproc, initializer=_worker_init) as pool:
            chunk = max(1, min(64, len(cases) // (nproc * 16)))
            batches = [[(prop, c) for c in cases[i:i + chunk]] for i in range(0, len(cases), chunk)]
            it = pool.imap_unordered(_worker_batch, batches, chunksize=1)
            while True:
                try:
                    remaining = budget_s - (time.time() - t0)
                    outs.extend(it.next(timeout=max(1.0, remaining)))
                except StopIteration:
                    break
                except mp.TimeoutError:
                    truncated = True
                    pool.terminate()
                    break
    return dict(module=mod, outs=outs, ncases=len(cases), truncated=truncated, wall=time.time() - t0)


def run_proofs(prop, tier, seed):
    mod = _load("proofs", prop)
    if mod is None:
        return None
    t0 = time.time()
    # wall-clock budget of the deductive tier (inherited by the solver workers): obligations still open after it are
    # reported undecided — on the unchanged tree every proof module finishes well within it
    os.environ["PYVC_DEADLINE"] = str(t0 + float(os.environ.get("VERIF_PROOF_BUDGET_S", 900 if tier == "quick" else 3000)))
    try:
        res = mod.run(tier=tier, seed=seed)
    finally:
        os.environ.pop("PYVC_DEADLINE", None)
    res["wall"] = time.time() - t0
    res["module"] = mod
    return res


def main(argv=None):
    ap = argparse.ArgumentParser()
    ap.add_argument("prop")
    ap.add_argument("--tier", default=os.environ.get("VERIF_TIER", "quick"), choices=["quick", "thorough"])
    ap.add_argument("--replay")
    ap.add_argument("--no-bounded", action="store_true")
    ap.add_argument("--no-proofs", action="store_true")
    a = ap.parse_args(argv)
    prop = a.prop.upper()
    seed = int(os.environ.get("VERIF_SEED", "0"))
    tier = a.tier
    t_start = time.time()
    budget = float(os.environ.get("VERIF_BUDGET_S", 240 if tier == "quick" else 2400))
    known = load_known()

    if a.replay:
        return replay(prop, a.replay, known)
    # replay files of earlier runs of this property are stale: start clean
    import glob

    for f in glob.glob(os.path.join(OUT, "replays", prop, "*.json")):
        try:
            os.remove(f)
        except OSError:
            pass

    violations = []  # dict(obligation, case, detail, replay)
    known_hits = []
    checker_errors = []

    # ---- 1. deductive obligations -----------------------------------------------------
    proofs = None if a.no_proofs else run_proofs(prop, tier, seed)
    witness_cases = []
    pv = dict(obligations=0, discharged=0, undecided=[], refuted=[], by_backend={}, solver_time_s=0.0,
              functions=[], trusted=[], assumptions=[], samples=[], bounded_standins=[], selfcheck={})
    if proofs is not None:
        for o in proofs["obligations"]:
            pv["obligations"] += 1
            pv["solver_time_s"] += o.get("time_s", 0.0)
            st = o["status"]
            if st == "discharged":
                pv["discharged"] += 1
                be = o.get("backend", "z3")
                pv["by_backend"][be] = pv["by_backend"].get(be, 0) + 1
            elif st == "refuted":
                pv["refuted"].append(o)
                if o.get("witness_case") is not None:
                    wc = dict(o["witness_case"])
                    wc["_from_obligation"] = o["name"]
                    witness_cases.append(wc)
            else:
                pv["undecided"].append(dict(name=o["name"], reason=o.get("reason", st)))
        pv["functions"] = proofs.get("functions", [])
        pv["trusted"] = proofs.get("trusted_base", [])
        pv["assumptions"] = proofs.get("assumptions", [])
        pv["selfcheck"] = proofs.get("selfcheck", {})
        pv["bounded_standins"] = proofs.get("bounded_standins", [])
        pv["samples"] = [dict(obligation=o["name"], status=o["status"], backend=o.get("backend"),
                              time_s=round(o.get("time_s", 0.0), 4)) for o in proofs["obligations"][:12]]
        for e in proofs.get("errors", []):
            checker_errors.append(e)

    # ---- 2. bounded run-time contracts (also the native replay of proof witnesses) ------
    b = None if a.no_bounded else run_bounded(prop, tier, seed, budget, extra_cases=witness_cases)
    evaluations = 0
    contracts_evaluated = {}
    distinct = set()
    bsamples = []
    reproduced = set()  # obligations from the proof tier whose witness failed natively
    if b is not None:
        for o in b["outs"]:
            case = o["case"]
            if o["error"] is not None:
                er = o["error"]
                if er["in_repo"]:
                    o["results"] = [Res(f"{prop}/no-exception", False,
                                        f"{er['type']}: {er['msg']}\n{er['tb']}")]
                else:
                    checker_errors.append(f"harness crash on {canon(case)[:300]}: {er['tb'][-1500:]}")
                    continue
            evaluations += 1
            nontriv = False
            for r in o["results"]:
                contracts_evaluated[r["obligation"]] = contracts_evaluated.get(r["obligation"], 0) + 1
                nontriv = nontriv or r["nontrivial"]
                if not r["ok"]:
                    if case.get("_from_obligation"):
                        reproduced.add(case["_from_obligation"])
                    violations.append(dict(obligation=r["obligation"], case=case, detail=r["detail"], tier="B"))
            if nontriv:
                distinct.add(canon({k: v for k, v in case.items() if not k.startswith("_")}))
            if len(bsamples) < 5:
                bsamples.append(dict(case=case, results=[(r["obligation"], r["ok"]) for r in o["results"]][:8]))

    # ---- 3. refuted proof obligations ----------------------------------------------------
    for o in pv["refuted"]:
        if o["name"] in reproduced:
            continue  # already reported through its native replay
        if o.get("property_level", True):
            violations.append(dict(obligation=o["name"], case=o.get("witness_case"), tier="P",
                                   detail="refuted by the verifier; " + (
                                       "witness did not fail natively" if o.get("witness_case") is not None
                                       else "no concrete witness"),
                                   solver_output=o.get("model", ""), function=o.get("function"),
                                   no_input=True))
        else:
            pv["undecided"].append(dict(name=o["name"], reason="helper contract refuted (stale contract); not property level"))

    # ---- 4. verdict ---------------------------------------------------------------------
    printed = set()
    nviol = 0
    for v in violations:
        k = match_known(known, prop, v["obligation"], v.get("case"), v.get("detail"))
        if k is not None:
            key = ("K", k.get("obligation"), k.get("where"))
            if key not in printed:
                printed.add(key)
                print(f"KNOWN-FINDING: property={prop} {k['obligation']}: {k['what']}")
            known_hits.append(k["obligation"])
            continue
        nviol += 1
        key = ("V", v["obligation"])
        if key in printed:
            continue
        printed.add(key)
        payload = dict(property=prop, obligation=v["obligation"], tier=v["tier"], case=v.get("case"),
                       detail=v["detail"], solver_output=v.get("solver_output"), function=v.get("function"),
                       native_replay="no-failing-input-found" if v.get("no_input") else "confirmed",
                       repo_head=_repo_head())
        path = write_replay(prop, v["obligation"], payload)
        tail = " no-failing-input-found" if v.get("no_input") else ""
        print(f"  failed obligation: {v['obligation']}: {str(v['detail'])[:400]}")
        print(f"VIOLATION property={prop} replay={path}{tail}")

    if os.environ.get("VERIF_DUMP_VIOLATIONS"):
        with open(os.environ["VERIF_DUMP_VIOLATIONS"], "w") as f:
            json.dump([dict(obligation=v["obligation"], case=v.get("case"), detail=str(v["detail"])[:1500]) for v in violations], f, indent=0, default=str)

    # ---- 5. evidence --------------------------------------------------------------------
    bmod = b["module"] if b else None
    pmod = proofs["module"] if proofs else None
    all_discharged = proofs is not None and pv["obligations"] > 0 and pv["discharged"] == pv["obligations"]
    claimed_proof = bool(getattr(pmod, "LEVEL", "") == "proof")
    level = "proof" if (claimed_proof and all_discharged) else "exploration"
    cov = dict(
        evaluations=evaluations,
        distinct_nontrivial=len(distinct),
        rule=getattr(bmod, "RULE", "no bounded harness"),
        samples=(pv["samples"][:6] + bsamples[:4]) or [],
        obligations=pv["obligations"],
        discharged=pv["discharged"],
        undecided=pv["undecided"],
        by_backend=pv["by_backend"],
        solver_time_s=round(pv["solver_time_s"], 3),
        checker_cmd=f"./check {prop} --tier {tier}",
        trusted_base=pv["trusted"],
        functions_under_contract=pv["functions"],
        bounded_standins=pv["bounded_standins"],
        selfcheck=pv["selfcheck"],
        bounds=getattr(bmod, "BOUNDS", {}),
        contracts_evaluated=contracts_evaluated,
        bounded_cases_generated=b["ncases"] if b else 0,
        bounded_truncated=b["truncated"] if b else False,
        exhaustive=bool(getattr(bmod, "EXHAUSTIVE", False)),
        known_findings_hit=sorted(set(known_hits)),
        checker_errors=checker_errors[:5],
        explanation=getattr(pmod, "EXPLANATION", getattr(bmod, "EXPLANATION", "")),
    )
    ev = dict(
        property_id=prop, tier=tier, seed=seed, level=level, coverage=cov,
        assumptions=list(pv["assumptions"]) + list(getattr(bmod, "ASSUMPTIONS", [])),
        wall_s=round(time.time() - t_start, 2), violations=nviol,
    )
    os.makedirs(os.path.join(OUT, "evidence"), exist_ok=True)
    with open(os.path.join(OUT, "evidence", f"{prop}.json"), "w") as f:
        json.dump(ev, f, indent=1, default=str)

    print(f"[{prop}] tier={tier} proof obligations {pv['discharged']}/{pv['obligations']} discharged, "
          f"{len(pv['undecided'])} undecided, {len(pv['refuted'])} refuted; bounded evaluations {evaluations} "
          f"(distinct non-trivial {len(distinct)}); violations {nviol}; known findings {len(set(known_hits))}; "
          f"{time.time() - t_start:.1f}s")
    for u in pv["undecided"][:10]:
        print(f"  undecided: {u['name']}: {str(u['reason'])[:200]}")
    if nviol:
        return 1
    if checker_errors:
        for e in checker_errors[:3]:
            print("CHECKER-ERROR:", e, file=sys.stderr)
        return 3
    if pv["obligations"] == 0 and evaluations == 0:
        print("nothing decided: zero obligations and zero evaluations", file=sys.stderr)
        return 2
    return 0


def _repo_head():
    try:
        import subprocess

        return subprocess.run(["git", "-C", REPO, "rev-parse", "--short", "HEAD"], capture_output=True,
                              text=True, timeout=10).stdout.strip()
    except Exception:  # noqa: BLE001
        return ""


def replay(prop, path, known):
    if not os.path.isabs(path) and not os.path.exists(path):
        path = os.path.join(OUT, path)
    with open(path) as f:
        payload = json.load(f)
    ob = payload["obligation"]
    case = payload.get("case")
    if case is not None and (_load("bounded", prop) is not None or case.get("_witness")):
        _worker_init()
        o = _worker((prop, case))
        if o["error"] is not None:
            if o["error"]["in_repo"]:
                er = o["error"]
                o["results"] = [Res(f"{prop}/no-exception", False, f"{er['type']}: {er['msg']}\n{er['tb']}")]
            else:
                print(o["error"]["tb"], file=sys.stderr)
                return 3
        bad = []
        for r in o["results"]:
            if r["ok"]:
                continue
            k = match_known(known, prop, r["obligation"], case, r["detail"])
            if k is not None:  # the replayed case is a recorded finding: reported as such, not as a new violation
                print(f"KNOWN-FINDING: property={prop} {k['obligation']}: {k['what']}")
                continue
            bad.append(r)
        for r in bad:
            print(f"  failing: {r['obligation']}: {r['detail'][:600]}")
        if bad:
            print(f"VIOLATION property={prop} replay={path}")
            return 1
        print(f"replay of {ob}: no contract clause fails on this tree beyond the recorded findings")
        return 0
    # proof-only replay: re-run the named obligation
    proofs = run_proofs(prop, "quick", 0)
    if proofs is None:
        print("no proof module", file=sys.stderr)
        return 3
    for o in proofs["obligations"]:
        if o["name"] == ob:
            print(f"{ob}: {o['status']}")
            if o["status"] == "refuted":
                print(o.get("model", ""))
                print(f"VIOLATION property={prop} replay={path} no-failing-input-found")
                return 1
            return 0
    print(f"obligation {ob} no longer generated", file=sys.stderr)
    return 2


if __name__ == "__main__":
    try:
        rc = main()
    except SystemExit:
        raise
    except Exception:  # noqa: BLE001
        traceback.print_exc()
        rc = 3
    sys.exit(rc)
