"""C19 — ensemble partitioning reassembles every member once: deductive tier for the index ranges the blocks are cut with
(generate_blocks pairs block i with chunk_ranges(chunks)[..][i]; a distribution is divided with equal_sized_chunks)."""

import copy

from pyvc.runner import native_replay as _nr
from pyvc.runner import run_property

from proofs import c18 as _c

PROPERTY = "C19"
LEVEL = "exploration"
EXPLANATION = ("the (start, stop) ranges of every ensemble axis are contiguous from 0 to the axis length with the given block sizes "
               "(chunk_ranges), and the automatic division of n members into k blocks gives positive, balanced sizes summing to n "
               "(equal_sized_chunks): discharged for all sizes; the pairing of blocks with these ranges, seeds, axes metadata and "
               "lazy == eager reassembly are bounded")

SPECS = {k: copy.copy(_c.SPECS[k]) for k in ("chunk_ranges", "equal_sized_chunks", "generate_chunks")}
for _s in SPECS.values():
    _s.pop("prop", None)


def run(tier="quick", seed=0):
    return run_property(PROPERTY, SPECS, tier, seed, registry={(_c.M, "equal_sized_chunks"): SPECS["equal_sized_chunks"]},
                        bounded_standins=["generate_blocks / _partition_args / frozen-phonon seeds / scan positions reassemble every member "
                                          "once, lazy == eager: bounded/c19.py"])


def native_replay(case):
    return _nr(PROPERTY, SPECS, case)
