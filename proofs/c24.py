"""C24 — electron energy relations: contracts on abtem/core/energy.py (deductive tier, reals)."""

from pyvc.contracts import Int, Real, Seq
from pyvc.runner import native_replay as _nr
from pyvc.runner import run_property

PROPERTY = "C24"
LEVEL = "proof"
M = "abtem/core/energy.py"
EXPLANATION = ("All clauses of the statement are postconditions of the five functions, proved over the reals with the "
               "physical constants read from the live ase.units module (exact decimal value of each float); sqrt is an "
               "uninterpreted function with the axiom instances sqrt(x) >= 0 and x >= 0 => sqrt(x)^2 == x.")

A = "(2 * units._me * units._c ** 2 / units._e)"  # 2 m c^2 in eV
K = "(units._hplanck * units._c / units._e * 1e10)"  # h c in eV Angstrom

SPECS = {
    "relativistic_mass_correction": dict(
        module=M, qualname="relativistic_mass_correction", params=dict(energy=Real), requires=["energy > 0"],
        ensures=[("value", "result == 1 + units._e * energy / (units._me * units._c ** 2)"), ("gt1", "result > 1")],
    ),
    "energy2mass": dict(
        module=M, qualname="energy2mass", params=dict(energy=Real), requires=["energy > 0"],
        ensures=[("value", "result == units._me + units._e * energy / units._c ** 2"), ("positive", "result > units._me")],
    ),
    "energy2wavelength": dict(
        module=M, qualname="energy2wavelength", params=dict(energy=Real), extra=dict(e2=Real),
        requires=["e2 > 0"],
        raises={"ValueError": "energy <= 0"},
        ensures=[
            ("positive", "result > 0"),
            # lambda = h c / sqrt(E (E + 2 m c^2))   <=>   lambda^2 * E (E + 2mc^2) == (hc)^2  and lambda > 0
            ("de-broglie", f"result * result * (energy * (energy + {A})) == {K} * {K}"),
            ("decreasing", "implies(e2 > energy, energy2wavelength(e2) < result)"),
        ],
    ),
    "energy2sigma": dict(
        module=M, qualname="energy2sigma", params=dict(energy=Real), requires=["energy > 0"],
        ensures=[
            ("positive", "result > 0"),
            ("value", "result * (units._hplanck * units.s * units.J) ** 2 == 2 * np.pi * "
                      "(units._me * (1 + units._e * energy / (units._me * units._c ** 2))) * units.kg * units._e * units.C * "
                      "energy2wavelength(energy)"),
        ],
    ),
    "reciprocal_space_sampling_to_angular_sampling": dict(
        module=M, qualname="reciprocal_space_sampling_to_angular_sampling",
        params=dict(reciprocal_space_sampling=Seq(Real), energy=Real), requires=["energy > 0"],
        ensures=[
            ("length", "len(result) == len(reciprocal_space_sampling)"),
            ("mrad", "forall(lambda i: result[i] == reciprocal_space_sampling[i] * energy2wavelength(energy) * 1000, "
                     "0, len(reciprocal_space_sampling))"),
        ],
    ),
}


def _gen_pos(rng):
    return dict(energy=10 ** rng.uniform(0, 7))


for _k in ("relativistic_mass_correction", "energy2mass", "energy2sigma"):
    SPECS[_k]["native_gen"] = _gen_pos
SPECS["energy2wavelength"]["native_gen"] = lambda rng: dict(energy=rng.choice([-5.0, 0.0, 10 ** rng.uniform(0, 7), 10 ** rng.uniform(0, 7)]),
                                                            e2=10 ** rng.uniform(0, 7))
SPECS["reciprocal_space_sampling_to_angular_sampling"]["native_gen"] = lambda rng: dict(
    reciprocal_space_sampling=[rng.uniform(0.001, 1.0) for _ in range(rng.choice([1, 2, 3]))], energy=10 ** rng.uniform(0, 7))


def run(tier="quick", seed=0):
    return run_property(PROPERTY, SPECS, tier, seed)


def native_replay(case):
    return _nr(PROPERTY, SPECS, case)
