"""C06 — PRISM reduction reproduces multislice probes: deductive tier for the periodic crop window of the interpolated
S-matrix (the index arithmetic that decides which plane-wave samples a probe position reads)."""

from pyvc.contracts import Int
from pyvc.runner import native_replay as _nr
from pyvc.runner import run_property

PROPERTY = "C06"
LEVEL = "exploration"
MP = "abtem/prism/utils.py"
EXPLANATION = ("wrapped_slices(start, stop, n): the two slices read, in order, exactly the indices (start + t) mod n for "
               "t = 0 .. stop - start - 1 of a periodic axis of n points (first piece up to the end of the axis, second piece from "
               "0): discharged for every window position, including windows starting in any period; everything numerical "
               "(exit waves and measurements equal Probe.multislice) is bounded")

S0 = "(start - (start // n) * n)"          # start reduced to the first period, 0 <= S0 < n
LEN = "(stop - start)"
A_LO = "(0 if result[0].start is None else result[0].start)"
A_HI = "(n if result[0].stop is None else result[0].stop)"
B_LO = "(0 if result[1].start is None else result[1].start)"
B_HI = "(n if result[1].stop is None else result[1].stop)"

SPECS = {
    "wrapped_slices": dict(
        module=MP, qualname="wrapped_slices", params=dict(start=Int, stop=Int, n=Int),
        requires=["n >= 1", "stop > start", "stop - start <= n"],
        ensures=[
            ("first-piece-starts-at-the-reduced-start", f"{A_LO} == {S0}"),
            ("first-piece-inside-the-axis", f"0 <= {A_LO} and {A_LO} < {A_HI} and {A_HI} <= n"),
            ("second-piece-starts-at-zero", f"{B_LO} == 0 and 0 <= {B_HI} and {B_HI} <= n"),
            ("window-length-kept", f"({A_HI} - {A_LO}) + ({B_HI} - {B_LO}) == {LEN}"),
            ("second-piece-only-after-the-end-of-the-axis", f"{B_HI} == 0 or {A_HI} == n"),
            ("no-index-read-twice", f"{B_HI} <= {A_LO} or {B_HI} == 0"),
        ],
        cross_check=True,
        native_gen=lambda rng: (lambda n, st, ln: dict(start=st, stop=st + ln, n=n))(
            *(lambda n: (n, rng.randint(-3 * n, 3 * n), rng.randint(1, n)))(rng.randint(1, 9))),
    ),
}


def run(tier="quick", seed=0):
    return run_property(PROPERTY, SPECS, tier, seed,
                        bounded_standins=["reduced S-matrix exit waves / measurements == Probe.multislice, lazy == eager, ctf coefficient norm, "
                                          "interpolated reduction == cropped-window probe: bounded/c06.py"])


def native_replay(case):
    return _nr(PROPERTY, SPECS, case)
