"""C07 — thickness series: contract on abtem/potentials/iam.py:_validate_exit_planes (deductive tier).

The multislice bookkeeping itself (results at exit plane j == truncated run) is decided by the bounded harness and,
for the loop structure of multislice_and_detect, by proofs/c02.py."""

from pyvc.contracts import Alt, Const, Int, Seq
from pyvc.runner import native_replay as _nr
from pyvc.runner import run_property

PROPERTY = "C07"
LEVEL = "exploration"
M = "abtem/potentials/iam.py"
EXPLANATION = "exit-plane index arithmetic proved for all step sizes and slice counts; pipeline clauses are bounded"

SPECS = {
    "_validate_exit_planes/int": dict(
        module=M, qualname="_validate_exit_planes",
        params=dict(exit_planes=Int, num_slices=Int),
        requires=["exit_planes >= 1", "num_slices >= 1"],
        ensures=[
            ("all-when-step-too-large", "exit_planes < num_slices or (len(result) == 1 and result[0] == num_slices - 1)"),
            ("entrance-plane-first", "exit_planes >= num_slices or result[0] == -1"),
            ("last-is-final-slice", "result[len(result) - 1] == num_slices - 1"),
            ("in-range", "forall(lambda i: -1 <= result[i] <= num_slices - 1, 0, len(result))"),
            ("strictly-increasing", "forall(lambda i: result[i - 1] < result[i], 1, len(result))"),
            ("regular-steps", "exit_planes >= num_slices or forall(lambda i: result[i] == i * exit_planes - 1, 1, len(result) - 1)"),
            ("last-gap-at-most-step", "exit_planes >= num_slices or result[len(result) - 1] - result[len(result) - 2] <= exit_planes"),
        ],
    ),
    "_validate_exit_planes/none": dict(
        module=M, qualname="_validate_exit_planes",
        params=dict(exit_planes=Const(None), num_slices=Int), requires=["num_slices >= 1"],
        ensures=[("final-only", "len(result) == 1 and result[0] == num_slices - 1")],
    ),
    "_validate_exit_planes/tuple": dict(
        module=M, qualname="_validate_exit_planes",
        params=dict(exit_planes=Seq(Int), num_slices=Int), requires=["num_slices >= 1"],
        ensures=[("unchanged", "len(result) == len(exit_planes) and forall(lambda i: result[i] == exit_planes[i], 0, len(exit_planes))")],
    ),
}


def run(tier="quick", seed=0):
    from pyvc import frame

    r = run_property(PROPERTY, SPECS, tier, seed,
                     bounded_standins=["result at exit plane k == run truncated after that slice, entrance plane == incident wave: bounded/c07.py"])
    # entrance plane == incident wave for *every* configuration: the wave is re-initialised from the incident wave before its
    # first use (the entrance-plane detection) in each pass of the configuration loop, and every detection is inside that loop
    for o in (frame.loop_reset("abtem/multislice.py", "multislice_and_detect", 0, "waves", PROPERTY, "entrance-plane-sees-the-incident-wave"),
              frame.calls_inside_loop("abtem/multislice.py", "multislice_and_detect", "_update_measurements", 0, PROPERTY,
                                      "every-detection-inside-the-configuration-loop")):
        r["obligations"].append(o)
        if o.get("function"):
            r["functions"].append(o["function"])
    r["trusted_base"] = list(r["trusted_base"]) + ["frame analysis (pyvc/frame.py): freshness rules; Waves.copy() returns an independent copy (ASSUMED)"]
    return r


def native_replay(case):
    return _nr(PROPERTY, SPECS, case)
