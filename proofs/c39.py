"""C39 — beam tilt acts as a lateral shift per propagation distance: pointwise contract on the tilt factor (deductive).

_apply_tilt_to_fresnel_propagator_array multiplies every Fourier coefficient by exp(-2 pi i (kx tan tx + ky tan ty) dz);
fft_shift_kernel (C15) is exp(-2 pi i (m0 p0 / n0 + m1 p1 / n1)); with k = m / (n d) the two coincide for
p = dz tan(t) / d, i.e. tilted propagation == untilted propagation followed by a shift of dz tan t (DFT shift theorem assumed)."""

from pyvc.contracts import Cplx, Real, RowArr, Tup
from pyvc.runner import native_replay as _nr
from pyvc.runner import run_property

PROPERTY = "C39"
LEVEL = "exploration"
EXPLANATION = "tilt factor equals the shift kernel for dz*tan(t)/sampling pixels at every frequency (proved pointwise); wave-level clauses bounded"

K = "spatial_frequencies(array.shape[-2:], sampling)"
SPECS = {
    "_apply_tilt_to_fresnel_propagator_array": dict(
        module="abtem/multislice.py", qualname="_apply_tilt_to_fresnel_propagator_array",
        params=dict(array=Cplx(), sampling=Tup(Real, Real), thickness=Real, tilt=RowArr(Real, Real)),
        options=dict(pointwise=True),
        requires=["sampling[0] > 0 and sampling[1] > 0"],
        ensures=[("tilt-phase", f"result == array * complex_exponential(-2 * np.pi * thickness * ({K}[0] * np.tan(tilt[..., 0] / 1e3) + {K}[1] * np.tan(tilt[..., 1] / 1e3)))"),
                 ("modulus-kept", "result.real ** 2 + result.imag ** 2 == array.real ** 2 + array.imag ** 2")],
        cross_check=False,
    ),
}


def run(tier="quick", seed=0):
    return run_property(PROPERTY, SPECS, tier, seed,
                        extra_assumptions=["A-POINTWISE; DFT shift theorem (fft of a rolled array == phase ramp times fft) is assumed, not proved"],
                        bounded_standins=["tilted propagation == propagate then fft_shift on real waves, unit modulus of tilted plane waves, per-axis vs 2-D tilts: bounded/c39.py"])


def native_replay(case):
    return _nr(PROPERTY, SPECS, case)
