"""C09 — slicing conserves the potential: contract on abtem/slicing.py:_validate_slice_thickness (deductive tier)."""

from pyvc.contracts import Alt, Const, Int, Opt, Real, Seq
from pyvc.runner import native_replay as _nr
from pyvc.runner import run_property

PROPERTY = "C09"
LEVEL = "exploration"
M = "abtem/slicing.py"
EXPLANATION = "slice thicknesses sum to the cell height (proved, reals); atom-to-slice assignment and additivity are bounded"

SPECS = {
    "_validate_slice_thickness/scalar": dict(
        module=M, qualname="_validate_slice_thickness",
        params=dict(slice_thickness=Real, thickness=Real, num_slices=Const(None)),
        requires=["thickness > 0"],
        raises={"ValueError": "slice_thickness <= 0"},
        ensures=[
            ("count", "len(result) >= 1 and (len(result) - 1) * slice_thickness < thickness <= len(result) * slice_thickness"),
            ("equal", "forall(lambda i: result[i] * len(result) == thickness, 0, len(result))"),
            ("sum", "sum(result) == thickness"),
            ("not-thicker", "forall(lambda i: 0 < result[i] <= slice_thickness, 0, len(result))"),
        ],
        native_gen=lambda rng: dict(slice_thickness=rng.choice([0.5, 1.0, 2.0, 0.3, 1.7, -1.0, 0.0]), thickness=rng.choice([1.0, 4.0, 5.43, 10.0, 0.2]),
                                    num_slices=None),
    ),
    "_validate_slice_thickness/sequence": dict(
        module=M, qualname="_validate_slice_thickness",
        params=dict(slice_thickness=Seq(Real), thickness=Real, num_slices=Const(None)),
        requires=["thickness > 0", "forall(lambda i: slice_thickness[i] > 0, 0, len(slice_thickness))"],
        raises={"RuntimeError": "sum(slice_thickness) != thickness"},
        ensures=[
            ("sum", "sum(result) == thickness"),
            ("same", "len(result) == len(slice_thickness) and forall(lambda i: result[i] == slice_thickness[i], 0, len(result))"),
        ],
        sum_lemmas={"validated_slice_thickness": "lambda k: psum(slice_thickness, k)", "result": "lambda k: psum(slice_thickness, k)"},
        cross_check=False,
    ),
    # entrance / exit depth of every slice: contiguous, starting at 0, slice i is exactly slice_thickness[i] thick and the
    # last exit depth is the sum of the thicknesses (with the contract above: the cell height)
    "slice_limits": dict(
        module=M, qualname="slice_limits", params=dict(slice_thickness=Seq(Real, pytype="tuple")),
        requires=["len(slice_thickness) >= 1", "forall(lambda i: slice_thickness[i] > 0, 0, len(slice_thickness))"],
        ensures=[
            ("one-pair-per-slice", "len(result) == len(slice_thickness)"),
            ("starts-at-zero", "result[0][0] == 0"),
            ("entrance-is-sum-of-thicknesses-above", "forall(lambda i: result[i][0] == psum(slice_thickness, i), 0, len(slice_thickness))"),
            ("thickness-of-each-slice", "forall(lambda i: result[i][1] - result[i][0] == slice_thickness[i], 0, len(slice_thickness))"),
            ("contiguous", "forall(lambda i: result[i][1] == result[i + 1][0], 0, len(slice_thickness) - 1)"),
            ("ends-at-total", "result[len(slice_thickness) - 1][1] == psum(slice_thickness, len(slice_thickness))"),
        ],
        refute_hints=["len(slice_thickness) == 2"],
        cross_check=True,
    ),
    "_unpack_item/int": dict(
        module=M, qualname="_unpack_item", params=dict(item=Int, num_items=Int), requires=["num_items >= 1", "item >= 0"],
        raises={"IndexError": "item >= num_items"},
        ensures=[("single-slice", "result[0] == item and result[1] == item + 1 and result[1] <= num_items")],
        cross_check=True,
    ),
}


def run(tier="quick", seed=0):
    return run_property(PROPERTY, SPECS, tier, seed)


def native_replay(case):
    return _nr(PROPERTY, SPECS, case)
