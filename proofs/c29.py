"""C29 — array-object structural operations: deductive tier for the axis-bookkeeping helpers the operations are built on."""

from pyvc.contracts import Alt, Bool, Const, Int, Real, Seq
from pyvc.runner import native_replay as _nr
from pyvc.runner import run_property

PROPERTY = "C29"
LEVEL = "exploration"
MU = "abtem/core/utils.py"
EXPLANATION = ("normalize_axes maps every valid (possibly negative) axis to the equivalent index in [0, ndim), tuple_range and "
               "number_to_tuple return what their callers index with: discharged for all ranks and values; the structural "
               "operations themselves (indexing, reductions, stacking, rechunking ...) are bounded")

SPECS = {
    "normalize_axes": dict(
        module=MU, qualname="normalize_axes", params=dict(axes=Seq(Int, pytype="tuple"), shape=Seq(Int, pytype="tuple")),
        requires=["len(shape) >= 1", "forall(lambda i: -len(shape) <= axes[i] and axes[i] < len(shape), 0, len(axes))"],
        ensures=[("same-count", "len(result) == len(axes)"),
                 ("in-range", "forall(lambda i: 0 <= result[i] and result[i] < len(shape), 0, len(axes))"),
                 ("same-axis", "forall(lambda i: result[i] == axes[i] or result[i] == axes[i] + len(shape), 0, len(axes))"),
                 ("non-negative-kept", "forall(lambda i: implies(axes[i] >= 0, result[i] == axes[i]), 0, len(axes))")],
        refute_hints=["len(axes) == 1 and len(shape) == 2"],
        cross_check=False,
    ),
    "normalize_axes/int": dict(
        module=MU, qualname="normalize_axes", params=dict(axes=Int, shape=Seq(Int, pytype="tuple")),
        requires=["len(shape) >= 1", "-len(shape) <= axes and axes < len(shape)"],
        ensures=[("single", "len(result) == 1 and 0 <= result[0] and result[0] < len(shape) and "
                            "(result[0] == axes or result[0] == axes + len(shape))")],
        cross_check=False,
    ),
    "tuple_range": dict(
        module=MU, qualname="tuple_range", params=dict(length=Int, offset=Int), requires=["length >= 0"],
        ensures=[("count", "len(result) == length"), ("consecutive-from-offset", "forall(lambda i: result[i] == offset + i, 0, length)")],
        refute_hints=["length == 2"],
        cross_check=True,
    ),
    "number_to_tuple/scalar": dict(
        module=MU, qualname="number_to_tuple", params=dict(value=Alt(Real, Int, Bool), dimension=Alt(Const(None), Int)),
        requires=["dimension is None or dimension >= 1"],
        ensures=[("count", "len(result) == (1 if dimension is None else dimension)"),
                 ("every-entry-is-the-value", "forall(lambda i: result[i] == value, 0, len(result))")],
        cross_check=False,
    ),
    "number_to_tuple/sequence": dict(
        module=MU, qualname="number_to_tuple", params=dict(value=Seq(Real, pytype="tuple"), dimension=Alt(Const(None), Int)),
        requires=["len(value) >= 1", "dimension is None or len(value) == dimension"],  # the function asserts the latter
        ensures=[("unchanged", "len(result) == len(value) and forall(lambda i: result[i] == value[i], 0, len(value))")],
        cross_check=False,
    ),
}


def run(tier="quick", seed=0):
    return run_property(PROPERTY, SPECS, tier, seed,
                        bounded_standins=["indexing, reductions, stacking, expand_dims / squeeze, rechunking, arithmetic on array objects: bounded/c29.py"])


def native_replay(case):
    return _nr(PROPERTY, SPECS, case)
