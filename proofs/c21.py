"""C21 — the CTF implements the polar aberration expansion (deductive tier, pointwise).

Aberrations._evaluate_from_angular_grid is executed symbolically at one arbitrary array element (A-POINTWISE): alpha,
phi, the wavelength and all 25 polar coefficients are symbolic reals; every path through the five `_nonzero_coefficients`
guards is explored. Postcondition (taken from the statement): result == exp(-2 pi i chi(alpha, phi) / lambda) with chi the
polar polynomial of Kirkland Eq. 2.22, written out independently below.
"""

from pyvc.contracts import Const, Dct, Obj, Real
from pyvc.runner import native_replay as _nr
from pyvc.runner import run_property

PROPERTY = "C21"
LEVEL = "proof"
M = "abtem/transfer.py"
EXPLANATION = "phase of the aberration function equals -2 pi chi / lambda for all coefficients, angles, wavelengths (reals)"

# Kirkland Eq. 2.22: chi = sum_n alpha^(n+1)/(n+1) sum_m C_nm cos(m (phi - phi_nm))
ORDERS = {1: [("C10", 0, None), ("C12", 2, "phi12")],
          2: [("C21", 1, "phi21"), ("C23", 3, "phi23")],
          3: [("C30", 0, None), ("C32", 2, "phi32"), ("C34", 4, "phi34")],
          4: [("C41", 1, "phi41"), ("C43", 3, "phi43"), ("C45", 5, "phi45")],
          5: [("C50", 0, None), ("C52", 2, "phi52"), ("C54", 4, "phi54"), ("C56", 6, "phi56")]}


def _chi(acc="self._aberration_coefficients", ang="phi"):
    terms = []
    for n, items in ORDERS.items():
        inner = []
        for C, m, ph in items:
            inner.append(f"{acc}['{C}']" if ph is None else f"{acc}['{C}'] * np.cos({m} * ({ang} - {acc}['{ph}']))")
        terms.append(f"alpha ** {n + 1} / {n + 1} * ({' + '.join(inner)})")
    return " + ".join(terms)


def _symbols():
    from abtem.transfer import polar_symbols

    return list(polar_symbols.keys())


def _build(f):
    from abtem.transfer import Aberrations

    ab = Aberrations(energy=100e3, aberration_coefficients=dict(f["_aberration_coefficients"]))
    return ab


def _specs():
    syms = _symbols()
    self_sort = Obj(M, "Aberrations", dict(_aberration_coefficients=Dct({s: Real for s in syms}), wavelength=Real,
                                           ensemble_shape=Const(())))
    return {
        "Aberrations._evaluate_from_angular_grid": dict(
            module=M, qualname="Aberrations._evaluate_from_angular_grid",
            params=dict(self=self_sort, alpha=Real, phi=Real),
            options=dict(pointwise=True, merge_calls=("_nonzero_coefficients", "_has_aberrations")),
            requires=["self.wavelength > 0", "alpha >= 0"],
            ghost={"chi": _chi()},
            ensures=[("polar-expansion", "same_phase(result, complex_exponential(-2 * np.pi / self.wavelength * chi))")],
            cross_check=False,
        ),
    }


SPECS = _specs()


def run(tier="quick", seed=0):
    return run_property(PROPERTY, SPECS, tier, seed,
                        extra_assumptions=["A-POINTWISE: element-wise NumPy expressions are verified at one arbitrary array element; "
                                           "broadcasting / expand_dims / astype are identity on the element",
                                           "the wavelength is an arbitrary positive real (energy -> wavelength is C24)",
                                           "coefficients are scalars (distribution-valued coefficients: C03, bounded)"],
                        bounded_standins=["aliases / defocus / rotation law / distribution-valued coefficients: bounded/c21.py"])


def native_replay(case):
    return _nr(PROPERTY, SPECS, case)
