"""C04 — propagation never creates intensity: pointwise contracts on the Fourier-space kernels (deductive tier).

|propagator| == 1 and P(-dz) == conj P(dz) at every frequency, antialias aperture in [0, 1] (1 inside cutoff - taper,
0 beyond the cutoff). The norm argument over whole arrays (Parseval) and the band-limited transmission function are
bounded (see the known finding on C04/step/nonincrease-potential)."""

from pyvc.contracts import Alt, Const, Int, Real, Tup
from pyvc.runner import native_replay as _nr
from pyvc.runner import run_property
from pyvc.values import ModuleRef

PROPERTY = "C04"
LEVEL = "exploration"
EXPLANATION = "unit modulus / conjugate symmetry of the Fresnel propagator and [0,1] range of the antialias aperture proved pointwise; intensity clauses bounded"

SPECS = {
    "_fresnel_propagator_array": dict(
        module="abtem/multislice.py", qualname="_fresnel_propagator_array",
        params=dict(thickness=Real, gpts=Tup(Int, Int), sampling=Tup(Real, Real), energy=Real, device=Const("cpu"), order=Alt(1, 2)),
        options=dict(pointwise=True),
        requires=["energy > 0", "gpts[0] >= 1 and gpts[1] >= 1", "sampling[0] > 0 and sampling[1] > 0"],
        ensures=[("unit-modulus", "abs(result) == 1"),
                 ("reverse-is-conjugate", "same_phase(result * _fresnel_propagator_array(-thickness, gpts, sampling, energy, device, order), "
                                          "complex_exponential(0 * thickness))")],
        cross_check=False,
    ),
    "antialias_aperture": dict(
        module="abtem/antialias.py", qualname="antialias_aperture",
        params=dict(gpts=Tup(Int, Int), sampling=Tup(Real, Real), xp=Const(ModuleRef("numpy"))),
        options=dict(pointwise=True),
        requires=["gpts[0] >= 1 and gpts[1] >= 1", "sampling[0] > 0 and sampling[1] > 0"],
        ensures=[("in-unit-interval", "0 <= result <= 1")],
        cross_check=False,
    ),
}


def run(tier="quick", seed=0):
    return run_property(PROPERTY, SPECS, tier, seed,
                        extra_assumptions=["A-POINTWISE; phase factors exp(i a) exp(i b) == exp(i (a+b)) exactly (complex_exponential assumed)"],
                        bounded_standins=["total intensity non-increase per step / pipeline, vacuum preservation, reversibility on arrays: bounded/c04.py"])


def native_replay(case):
    return _nr(PROPERTY, SPECS, case)
