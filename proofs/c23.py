"""C23 — apertures and envelopes stay within physical bounds (deductive tier, pointwise)."""

from pyvc.contracts import Const, Dct, Obj, Real, Tup
from pyvc.runner import native_replay as _nr
from pyvc.runner import run_property

PROPERTY = "C23"
LEVEL = "proof"
M = "abtem/transfer.py"
EXPLANATION = ("hard/soft aperture values, temporal and spatial envelope bounds proved at an arbitrary array element for all "
               "cutoffs, samplings, spreads, wavelengths and (spatial envelope) all 25 coefficients")


def _symbols():
    from abtem.transfer import polar_symbols

    return list(polar_symbols.keys())


DMAX = "(angular_sampling[0] if angular_sampling[0] >= angular_sampling[1] else angular_sampling[1]) / 1000"

SPECS = {
    "hard_aperture": dict(
        module=M, qualname="hard_aperture", params=dict(alpha=Real, semiangle_cutoff=Real),
        options=dict(pointwise=True), requires=["alpha >= 0"],
        ensures=[("one-up-to-cutoff", "implies(alpha <= semiangle_cutoff, result == 1)"),
                 ("zero-beyond", "implies(alpha > semiangle_cutoff, result == 0)")],
        cross_check=False,
    ),
    "soft_aperture": dict(
        module=M, qualname="soft_aperture",
        params=dict(alpha=Real, phi=Real, semiangle_cutoff=Real, angular_sampling=Tup(Real, Real)),
        options=dict(pointwise=True),
        requires=["alpha >= 0", "semiangle_cutoff >= 0", "angular_sampling[0] > 0", "angular_sampling[1] > 0",
                  "implies(origin(), alpha == 0)"],
        ensures=[("in-unit-interval", "0 <= result <= 1"),
                 ("one-inside", f"implies(alpha <= semiangle_cutoff - {DMAX} / 2, result == 1)"),
                 ("zero-outside", f"implies(alpha >= semiangle_cutoff + {DMAX} / 2 and not origin(), result == 0)"),
                 ("one-at-zero-frequency", "implies(origin(), result == 1)")],
        cross_check=False,
    ),
    "TemporalEnvelope": dict(
        module=M, qualname="TemporalEnvelope._evaluate_from_angular_grid",
        params=dict(self=Obj(M, "TemporalEnvelope", dict(focal_spread=Real, wavelength=Real, _num_ensemble_axes=Const(0))),
                    alpha=Real, phi=Real),
        options=dict(pointwise=True), requires=["self.wavelength > 0", "alpha >= 0"],
        ensures=[("in-unit-interval", "0 < result <= 1"), ("one-at-zero-angle", "implies(alpha == 0, result == 1)")],
        cross_check=False,
    ),
    "SpatialEnvelope": dict(
        module=M, qualname="SpatialEnvelope._evaluate_from_angular_grid",
        params=dict(self=Obj(M, "SpatialEnvelope", dict(_aberration_coefficients=Dct({s: Real for s in _symbols()}),
                                                          angular_spread=Real, wavelength=Real, _num_ensemble_axes=Const(0))),
                    alpha=Real, phi=Real),
        options=dict(pointwise=True), requires=["self.wavelength > 0", "alpha >= 0", "self.angular_spread >= 0"],
        ensures=[("in-unit-interval", "0 < result <= 1"), ("one-at-zero-angle", "implies(alpha == 0, result == 1)")],
        cross_check=False,
    ),
}


def run(tier="quick", seed=0):
    return run_property(PROPERTY, SPECS, tier, seed,
                        extra_assumptions=["A-POINTWISE (see C21)", "exp is uninterpreted with exp(x) > 0, exp(x) <= 1 <=> x <= 0, exp(x) == 1 <=> x == 0"],
                        bounded_standins=["CTF composition (|CTF| <= aperture), Aperture dispatch soft/hard, several cutoffs: bounded/c23.py"])


def native_replay(case):
    return _nr(PROPERTY, SPECS, case)
