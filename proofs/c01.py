"""C01 — lazy == eager: frame obligation behind it — multislice_and_detect never modifies the wave it is given
(a lazy graph re-uses the same input block for several tasks; an eager call must leave the caller's wave intact)."""

from pyvc import frame

PROPERTY = "C01"
LEVEL = "exploration"
EXPLANATION = ("`assigns nothing` on the `waves` argument of multislice_and_detect, with aliases through methods that may return "
               "the object itself (ensure_real_space) tracked and the in-place multislice step declared as mutating; equality of "
               "lazy and eager results is decided by the bounded harness")

MUTATING = {"multislice_step": "mutates", "conventional_multislice_step": "mutates", "_update_plasmon_axes": "mutates"}


def run(tier="quick", seed=0):
    obs = [frame.param_not_mutated("abtem/multislice.py", "multislice_and_detect", "waves", "Waves", PROPERTY,
                                   "assigns-nothing(waves)", callee_summaries=MUTATING, may_alias=True)]
    return dict(obligations=obs, functions=[o["function"] for o in obs if o.get("function")],
                trusted_base=["freshness rules of pyvc/frame.py (copy / deepcopy return independent objects)",
                              "the multislice step and _update_plasmon_axes are the only callees that modify the wave they receive (declared)"],
                assumptions=["tier F is syntactic and conservative; a refutation is a candidate only, confirmed by the bounded harness"],
                selfcheck={}, errors=[], bounded_standins=["lazy == eager values / shapes / metadata for every pipeline: bounded/c01.py"])


def native_replay(case):
    return []
