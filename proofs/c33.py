"""C33 — unit conversions compose and invert: contracts on abtem/core/units.py and LinearAxis.convert_units.

Unit names are finite: every (a, b, c) triple inside a category is a separate configuration in which the real functions
are executed symbolically (sampling / offset are symbolic reals, the conversion table is read from the live module as
exact rationals of its float entries), so each clause is discharged for all samplings and offsets.
"""

from pyvc.contracts import Alt, Bool, Const, Obj, Real
from pyvc.runner import native_replay as _nr
from pyvc.runner import run_property

PROPERTY = "C33"
LEVEL = "proof"
MU, MA = "abtem/core/units.py", "abtem/core/axes.py"
EXPLANATION = ("exhaustive over unit triples (finite) x symbolic real sampling/offset; laws: F(b|a)F(c|b) == F(c|a), "
               "F(b|a)F(a|b) == 1, same on converted axes, receiver unchanged")

CATS = {
    "real_space": ("Å", "Angstrom", "nm", "um", "mm", "m"),
    "reciprocal_space": ("1/Å", "1/Angstrom", "1/nm", "1/um", "1/mm", "1/m"),
    "angular": ("rad", "mrad", "deg"),
}


def _axis(names):
    return Obj(MA, "LinearAxis", dict(label=Const("x"), units=Alt(*names), tex_label=Const(None), tex_units=Const(None),
                                      _default_type=Const("index"), _concatenate=Const(True), _ensemble_mean=Const(False),
                                      _squeeze=Const(False), sampling=Real, offset=Real))


def _build_axis(f):
    from abtem.core.axes import LinearAxis

    return LinearAxis(label="x", units=f["units"], sampling=f["sampling"], offset=f["offset"])


SPECS = {}
for cat, names in CATS.items():
    SPECS[f"get_conversion_factor/{cat}"] = dict(
        module=MU, qualname="get_conversion_factor",
        params=dict(units=Alt(*names), old_units=Alt(*names), energy=Const(None)), extra=dict(c=Alt(*names)),
        requires=[],
        ensures=[
            ("compose", "result * get_conversion_factor(c, units) == get_conversion_factor(c, old_units)"),
            ("inverse", "result * get_conversion_factor(old_units, units) == 1"),
            ("positive", "result > 0"),
        ],
        cross_check_n=120,
    )
    SPECS[f"LinearAxis.convert_units/{cat}"] = dict(
        module=MA, qualname="LinearAxis.convert_units",
        params=dict(self=_axis(names), units=Alt(*names)), extra=dict(c=Alt(*names)),
        requires=["self.sampling > 0"],
        ensures=[
            ("frame", "self.sampling == old_self.sampling and self.offset == old_self.offset and self.units == old_self.units"),
            ("units", "result.units == units"),
            ("compose", "result.convert_units(c).sampling == self.convert_units(c).sampling and "
                        "result.convert_units(c).offset == self.convert_units(c).offset"),
            ("inverse", "result.convert_units(self.units).sampling == self.sampling and "
                        "result.convert_units(self.units).offset == self.offset"),
        ],
        native_build={"self": _build_axis},
        cross_check_n=120,
    )
# the units advertised by the library itself must be exactly the ones enumerated here (guards against a stale list)
SPECS["advertised-units"] = dict(
    module=MU, qualname="validate_units", params=dict(units=Const("nm"), old_units=Const(None)), requires=[],
    ensures=[("table", "tuple(_unit_categories['real_space']) == %r and tuple(_unit_categories['reciprocal_space']) == %r "
                       "and tuple(_unit_categories['angular']) == %r" % (CATS["real_space"], CATS["reciprocal_space"], CATS["angular"]))],
    cross_check=False,
)


def run(tier="quick", seed=0):
    return run_property(PROPERTY, SPECS, tier, seed)


def native_replay(case):
    return _nr(PROPERTY, SPECS, case)
