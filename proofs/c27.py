"""C27 — structure factors respect crystal symmetry: deductive tier for the reciprocal grid the reflections are drawn from."""

from pyvc.contracts import Alt, Const, Int, Opq, Real, RowArr, Tup
from pyvc.runner import native_replay as _nr
from pyvc.runner import run_property

PROPERTY = "C27"
LEVEL = "exploration"
MB = "abtem/bloch/utils.py"
EXPLANATION = ("reciprocal_space_gpts returns an odd number of points per axis (so the integer frequencies of numpy.fft.fftfreq "
               "are symmetric under h -> -h) that reaches at least g_max along every axis: discharged for all cells (through the "
               "assumed positive bounding box) and g_max; Friedel symmetry, centering rules, reality / periodicity of the "
               "potential and translation invariance of the values are bounded")

# assumed callee contract: the Cartesian bounding box of a non-degenerate cell has three positive extents
BOUNDS = dict(module=MB, qualname="cell_bounds", params={}, requires=[],
              ensures=[("positive", "result[0] > 0 and result[1] > 0 and result[2] > 0"),
                       ("function-of-the-cell", "forall(lambda i: result[i] == ufr('bounds', cell, i), 0, 3)")],
              returns=Tup(Real, Real, Real, pytype="ndarray"), modular=True)

def _random_cell(rng):
    """orthogonal, hexagonal (a lattice vector longer than the bounding box) and triclinic cells as nested lists"""
    a, b, c = (rng.uniform(2.5, 9.0) for _ in range(3))
    kind = rng.choice(["ortho", "hex", "tric"])
    if kind == "ortho":
        return [[a, 0.0, 0.0], [0.0, b, 0.0], [0.0, 0.0, c]]
    if kind == "hex":
        return [[a, 0.0, 0.0], [-a / 2, a * 3 ** 0.5 / 2, 0.0], [0.0, 0.0, c]]
    return [[a, 0.0, 0.0], [rng.uniform(-0.4, 0.4) * b, b, 0.0], [rng.uniform(-0.4, 0.4) * c, rng.uniform(-0.4, 0.4) * c, c]]


def _native_bounds(cell, i):
    import numpy as np
    from abtem.bloch.utils import cell_bounds
    from pyvc.native import R

    return R(float(cell_bounds(np.array([[float(x) for x in row] for row in cell]))[int(i)]))


SPECS = {
    "reciprocal_space_gpts": dict(
        module=MB, qualname="reciprocal_space_gpts", params=dict(cell=Opq("cell"), g_max=Real),
        requires=["g_max > 0"],
        ensures=[("odd-so-inversion-symmetric", "forall(lambda i: result[i] % 2 == 1 and result[i] >= 3, 0, 3)"),
                 # largest index (n - 1) / 2 times the reciprocal spacing 1 / bounds reaches g_max
                 ("reaches-g_max", "forall(lambda i: (result[i] - 1) / 2 >= g_max * ufr('bounds', cell, i), 0, 3)"),
                 ("no-larger-than-needed", "forall(lambda i: (result[i] - 1) / 2 - 1 < g_max * ufr('bounds', cell, i), 0, 3)")],
        cross_check=True,
        native_build={"cell": lambda v: __import__("numpy").array(v, dtype=float)},
        native_gen=lambda rng: dict(cell=_random_cell(rng), g_max=rng.choice([0.7, 1.0, 1.3, 1.8, 2.5, 3.0, 3.7, 4.7, rng.uniform(0.5, 5.0)])),
        native_helpers={"ufr": lambda name, cell, i: _native_bounds(cell, i)},
    ),
    # reflection conditions of the International Tables for the lattice centerings, at an arbitrary reflection (h, k, l)
    "get_reflection_condition": dict(
        module=MB, qualname="get_reflection_condition",
        params=dict(hkl=RowArr(Int, Int, Int), centering=Alt(*[Const(c) for c in "PIFABCpifabc"])),
        options=dict(pointwise=True), requires=[],
        ensures=[
            ("P-allows-everything", "centering.lower() != 'p' or result == True"),
            ("I-h+k+l-even", "centering.lower() != 'i' or result == ((hkl[..., 0] + hkl[..., 1] + hkl[..., 2]) % 2 == 0)"),
            ("F-unmixed-parity", "centering.lower() != 'f' or result == (hkl[..., 0] % 2 == hkl[..., 1] % 2 and hkl[..., 1] % 2 == hkl[..., 2] % 2)"),
            ("A-k+l-even", "centering.lower() != 'a' or result == ((hkl[..., 1] + hkl[..., 2]) % 2 == 0)"),
            ("B-h+l-even", "centering.lower() != 'b' or result == ((hkl[..., 0] + hkl[..., 2]) % 2 == 0)"),
            ("C-h+k-even", "centering.lower() != 'c' or result == ((hkl[..., 0] + hkl[..., 1]) % 2 == 0)"),
        ],
        cross_check=True,
        native_gen=lambda rng: dict(hkl=[rng.randint(-6, 6), rng.randint(-6, 6), rng.randint(-6, 6)], centering=rng.choice("PIFABCpifabc")),
    ),
}


def run(tier="quick", seed=0):
    return run_property(PROPERTY, SPECS, tier, seed, registry={(MB, "cell_bounds"): BOUNDS},
                        bounded_standins=["F(-h) == conj F(h), forbidden reflections, potential real / periodic, translation invariance: bounded/c27.py"])


def native_replay(case):
    return _nr(PROPERTY, SPECS, case)
