"""C36 — distributions have the values and weights they advertise (deductive tier for uniform / from_values / negation)."""

from pyvc.contracts import Bool, Const, Int, Obj, Real, Seq
from pyvc.runner import native_replay as _nr
from pyvc.runner import run_property

PROPERTY = "C36"
LEVEL = "exploration"
MD = "abtem/distributions.py"
EXPLANATION = ("uniform: num_samples equally spaced values from low to high (or one step short) with unit weights; from_values / "
               "negation: values kept / negated, weights kept: discharged for all reals and lengths; Gaussian profile and norms, "
               "divide, multidimensional products: bounded")

DIST = Obj(MD, "DistributionFromValues", dict(_values=Seq(Real), _weights=Seq(Real), _ensemble_mean=Bool))

SPECS = {
    "uniform": dict(
        module=MD, qualname="uniform",
        params=dict(low=Real, high=Real, num_samples=Int, endpoint=Bool, ensemble_mean=Bool),
        requires=["num_samples >= 2"],
        ensures=[("count", "len(result._values) == num_samples and len(result._weights) == num_samples"),
                 ("first-is-low", "result._values[0] == low"),
                 ("equally-spaced", "forall(lambda i: result._values[i] * (num_samples - (1 if endpoint else 0)) == "
                                    "low * (num_samples - (1 if endpoint else 0)) + i * (high - low), 0, num_samples)"),
                 ("last-is-high-with-endpoint", "implies(endpoint, result._values[num_samples - 1] == high)"),
                 ("unit-weights", "forall(lambda i: result._weights[i] == 1, 0, num_samples)"),
                 ("ensemble-mean-kept", "result._ensemble_mean == ensemble_mean")],
        cross_check=False,
    ),
    "uniform/single": dict(
        module=MD, qualname="uniform",
        params=dict(low=Real, high=Real, num_samples=Const(1), endpoint=Const(False), ensemble_mean=Bool),
        requires=[],
        ensures=[("count", "len(result._values) == 1 and len(result._weights) == 1"),
                 ("value-is-low", "result._values[0] == low"), ("unit-weight", "result._weights[0] == 1")],
        cross_check=False,
    ),
    "from_values": dict(
        module=MD, qualname="from_values",
        params=dict(values=Seq(Real), weights=Const(None), ensemble_mean=Bool),
        requires=["len(values) >= 1"],
        ensures=[("values-kept", "len(result._values) == len(values) and forall(lambda i: result._values[i] == values[i], 0, len(values))"),
                 ("unit-weights", "len(result._weights) == len(values) and forall(lambda i: result._weights[i] == 1, 0, len(values))"),
                 ("ensemble-mean-kept", "result._ensemble_mean == ensemble_mean")],
        cross_check=False,
    ),
    "DistributionFromValues.__neg__": dict(
        module=MD, qualname="DistributionFromValues.__neg__", params=dict(self=DIST),
        requires=["len(self._values) >= 1", "len(self._weights) == len(self._values)"],
        ensures=[("values-negated", "len(result._values) == len(self._values) and forall(lambda i: result._values[i] == -self._values[i], 0, len(self._values))"),
                 ("weights-kept", "len(result._weights) == len(self._weights) and forall(lambda i: result._weights[i] == self._weights[i], 0, len(self._weights))"),
                 ("ensemble-mean-kept", "result._ensemble_mean == self._ensemble_mean"),
                 ("receiver-unchanged", "len(self._values) == len(old_self._values) and forall(lambda i: self._values[i] == old_self._values[i] and self._weights[i] == old_self._weights[i], 0, len(self._values))")],
        cross_check=False,
    ),
}

SPECS["DistributionFromValues.__neg__"]["refute_hints"] = ["len(self._values) == 1"]
SPECS["from_values"]["refute_hints"] = ["len(values) == 1"]
SPECS["uniform"]["refute_hints"] = ["num_samples == 2"]


def run(tier="quick", seed=0):
    return run_property(PROPERTY, SPECS, tier, seed,
                        bounded_standins=["Gaussian values/weights/norms, divide partitions, multidimensional values/weights: bounded/c36.py"])


def native_replay(case):
    return _nr(PROPERTY, SPECS, case)
