"""C13 — PolarMeasurements.integrate sums exactly the bins inside edge-aligned limits (deductive tier).

The array is an uninterpreted value; the executor records the subscript applied to it. Contract: for limits on bin edges
(limit == offset + k * sampling) the region that is summed is rows [k0, k1) x columns [a0, a1); without limits the full
axis. Additivity over partitions then follows from disjointness of adjacent half-open index ranges (NumPy sum over
slices is the assumed external)."""

from pyvc.contracts import Const, Int, Obj, Opq, Opt, Real, Tup
from pyvc.runner import native_replay as _nr
from pyvc.runner import run_property

PROPERTY = "C13"
LEVEL = "exploration"
M = "abtem/measurements.py"
EXPLANATION = "index ranges of the summed region proved for all samplings/offsets/edge-aligned limits (reals); float rounding of limits and the NumPy sum are bounded"

SELF = Obj(M, "PolarMeasurements", dict(array=Opq("ndarray"), shape=Tup(Int, Int), _radial_offset=Real, _radial_sampling=Real,
                                        _azimuthal_offset=Real, _azimuthal_sampling=Real))

SPECS = {
    "integrate": dict(
        module=M, qualname="PolarMeasurements.integrate",
        params=dict(self=SELF, radial_limits=Opt(Tup(Real, Real)), azimuthal_limits=Opt(Tup(Real, Real)), detector_regions=Const(None)),
        extra=dict(k0=Int, k1=Int, a0=Int, a1=Int),
        requires=["self._radial_sampling > 0", "self._azimuthal_sampling > 0", "self.shape[0] >= 1 and self.shape[1] >= 1",
                  "0 <= k0 <= k1 <= self.shape[0]", "0 <= a0 <= a1 <= self.shape[1]",
                  "radial_limits is None or (radial_limits[0] == self._radial_offset + k0 * self._radial_sampling and "
                  "radial_limits[1] == self._radial_offset + k1 * self._radial_sampling)",
                  "azimuthal_limits is None or (azimuthal_limits[0] == self._azimuthal_offset + a0 * self._azimuthal_sampling and "
                  "azimuthal_limits[1] == self._azimuthal_offset + a1 * self._azimuthal_sampling)"],
        ensures=[
            ("one-region-summed", "num_observed('getitem') == 1 and num_observed('sum') == 1"),
            ("radial-bins", "observed(0, 'getitem')[1].start == (None if radial_limits is None else k0) and "
                            "observed(0, 'getitem')[1].stop == (None if radial_limits is None else k1)"),
            ("azimuthal-bins", "observed(0, 'getitem')[2].start == (None if azimuthal_limits is None else a0) and "
                               "observed(0, 'getitem')[2].stop == (None if azimuthal_limits is None else a1)"),
            ("over-bin-axes", "observed(0, 'sum')['axis'] == (-2, -1)"),
        ],
        cross_check=False,
    ),
}


def run(tier="quick", seed=0):
    return run_property(PROPERTY, SPECS, tier, seed,
                        bounded_standins=["values of the integrals, partitions add up, float-rounded limits: bounded/c13.py"])


def native_replay(case):
    return _nr(PROPERTY, SPECS, case)
