"""C20 — scan positions have the geometry their parameters describe (deductive tier for the coordinate arithmetic)."""

from pyvc.contracts import Bool, Const, Int, Obj, Real, Tup
from pyvc.runner import native_replay as _nr
from pyvc.runner import run_property

PROPERTY = "C20"
LEVEL = "exploration"
MS, MG, MA = "abtem/scan.py", "abtem/core/grid.py", "abtem/core/axes.py"
EXPLANATION = "GridScan coordinates and linear-axis coordinates are start + i*sampling with the stated end point (proved, reals); probe shift clause and LineScan are bounded"

GRID = Obj(MG, "Grid", dict(_dimensions=Const(2), _endpoint=Tup(Bool, Bool), _extent=Tup(Real, Real), _gpts=Tup(Int, Int),
                            _sampling=Tup(Real, Real), _lock_extent=Const(False), _lock_gpts=Const(False), _lock_sampling=Const(False)))
SCAN = Obj(MS, "GridScan", dict(_start=Tup(Real, Real), _end=Tup(Real, Real), _grid=GRID))


def _coord_spec(q, k):
    e = f"(1 if self._grid._endpoint[{k}] else 0)"
    return dict(
        module=MS, qualname=f"GridScan.{q}", params=dict(self=SCAN),
        requires=[f"self._grid._gpts[{k}] - {e} >= 1", f"self._grid._sampling[{k}] > 0",
                  # Grid invariant (C17) and the extent the constructor derives from start/end
                  f"self._grid._extent[{k}] == (self._grid._gpts[{k}] - {e}) * self._grid._sampling[{k}]",
                  f"self._grid._extent[{k}] == self._end[{k}] - self._start[{k}]"],
        ensures=[("count", f"len(result) == self._grid._gpts[{k}]"),
                 ("equally-spaced-from-start", f"forall(lambda i: result[i] == self._start[{k}] + i * self._grid._sampling[{k}], 0, len(result))"),
                 ("last-position", f"result[len(result) - 1] == (self._end[{k}] if self._grid._endpoint[{k}] else self._end[{k}] - self._grid._sampling[{k}])")],
        cross_check=False,
    )


SPECS = {
    "GridScan._x_coordinates": _coord_spec("_x_coordinates", 0),
    "GridScan._y_coordinates": _coord_spec("_y_coordinates", 1),
    "LinearAxis.coordinates": dict(
        module=MA, qualname="LinearAxis.coordinates",
        params=dict(self=Obj(MA, "LinearAxis", dict(sampling=Real, offset=Real)), n=Int), requires=["n >= 1"],
        ensures=[("count", "len(result) == n"), ("affine", "forall(lambda i: result[i] == self.offset + i * self.sampling, 0, n)")],
        cross_check=False,
    ),
}


def run(tier="quick", seed=0):
    return run_property(PROPERTY, SPECS, tier, seed,
                        bounded_standins=["LineScan geometry, get_positions, axes metadata, probe at r == shifted origin probe: bounded/c20.py"])


def native_replay(case):
    return _nr(PROPERTY, SPECS, case)
