"""C02 — frozen-phonon ensemble == independent per-configuration runs: frame obligation on multislice_and_detect.

Tier F (data flow on the real AST): inside the loop over potential configurations the propagated wave is re-initialised
from a fresh copy of the loop-invariant incident wave before its first use, i.e. no state is carried from one
configuration to the next through `waves`. The numerical clauses are decided by the bounded harness."""

from pyvc import frame

PROPERTY = "C02"
LEVEL = "exploration"
EXPLANATION = "per-configuration independence of the eager loop proved as a frame/data-flow obligation; values are bounded"


def run(tier="quick", seed=0):
    obs = [frame.loop_reset("abtem/multislice.py", "multislice_and_detect", 0, "waves", PROPERTY,
                            "incident-wave-reset-per-configuration"),
           # every detection (entrance plane and exit planes) is made once per configuration, inside the configuration loop
           frame.calls_inside_loop("abtem/multislice.py", "multislice_and_detect", "_update_measurements", 0, PROPERTY,
                                   "every-detection-inside-the-configuration-loop")]
    return dict(obligations=obs, functions=[o["function"] for o in obs if o.get("function")],
                trusted_base=["frame analysis: freshness rules and mutator table of pyvc/frame.py",
                              "Waves.copy() returns an independent copy (ASSUMED)"],
                assumptions=["tier F is syntactic and conservative: a pass proves the clause, a failure is only a candidate"],
                selfcheck={}, errors=[], bounded_standins=["all numerical clauses: bounded/c02.py"])


def native_replay(case):
    return []
