"""C34 — temporary configuration changes are undone: data-flow obligation — the rollback record addresses the key that was
actually written (after canonicalisation), so that __exit__ restores / removes exactly what __init__ changed."""

from pyvc import frame

PROPERTY = "C34"
LEVEL = "exploration"
EXPLANATION = ("in config.set._assign the key appended to the rollback path is the canonical key used for every store and "
               "membership test on the dictionary (decided on the AST); that leaving the context restores the configuration "
               "exactly, for nested keys, alternative spellings, exceptions and nesting of contexts, is bounded")


def run(tier="quick", seed=0):
    obs = [frame.recorded_key_is_stored_key("abtem/core/config.py", "set._assign", "path", "d", PROPERTY,
                                            "recorded-key-is-the-stored-key")]
    return dict(obligations=obs, functions=[o["function"] for o in obs if o.get("function")],
                trusted_base=["syntactic data-flow rule of pyvc/frame.py (names, single binding)"],
                assumptions=["tier F is syntactic and conservative; a refutation is a candidate only, confirmed by the bounded harness"],
                selfcheck={}, errors=[], bounded_standins=["restore on normal / exceptional exit, nested contexts, absent keys stay absent: bounded/c34.py"])


def native_replay(case):
    return []
