"""C11 — a re-gridded potential behaves like a fresh one: ghost-state contracts on the two projection-integral caches.

`calc` / `table` are uninterpreted spec functions standing for the (NumPy) kernels; the cache invariant is "every cached
value equals calc of the arguments recorded for it". Obligations: the value returned for the *current* arguments equals
calc(current arguments) whatever the cache held before, and the invariant is re-established."""

from pyvc.contracts import Alt, Const, Dct, Int, Obj, Opq, Real, Tup
from pyvc.runner import native_replay as _nr
from pyvc.runner import run_property

PROPERTY = "C11"
LEVEL = "exploration"
M = "abtem/integrals.py"
EXPLANATION = "cache-validity contracts (ghost spec functions) proved for all grids and all earlier cache contents; end-to-end histories bounded"

ARGS = Tup(Tup(Int, Int), Tup(Real, Real), Const("cpu"))
SELF_SF = Obj(M, "ScatteringFactorProjectionIntegrals", dict(
    _scattering_factors=Alt(Dct({}), Dct({"Si": Opq("array")})),
    _scattering_factor_args=Alt(Dct({}), Dct({"Si": ARGS}))))
SELF_Q = Obj(M, "QuadratureProjectionIntegrals", dict(
    _tables=Alt(Dct({}), Dct({"Si": Opq("table")})), _table_inner_limits=Alt(Dct({}), Dct({"Si": Real})),
    _inner_cutoff_factor=Real))

CALC = dict(module=M, qualname="ScatteringFactorProjectionIntegrals._calculate_scattering_factor", params={}, requires=[],
            ensures=[("value", "result == ufo('array', 'calc', symbol, gpts, sampling, device)")], returns=Opq("array"), modular=True)
TABLE = dict(module=M, qualname="QuadratureProjectionIntegrals._calculate_integral_table", params={}, requires=[],
             ensures=[("value", "result == ufo('table', 'table', symbol, min(sampling) / self._inner_cutoff_factor)")],
             returns=Opq("table"), modular=True)

SPECS = {
    "get_scattering_factor": dict(
        module=M, qualname="ScatteringFactorProjectionIntegrals.get_scattering_factor",
        params=dict(self=SELF_SF, symbol=Const("Si"), gpts=Tup(Int, Int), sampling=Tup(Real, Real), device=Const("cpu")),
        requires=["'Si' not in self._scattering_factors or 'Si' not in self._scattering_factor_args or "
                  "self._scattering_factors['Si'] == ufo('array', 'calc', 'Si', self._scattering_factor_args['Si'][0], "
                  "self._scattering_factor_args['Si'][1], self._scattering_factor_args['Si'][2])"],
        ensures=[("value-for-current-grid", "result == ufo('array', 'calc', symbol, gpts, sampling, device)"),
                 ("cache-invariant", "self._scattering_factors['Si'] == ufo('array', 'calc', 'Si', self._scattering_factor_args['Si'][0], "
                                     "self._scattering_factor_args['Si'][1], self._scattering_factor_args['Si'][2])"),
                 ("cache-records-current-grid", "self._scattering_factor_args['Si'] == (gpts, sampling, device)")],
        cross_check=False,
    ),
    "get_integral_table": dict(
        module=M, qualname="QuadratureProjectionIntegrals.get_integral_table",
        params=dict(self=SELF_Q, symbol=Const("Si"), sampling=Tup(Real, Real)),
        requires=["self._inner_cutoff_factor > 0", "sampling[0] > 0 and sampling[1] > 0",
                  "'Si' not in self._tables or 'Si' not in self._table_inner_limits or "
                  "self._tables['Si'] == ufo('table', 'table', 'Si', self._table_inner_limits['Si'])"],
        ensures=[("value-for-current-sampling", "result == ufo('table', 'table', symbol, min(sampling) / self._inner_cutoff_factor)"),
                 ("cache-invariant", "self._tables['Si'] == ufo('table', 'table', 'Si', self._table_inner_limits['Si'])")],
        cross_check=False,
    ),
}


def run(tier="quick", seed=0):
    registry = {(M, CALC["qualname"]): CALC, (M, TABLE["qualname"]): TABLE}
    return run_property(PROPERTY, SPECS, tier, seed, registry=registry,
                        extra_assumptions=["ASSUMED callee contracts: _calculate_scattering_factor is a function of (symbol, gpts, sampling, device); "
                                           "_calculate_integral_table is a function of (symbol, min(sampling)/inner_cutoff_factor) (both NumPy kernels, bounded)",
                                           "one element symbol ('Si') stands for every key: the code treats keys uniformly"],
                        bounded_standins=["all build / re-grid / simulate histories on real potentials: bounded/c11.py; get_sliced_atoms cache: bounded"])


def native_replay(case):
    return _nr(PROPERTY, SPECS, case)
