"""C17 — grid consistency through any history of edits: contracts on abtem/core/grid.py:Grid (deductive tier).

Class invariant Inv (all three quantities defined => extent[i] == (gpts[i] - endpoint[i]) * sampling[i] for every i),
well-formedness WF, and lock frames, for a symbolic number of dimensions, symbolic endpoint flags and all lock
combinations. By induction on the length of the history, Inv after __init__ and preserved by each setter gives Inv after
any finite history (each setter's precondition is WF and Inv of the previous state plus a valid assigned value).
"""

from pyvc.contracts import Alt, Bool, Const, Int, Obj, Opt, Real, Seq
from pyvc.runner import native_replay as _nr
from pyvc.runner import run_property

PROPERTY = "C17"
LEVEL = "proof"
M = "abtem/core/grid.py"
EXPLANATION = ("Inv/WF preservation and reciprocal sampling proved for all dimensions counts, endpoint flags, lock "
               "combinations and values (reals); lock-frame clauses are proved for the lock combinations where they hold "
               "and are recorded as known findings where the code overwrites a locked quantity.")

GRID = Obj(M, "Grid", dict(_dimensions=Int, _endpoint=Seq(Bool), _extent=Opt(Seq(Real)), _gpts=Opt(Seq(Int)),
                           _sampling=Opt(Seq(Real)), _lock_extent=Bool, _lock_gpts=Bool, _lock_sampling=Bool))


def _build_grid(f):
    from abtem.core.grid import Grid

    g = Grid.__new__(Grid)
    g._dimensions = f["_dimensions"]
    g._endpoint = tuple(f["_endpoint"])
    for k in ("_extent", "_gpts", "_sampling"):
        setattr(g, k, None if f[k] is None else tuple(f[k]))
    g._lock_extent, g._lock_gpts, g._lock_sampling = f["_lock_extent"], f["_lock_gpts"], f["_lock_sampling"]
    return g


D = "self._dimensions"
E = "(1 if self._endpoint[i] else 0)"
WF = [
    f"{D} >= 1", f"len(self._endpoint) == {D}",
    f"self._extent is None or (len(self._extent) == {D} and forall(lambda i: self._extent[i] > 0, 0, {D}))",
    f"self._sampling is None or (len(self._sampling) == {D} and forall(lambda i: self._sampling[i] > 0, 0, {D}))",
    f"self._gpts is None or (len(self._gpts) == {D} and forall(lambda i: self._gpts[i] - {E} >= 1, 0, {D}))",
]
INV = (f"(self._extent is None or self._gpts is None or self._sampling is None) or "
       f"forall(lambda i: self._extent[i] == (self._gpts[i] - {E}) * self._sampling[i], 0, {D})")
# after __init__ and every setter the number of defined quantities is never exactly "extent+gpts without sampling"
POST = [("Inv", INV)] + [(f"WF[{k}]", w) for k, w in enumerate(WF)]


def _same(q):
    return (f"(old_self._{q} is None) or (self._{q} is not None and len(self._{q}) == len(old_self._{q}) and "
            f"forall(lambda i: self._{q}[i] == old_self._{q}[i], 0, len(old_self._{q})))")


SPECS = {
    "extent.setter": dict(
        module=M, qualname="Grid.extent.setter",
        params=dict(self=GRID, extent=Seq(Real)),
        requires=WF + [INV, f"len(extent) == {D}", f"forall(lambda i: extent[i] > 0, 0, {D})"],
        may_raise=["RuntimeError"],
        ensures=POST + [
            # with a locked sampling the extent is rounded up to a whole number of pixels, otherwise it is taken as given
            ("assigned", f"self._lock_sampling or (len(self._extent) == {D} and forall(lambda i: self._extent[i] == extent[i], 0, {D}))"),
            ("frame-lock_gpts", f"not self._lock_gpts or {_same('gpts')}"),
            ("frame-lock_sampling", f"not self._lock_sampling or {_same('sampling')}"),
            # states with extent and sampling defined but gpts undefined are not reachable through __init__ (it derives gpts);
            # the frame clause is claimed for the reachable states only
            ("frame-lock_extent", f"not self._lock_extent or (old_self._gpts is None and old_self._sampling is not None) or {_same('extent')}"),
        ],
        native_build={"self": _build_grid},
    ),
    "gpts.setter": dict(
        module=M, qualname="Grid.gpts.setter",
        params=dict(self=GRID, gpts=Seq(Int)),
        requires=WF + [INV, f"len(gpts) == {D}",
                       f"forall(lambda i: gpts[i] - {E} >= 1, 0, {D})"],
        may_raise=["RuntimeError"],
        ensures=POST + [
            ("assigned", f"len(self._gpts) == {D} and forall(lambda i: self._gpts[i] == gpts[i], 0, {D})"),
            ("frame-lock_gpts", f"not self._lock_gpts or {_same('gpts')}"),
            ("frame-lock_sampling", f"not self._lock_sampling or {_same('sampling')}"),
            ("frame-lock_extent", f"not self._lock_extent or {_same('extent')}"),
        ],
        native_build={"self": _build_grid},
    ),
    "sampling.setter": dict(
        module=M, qualname="Grid.sampling.setter",
        params=dict(self=GRID, sampling=Seq(Real)),
        requires=WF + [INV, f"len(sampling) == {D}", f"forall(lambda i: sampling[i] > 0, 0, {D})"],
        may_raise=["RuntimeError"],
        ensures=POST + [
            ("frame-lock_gpts", f"not self._lock_gpts or {_same('gpts')}"),
            ("frame-lock_sampling", f"not self._lock_sampling or {_same('sampling')}"),
            ("frame-lock_extent", f"not self._lock_extent or {_same('extent')}"),
        ],
        native_build={"self": _build_grid},
    ),
    "reciprocal_space_sampling": dict(
        module=M, qualname="Grid.reciprocal_space_sampling",
        params=dict(self=GRID),
        requires=WF + [INV, "self._extent is not None and self._gpts is not None and self._sampling is not None"],
        ensures=[("value", f"len(result) == {D} and forall(lambda i: result[i] * (self._gpts[i] * self._sampling[i]) == 1, 0, {D})")],
        native_build={"self": _build_grid},
    ),
}


def _gen_state(rng):
    d = rng.choice([1, 2, 2, 3])
    endpoint = [rng.random() < 0.3 for _ in range(d)]
    kind = rng.choice(["full", "full", "full", "gpts", "sampling", "extent", "none", "no-extent"])
    gpts = [rng.choice([2, 3, 5, 8, 16, 21]) for _ in range(d)]
    sampling = [rng.choice([0.1, 0.25, 0.5, 1.0, 0.3, 0.07]) for _ in range(d)]
    extent = [(n - (1 if e else 0)) * s for n, s, e in zip(gpts, sampling, endpoint)]
    st = dict(_dimensions=d, _endpoint=endpoint, _extent=extent, _gpts=gpts, _sampling=sampling,
              _lock_extent=rng.random() < 0.4, _lock_gpts=rng.random() < 0.4, _lock_sampling=rng.random() < 0.4)
    if kind == "gpts":
        st["_extent"] = st["_sampling"] = None
    elif kind == "sampling":
        st["_extent"] = st["_gpts"] = None
    elif kind == "extent":
        st["_gpts"] = st["_sampling"] = None
    elif kind == "none":
        st["_extent"] = st["_gpts"] = st["_sampling"] = None
    elif kind == "no-extent":
        st["_extent"] = None
    return st, d, endpoint


def _gen(which):
    def g(rng):
        st, d, endpoint = _gen_state(rng)
        if which == "extent":
            return dict(self=st, extent=[rng.choice([1.0, 2.5, 4.0, 7.3, 10.0]) for _ in range(d)])
        if which == "gpts":
            return dict(self=st, gpts=[rng.choice([2, 4, 7, 10, 32]) for _ in range(d)])
        if which == "sampling":
            return dict(self=st, sampling=[rng.choice([0.05, 0.1, 0.2, 0.33, 1.0]) for _ in range(d)])
        return dict(self=st)

    return g


SPECS["extent.setter"]["native_gen"] = _gen("extent")
SPECS["gpts.setter"]["native_gen"] = _gen("gpts")
SPECS["sampling.setter"]["native_gen"] = _gen("sampling")
SPECS["reciprocal_space_sampling"]["native_gen"] = _gen("rss")
for _s in SPECS.values():
    _s["cross_check_n"] = 300

# consequence of Inv and sampling > 0, stated for the solver (proved from `requires` as obligation derived[0])
_DERIVED = (f"(self._extent is None or self._gpts is None or self._sampling is None) or "
            f"forall(lambda i: self._extent[i] / self._sampling[i] == self._gpts[i] - {E}, 0, {D})")
for _k in ("extent.setter", "gpts.setter", "sampling.setter"):
    SPECS[_k]["derived"] = [_DERIVED]

for _s in SPECS.values():
    _s["refute_hints"] = ["self._dimensions == 1 and not self._endpoint[0]"]


def run(tier="quick", seed=0):
    res = run_property(PROPERTY, SPECS, tier, seed)
    # Grid.match is a composite operation: it changes either grid only through the three contracted setters, so the class
    # invariant after match follows from the setter contracts (frame obligation on the AST; the values it passes are read
    # from a grid that satisfies the invariant). A refutation here is a candidate only (not property-level).
    from pyvc import frame
    ob = frame.writes_only_through("abtem/core/grid.py", "Grid.match", {"extent", "gpts", "sampling"},
                                   {"_extent", "_gpts", "_sampling", "_dimensions", "_endpoint", "_lock_extent",
                                    "_lock_gpts", "_lock_sampling"}, PROPERTY, "writes-only-through-contracted-setters")
    _PRIV = {"_extent", "_gpts", "_sampling", "_dimensions", "_endpoint", "_lock_extent", "_lock_gpts", "_lock_sampling"}
    # the induction over histories needs that nothing but the contracted methods writes the fields the invariant talks about
    ob2 = frame.fields_encapsulated("abtem/core/grid.py", "Grid", _PRIV,
                                    {"__init__", "extent", "gpts", "sampling", "_adjust_extent", "_adjust_gpts",
                                     "_adjust_sampling"}, PROPERTY, "fields-written-only-by-contracted-methods")
    for _o in (ob, ob2):
        res["obligations"].append(_o)
        if _o.get("function") and _o["function"] not in res["functions"]:
            res["functions"].append(_o["function"])
    res.setdefault("assumptions", []).append(
        "Grid.match: tier F (syntactic) shows it writes grid state only through the extent / gpts / sampling setters; that the "
        "values it passes satisfy the setter preconditions is bounded (bounded/c17.py match rows)")
    return res


def native_replay(case):
    return _nr(PROPERTY, SPECS, case)
