"""C12 — detectors: FlexibleAnnularDetector bin count / width (deductive tier); intensity equalities are bounded."""

from pyvc.contracts import Const, Int, Obj, Real
from pyvc.runner import native_replay as _nr
from pyvc.runner import run_property

PROPERTY = "C12"
LEVEL = "exploration"
M = "abtem/detectors.py"
EXPLANATION = "number of radial bins equals (outer-inner)/step whenever that is whole, so bins have the stated width"

DET = Obj(M, "FlexibleAnnularDetector", dict(_inner=Real, _outer=Real, _step_size=Real))


def _build(f):
    from abtem.detectors import FlexibleAnnularDetector

    return FlexibleAnnularDetector(step_size=f["_step_size"], inner=f["_inner"], outer=f["_outer"])


SPECS = {
    "nbins_radial": dict(
        module=M, qualname="FlexibleAnnularDetector.nbins_radial",
        params=dict(self=DET), extra=dict(m=Int),
        requires=["self._step_size > 0", "self._inner >= 0", "m >= 1", "self._outer == self._inner + m * self._step_size"],
        ensures=[("whole-range", "result == m"),
                 ("stated-width", "result * self._step_size == self._outer - self._inner")],
        native_build={"self": _build},
        native_gen=lambda rng: (lambda st, inner, m: dict(self=dict(_inner=inner, _outer=inner + m * st, _step_size=st), m=m))(
            rng.choice([0.5, 1.0, 0.25, 0.3, 0.7, 2.0]), rng.choice([0.0, 1.0, 0.9, 10.0, 6.5]), rng.randint(1, 60)),
        cross_check_n=200,
    ),
    "nbins_radial/floor": dict(
        module=M, qualname="FlexibleAnnularDetector.nbins_radial",
        params=dict(self=DET),
        requires=["self._step_size > 0", "self._inner >= 0", "self._outer > self._inner"],
        ensures=[("covers-at-most-range", "result * self._step_size <= self._outer - self._inner + self._step_size / 1000000000"),
                 ("leaves-less-than-a-bin", "(result + 1) * self._step_size > self._outer - self._inner - self._step_size / 1000000000")],
        native_build={"self": _build}, cross_check=False,
    ),
}


def run(tier="quick", seed=0):
    return run_property(PROPERTY, SPECS, tier, seed)


def native_replay(case):
    return _nr(PROPERTY, SPECS, case)
