"""C25 — parametrizations are internally consistent: frame obligation — deriving the scaled parameters of one function never
modifies the stored table the other functions are derived from."""

from pyvc import frame

PROPERTY = "C25"
LEVEL = "exploration"
EXPLANATION = ("`assigns nothing` on the receiver of {Kirkland, Lobato, Peng}Parametrization.scaled_parameters (the stored table is "
               "copied before the in-place unit conversion; views such as np.asarray count as aliases); positivity, monotonicity and "
               "the Fourier / projection relations of the functions are decided by the bounded harness")

M = "abtem/parametrizations/__init__.py"


def run(tier="quick", seed=0):
    obs = [frame.param_not_mutated(M, f"{c}Parametrization.scaled_parameters", "self", "ndarray", PROPERTY,
                                   "assigns-nothing(self)", may_alias=True) for c in ("Kirkland", "Lobato", "Peng")]
    return dict(obligations=obs, functions=[o["function"] for o in obs if o.get("function")],
                trusted_base=["freshness rules of pyvc/frame.py: np.array(...) copies; asarray / reshape / ravel / ... may return views"],
                assumptions=["tier F is syntactic and conservative; a refutation is a candidate only, confirmed by the bounded harness"],
                selfcheck={}, errors=[], bounded_standins=["positive / decreasing, projected sf == 2-D FT of projected potential == projection of the 3-D potential: bounded/c25.py"])


def native_replay(case):
    return []
