"""C18 — chunk computations partition arrays exactly: contracts on abtem/core/chunks.py (deductive tier)."""

from pyvc.contracts import Alt, Const, Int, Opt, Seq, Tup
from pyvc.runner import native_replay as _nr
from pyvc.runner import run_property

PROPERTY = "C18"
LEVEL = "exploration"  # see EXPLANATION: the `_auto_chunks` element-limit clause is a bounded stand-in
M = "abtem/core/chunks.py"
EXPLANATION = (
    "Deductive: equal_sized_chunks, chunk_ranges, generate_chunks, assert_chunks_match_shape, fill_in_chunk_sizes "
    "(homogeneous int / tuple specs, any rank), validate_chunks on every path (callee results abstracted by their "
    "contracts; the final shape check carries the clause). Bounded stand-in only: `_auto_chunks` never exceeds "
    "max_elements (while loop over a product) — decided by the exhaustive bounded harness."
)

NONNEG_CHUNKS = "forall(lambda d: forall(lambda i: chunks[d][i] >= 0, 0, len(chunks[d])), 0, len(chunks))"

_ESC = None
SPECS = {
    "equal_sized_chunks": dict(
        module=M, qualname="equal_sized_chunks",
        params=dict(num_items=Int, num_chunks=Opt(Int), chunk_size=Opt(Int)),
        requires=["num_items >= 0", "num_chunks is None or num_chunks >= 1", "chunk_size is None or chunk_size >= 1"],
        ghost={"m": "num_chunks if num_chunks is not None else "
                    "(ceil_div(num_items, chunk_size) if chunk_size is not None else 0)"},
        raises={"RuntimeError": "num_items > 0 and ((num_chunks is not None and chunk_size is not None) or "
                                "(num_chunks is None and chunk_size is None) or m > num_items)"},
        ensures=[
            ("sum", "sum(result) == num_items"),
            ("count", "num_items == 0 or len(result) == m"),
            ("empty", "num_items != 0 or len(result) == 0"),
            ("positive", "forall(lambda i: result[i] >= 1, 0, len(result))"),
            ("balanced", "forall(lambda i: forall(lambda j: result[i] - result[j] <= 1, 0, len(result)), 0, len(result))"),
        ],
        sum_lemmas={"chunks": "lambda k: k * pp + (k - zp if k > zp else 0)"},
        returns=Seq(Int), modular=True,
    ),
    "chunk_ranges": dict(
        module=M, qualname="chunk_ranges",
        params=dict(chunks=Seq(Seq(Int))),
        requires=[NONNEG_CHUNKS],
        ensures=[
            ("dims", "len(result) == len(chunks)"),
            ("count", "forall(lambda d: len(result[d]) == len(chunks[d]), 0, len(chunks))"),
            ("width", "forall(lambda d: forall(lambda i: result[d][i][1] - result[d][i][0] == chunks[d][i], 0, len(chunks[d])), 0, len(chunks))"),
            ("starts-at-0", "forall(lambda d: len(chunks[d]) == 0 or result[d][0][0] == 0, 0, len(chunks))"),
            ("contiguous", "forall(lambda d: forall(lambda i: result[d][i][0] == result[d][i - 1][1], 1, len(chunks[d])), 0, len(chunks))"),
            ("covers", "forall(lambda d: len(chunks[d]) == 0 or result[d][len(chunks[d]) - 1][1] == sum(chunks[d]), 0, len(chunks))"),
        ],
    ),
    "generate_chunks": dict(
        module=M, qualname="generate_chunks",
        params=dict(num_items=Int, num_chunks=Opt(Int), chunks=Opt(Int), start=Int),
        requires=["num_items >= 0", "num_chunks is None or num_chunks >= 1", "chunks is None or chunks >= 1",
                  "(num_chunks is None) != (chunks is None)",
                  "num_items == 0 or num_chunks is None or num_chunks <= num_items"],
        ghost={"m": "num_chunks if num_chunks is not None else ceil_div(num_items, chunks)"},
        loops={0: dict(invariant=["start == _entry_start + psum(_iter, k)"])},
        ensures=[
            ("count", "len(result) == (m if num_items > 0 else 0)"),
            ("first", "len(result) == 0 or result[0][0] == start"),
            ("contiguous", "forall(lambda i: result[i][0] == result[i - 1][1], 1, len(result))"),
            ("nonempty", "forall(lambda i: result[i][1] - result[i][0] >= 1, 0, len(result))"),
            ("last", "len(result) == 0 or result[len(result) - 1][1] == start + num_items"),
        ],
    ),
    "assert_chunks_match_shape": dict(
        module=M, qualname="assert_chunks_match_shape",
        params=dict(shape=Seq(Int), chunks=Seq(Seq(Int))),
        requires=[],
        ghost={"n": "len(shape) if len(shape) <= len(chunks) else len(chunks)"},
        raises={"ValueError": "not forall(lambda d: sum(chunks[d]) == shape[d], 0, n)"},
        ensures=[("match", "forall(lambda d: sum(chunks[d]) == shape[d], 0, n)")],
    ),
    "fill_in_chunk_sizes/ints": dict(
        module=M, qualname="fill_in_chunk_sizes",
        params=dict(shape=Seq(Int), chunks=Seq(Int)),
        requires=["forall(lambda d: shape[d] >= 0, 0, len(shape))",
                  "forall(lambda d: chunks[d] == -1 or chunks[d] >= 1, 0, len(chunks))"],
        ghost={"n": "len(shape) if len(shape) <= len(chunks) else len(chunks)"},
        loops={0: dict(invariant=[])},
        ensures=[
            ("dims", "len(result) == n"),
            ("sum", "forall(lambda d: sum(result[d]) == shape[d], 0, n)"),
            ("limit", "forall(lambda d: chunks[d] == -1 or forall(lambda i: 1 <= result[d][i] <= chunks[d], 0, len(result[d])), 0, n)"),
        ],
    ),
    "fill_in_chunk_sizes/tuples": dict(
        module=M, qualname="fill_in_chunk_sizes",
        params=dict(shape=Seq(Int), chunks=Seq(Seq(Int))),
        requires=[],
        ghost={"n": "len(shape) if len(shape) <= len(chunks) else len(chunks)"},
        loops={0: dict(invariant=[])},
        ensures=[
            ("dims", "len(result) == n"),
            ("identity", "forall(lambda d: len(result[d]) == len(chunks[d]) and forall(lambda i: result[d][i] == chunks[d][i], 0, len(chunks[d])), 0, n)"),
        ],
    ),
}


SPECS["validate_chunks"] = dict(
    module=M, qualname="validate_chunks",
    params=dict(shape=Seq(Int), chunks=Alt(Seq(Seq(Int)), Const(-1), Int, Seq(Int)),
                max_elements=Alt(Const("auto"), Int), dtype=Const(None), device=Const("cpu")),
    requires=["forall(lambda d: shape[d] >= 1, 0, len(shape))",
              (lambda cfg: repr(cfg["chunks"]) == "Seq(Int)",
               "forall(lambda d: chunks[d] == -1 or chunks[d] >= 1, 0, len(chunks))")],
    may_raise=["ValueError", "RuntimeError", "NotImplementedError"],
    ensures=[
        ("sums-to-shape", "forall(lambda d: sum(result[d]) == shape[d], 0, len(shape) if len(shape) <= len(result) else len(result))"),
        ("dims", "len(result) == len(shape)"),
    ],
    returns=Seq(Seq(Int)), modular=True, cross_check=False,
)
# assumed (not verified deductively): `_auto_chunks` — while loop over a running product; its result is re-validated by
# validate_chunks, so only `dims` is taken from this contract. Checked by the bounded harness only.
AUTO = dict(module=M, qualname="_auto_chunks", params={}, requires=[], ensures=[("dims", "len(result) == len(shape)")],
            returns=Seq(Seq(Int)), modular=True, may_raise_nondet=["RuntimeError", "ValueError"])
_ESC = SPECS["equal_sized_chunks"]
_VC = SPECS["validate_chunks"]
_FILL = SPECS["fill_in_chunk_sizes/ints"]


def run(tier="quick", seed=0):
    registry = {(M, "equal_sized_chunks"): _ESC, (M, "validate_chunks"): _VC, (M, "_auto_chunks"): AUTO,
                (M, "fill_in_chunk_sizes"): _FILL}
    return run_property(PROPERTY, SPECS, tier, seed, registry=registry,
                        bounded_standins=["_auto_chunks element limit and validate_chunks end-to-end: bounded/c18.py (exhaustive small shapes)"])


def native_replay(case):
    return _nr(PROPERTY, SPECS, case)
