"""C32 — API calls do not modify caller-owned inputs: frame obligations (assigns \\nothing) on the real functions."""

from pyvc import frame

PROPERTY = "C32"
LEVEL = "exploration"
EXPLANATION = ("`assigns nothing` on the Atoms parameter of the public atoms functions and on the receiver metadata of the "
               "measurement methods, decided on the AST with a mutator table; run-time snapshots (bounded) confirm natively")

ATOMS_FUNCS = [("abtem/atoms.py", "orthogonalize_cell", "atoms"), ("abtem/atoms.py", "standardize_cell", "atoms"),
               ("abtem/atoms.py", "cut_cell", "atoms"), ("abtem/atoms.py", "pad_atoms", "atoms"),
               ("abtem/atoms.py", "rotate_atoms_to_plane", "atoms"), ("abtem/atoms.py", "best_orthogonal_cell", "cell"),
               ("abtem/inelastic/phonons.py", "FrozenPhonons.__init__", "atoms"),
               ("abtem/potentials/iam.py", "_FieldBuilderFromAtoms._prepare_atoms", "atoms")]
MEAS = ["real", "imag", "phase", "abs", "intensity"]


def run(tier="quick", seed=0):
    obs = []
    for rel, q, p in ATOMS_FUNCS:
        o = frame.param_not_mutated(rel, q, p, "ase.Atoms", PROPERTY, f"assigns-nothing({p})")
        if o["status"] == "undecided" and "not found" in str(o.get("reason")):
            continue
        obs.append(o)
    for m in MEAS + ["_apply_element_wise_func", "_apply_element_wise_func_with_label"]:
        o = frame.param_not_mutated("abtem/measurements.py", f"BaseMeasurements.{m}", "self", "dict", PROPERTY,
                                    "assigns-nothing(self)")
        if o["status"] == "undecided" and "not found" in str(o.get("reason")):
            continue
        obs.append(o)
    return dict(obligations=obs, functions=[o["function"] for o in obs if o.get("function")],
                trusted_base=["mutator table and freshness rules of pyvc/frame.py",
                              "ase.Atoms.copy() / ArrayObject._copy_kwargs return independent copies (ASSUMED)",
                              "callees not listed are assumed not to mutate (their own frame obligations are listed separately)"],
                assumptions=["tier F is syntactic and conservative; aliases through containers are not tracked"],
                selfcheck={}, errors=[], bounded_standins=["snapshot before/after every public call: bounded/c32.py"])


def native_replay(case):
    return []
