"""C22 — Cartesian <-> polar aberration conversions describe the same aberration (deductive tier).

For each harmonic (C_nm, phi_nm) supported by polar2cartesian / cartesian2polar the round trip q = c2p(p2c(p)) satisfies
    q.C * cos(m (ang - q.phi)) == p.C * cos(m (ang - p.phi))      for every evaluation angle `ang`,
proved over the reals with cos/sin/sqrt/arctan2 uninterpreted plus (a) the axiom instances listed in pyvc/interp.py
(cos^2+sin^2=1, r=sqrt(a^2+b^2), r cos(atan2(b,a)) = a, r sin(atan2(b,a)) = b) and (b) angle-addition instances named
in the sidecar (`assume_valid`, always instances of valid identities). The algebraic constant of C34b ((1+k^2)^2/(4(k^3-k)) == 1 for k = sqrt(3+sqrt 8)) is computed exactly by z3's
algebraic numbers; 4 arctan(1/k) == pi/2 is a constant lemma (assume_numeric), checked with mpmath at 50 digits on every run and listed as an assumption.
"""

from pyvc.contracts import Const, Dct, Real
from pyvc.runner import native_replay as _nr
from pyvc.runner import run_property

PROPERTY = "C22"
LEVEL = "proof"
M = "abtem/transfer.py"
EXPLANATION = "round trip preserves every harmonic of chi for all coefficient values and all angles (reals, UF trig)"

KEYS = ["C10", "C12", "phi12", "C21", "phi21", "C23", "phi23", "C30", "C32", "phi32", "C34", "phi34"]


def _spec(name, m, C, phi, assume_valid, assume_numeric=(), options=None):
    keys = [C] + ([phi] if phi else [])
    zero = {k: 0 for k in KEYS}
    fields = {k: (Real if k in keys else Const(0)) for k in KEYS}
    ens = f"q['{C}'] * np.cos({m} * (ang - q['{phi}'])) == polar['{C}'] * np.cos({m} * (ang - polar['{phi}']))" if phi else f"q['{C}'] == polar['{C}']"
    return dict(
        module=M, qualname="polar2cartesian",
        params=dict(polar=Dct(fields)), extra=dict(ang=Real), requires=[], options=dict(options or {}),
        post_ghost={"q": "cartesian2polar(result)"},
        assume_valid=list(assume_valid), assume_numeric=list(assume_numeric),
        ensures=[(f"roundtrip-{name}", ens)],
        native_gen=lambda rng: dict(polar={k: (rng.uniform(-50, 50) if k in keys else 0.0) for k in KEYS}, ang=rng.uniform(-7, 7)),
        cross_check_n=60,
        # the C34 harmonic (algebraic constants) is at the edge of what the solvers do: bounded budget, no retries
        **(dict(z3_timeout_ms=12000, no_retries=True) if name == "C34" else {}),
    )


def _adds(m, phi_p, theta):
    """angle-addition instances needed for one harmonic: cos(m ang - m phi) and cos(m ang + theta)."""
    return [f"trig_add({m} * ang, -{m} * polar['{phi_p}'])", f"trig_neg({m} * polar['{phi_p}'])",
            f"trig_add({m} * ang, {theta})", f"trig_neg({theta})", f"trig_add({m} * ang, -({theta}))"]


SPECS = {
    "C10": _spec("C10", 0, "C10", None, []),
    "C30": _spec("C30", 0, "C30", None, []),
    # theta = arctan2(b, a) of the Cartesian pair; q.phi = -theta/2  (m = 2),  theta (m = 1),  -theta/3 (m = 3), theta/4 (m = 4)
    "C12": _spec("C12", 2, "C12", "phi12", _adds(2, "phi12", "-2 * q['phi12']")),
    "C21": _spec("C21", 1, "C21", "phi21", _adds(1, "phi21", "q['phi21']")),
    "C23": _spec("C23", 3, "C23", "phi23", _adds(3, "phi23", "-3 * q['phi23']")),
    "C32": _spec("C32", 2, "C32", "phi32", _adds(2, "phi32", "-2 * q['phi32']") +
                 ["trig_add(np.pi / 2, -2 * polar['phi32'])", "trig_pi()"]),
    "C34": _spec("C34", 4, "C34", "phi34", _adds(4, "phi34", "4 * q['phi34']") +
                 ["trig_add(np.pi / 2, -4 * polar['phi34'])", "trig_pi()", "trig_neg(4 * polar['phi34'])",
                  "trig_cong(4 * np.arctan(1 / np.sqrt(3 + np.sqrt(8.0))) - 4 * polar['phi34'], np.pi / 2 - 4 * polar['phi34'])"],
                 assume_numeric=["4 * np.arctan(1 / np.sqrt(3 + np.sqrt(8.0))) == np.pi / 2"],
                 options=dict(algebraic_sqrt=True)),
}


def _check_constants():
    import mpmath as mp

    mp.mp.dps = 50
    k = mp.sqrt(3 + mp.sqrt(8))
    return abs(4 * mp.atan(1 / k) - mp.pi / 2) < mp.mpf(10) ** -45 and abs((1 + k ** 2) ** 2 / (k ** 3 - k) / 4 - 1) < mp.mpf(10) ** -45


def run(tier="quick", seed=0):
    r = run_property(PROPERTY, SPECS, tier, seed)
    ok = _check_constants()
    r["obligations"].append(dict(name="C22/constants/C34b-lemma-mpmath-50-digits", status="discharged" if ok else "refuted",
                                 backend="mpmath", time_s=0.0, property_level=False, model="constant lemma of C34b"))
    return r


def native_replay(case):
    return _nr(PROPERTY, SPECS, case)
