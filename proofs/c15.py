"""C15 — Fourier shifting algebra: pointwise contract on fft_shift_kernel (deductive); interpolation masks are bounded."""

from pyvc.contracts import Int, Real, RowArr, Tup
from pyvc.runner import native_replay as _nr
from pyvc.runner import run_property

PROPERTY = "C15"
LEVEL = "exploration"
EXPLANATION = "shift kernel is the DFT phase ramp, kernels compose additively, integer shifts give the roll factor (proved pointwise); interpolation identities bounded"

RAMP = "-2 * np.pi * (spatial_frequencies(shape, (1.0, 1.0))[0] * positions[..., 0] + spatial_frequencies(shape, (1.0, 1.0))[1] * positions[..., 1])"
SPECS = {
    "fft_shift_kernel": dict(
        module="abtem/core/fft.py", qualname="fft_shift_kernel",
        params=dict(positions=RowArr(Real, Real), shape=Tup(Int, Int)), extra=dict(q=RowArr(Real, Real)),
        options=dict(pointwise=True),
        requires=["shape[0] >= 1 and shape[1] >= 1"],
        ensures=[("phase-ramp", f"same_phase(result, complex_exponential({RAMP}))"),
                 ("unit-modulus", "abs(result) == 1"),
                 ("compose", "same_phase(result * fft_shift_kernel(q, shape), fft_shift_kernel(row(positions[..., 0] + q[..., 0], positions[..., 1] + q[..., 1]), shape))")],
        cross_check=False,
    ),
    # the index sets that Fourier-space up/down sampling copies (fft_crop / fft_interpolate): the smaller grid is used in
    # full; of the larger grid exactly the indices whose signed frequency exists on the smaller grid, in the same order
    "_fft_interpolation_masks_1d": dict(
        module="abtem/core/fft.py", qualname="_fft_interpolation_masks_1d", params=dict(n1=Int, n2=Int),
        requires=["n1 >= 1 and n2 >= 1", "ns >= 1 and nb > ns"],
        ensures=[
            ("lengths", "len(result[0]) == n1 and len(result[1]) == n2"),
            ("smaller-grid-in-full", "forall(lambda j: result[0][j] == True, 0, n1) if n2 > n1 else forall(lambda j: result[1][j] == True, 0, n2)"),
            # signed frequency of index j on a grid of n points: j below ceil(n/2), j - n from there on (numpy.fft.fftfreq)
            ("larger-grid-selects-common-frequencies",
             "forall(lambda j: result[1][j] == (-(n1 // 2) <= (j if j < (n2 + 1) // 2 else j - n2) and (j if j < (n2 + 1) // 2 else j - n2) < (n1 + 1) // 2), 0, n2) "
             "if n2 > n1 else "
             "forall(lambda j: result[0][j] == (-(n2 // 2) <= (j if j < (n1 + 1) // 2 else j - n1) and (j if j < (n1 + 1) // 2 else j - n1) < (n2 + 1) // 2), 0, n1)"),
            # the selected indices are the two blocks [0, ceil(m/2)) and [n - floor(m/2), n) (m the smaller size): m in all,
            # and the k-th selected index carries the signed frequency of index k of the smaller grid
            ("larger-grid-two-blocks",
             "forall(lambda j: result[1][j] == (j < (n1 + 1) // 2 or j >= n2 - n1 // 2), 0, n2) if n2 > n1 else "
             "forall(lambda j: result[0][j] == (j < (n2 + 1) // 2 or j >= n1 - n2 // 2), 0, n1)"),
        ],
        # order lemma (pure arithmetic over two ghost sizes ns <= nb): the k-th selected index of the larger grid, k = j for
        # the first block and k = j - (nb - ns) for the second, carries the signed frequency of index k of the smaller grid
        derived=["forall(lambda j: implies(j >= nb - ns // 2, "
                 "((j - (nb - ns)) - ns if (j - (nb - ns)) >= (ns + 1) // 2 else (j - (nb - ns))) == (j - nb if j >= (nb + 1) // 2 else j)), 0, nb)",
                 "forall(lambda j: implies(j < (ns + 1) // 2, j < (nb + 1) // 2), 0, nb)"],
        extra=dict(ns=Int, nb=Int),
        refute_hints=["n1 == 3 and n2 == 5", "n1 == 4 and n2 == 7", "n1 == 6 and n2 == 4"],
        cross_check=True,
    ),
}


def run(tier="quick", seed=0):
    return run_property(PROPERTY, SPECS, tier, seed,
                        extra_assumptions=["A-POINTWISE; DFT shift theorem assumed"],
                        bounded_standins=["up/down interpolation identity, mean / intensity normalisation, integer shift == roll, Waves.downsample: bounded/c15.py"])


def native_replay(case):
    return _nr(PROPERTY, SPECS, case)
