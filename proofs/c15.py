"""C15 — Fourier shifting algebra: pointwise contract on fft_shift_kernel (deductive); interpolation masks are bounded."""

from pyvc.contracts import Int, Real, RowArr, Tup
from pyvc.runner import native_replay as _nr
from pyvc.runner import run_property

PROPERTY = "C15"
LEVEL = "exploration"
EXPLANATION = "shift kernel is the DFT phase ramp, kernels compose additively, integer shifts give the roll factor (proved pointwise); interpolation identities bounded"

RAMP = "-2 * np.pi * (spatial_frequencies(shape, (1.0, 1.0))[0] * positions[..., 0] + spatial_frequencies(shape, (1.0, 1.0))[1] * positions[..., 1])"
SPECS = {
    "fft_shift_kernel": dict(
        module="abtem/core/fft.py", qualname="fft_shift_kernel",
        params=dict(positions=RowArr(Real, Real), shape=Tup(Int, Int)), extra=dict(q=RowArr(Real, Real)),
        options=dict(pointwise=True),
        requires=["shape[0] >= 1 and shape[1] >= 1"],
        ensures=[("phase-ramp", f"same_phase(result, complex_exponential({RAMP}))"),
                 ("unit-modulus", "abs(result) == 1"),
                 ("compose", "same_phase(result * fft_shift_kernel(q, shape), fft_shift_kernel(row(positions[..., 0] + q[..., 0], positions[..., 1] + q[..., 1]), shape))")],
        cross_check=False,
    ),
}


def run(tier="quick", seed=0):
    return run_property(PROPERTY, SPECS, tier, seed,
                        extra_assumptions=["A-POINTWISE; DFT shift theorem assumed"],
                        bounded_standins=["up/down interpolation identity, mean / intensity normalisation, integer shift == roll, Waves.downsample: bounded/c15.py"])


def native_replay(case):
    return _nr(PROPERTY, SPECS, case)
