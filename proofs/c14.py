"""C14 — diffraction-pattern geometry: parity helpers of abtem/waves.py (deductive tier); the array clauses are bounded."""

from pyvc.contracts import Alt, Bool, Const, Int, Str, Tup
from pyvc.runner import native_replay as _nr
from pyvc.runner import run_property

PROPERTY = "C14"
LEVEL = "exploration"
M = "abtem/waves.py"
EXPLANATION = "requested parity and minimal growth of angle-limited grids proved for all sizes; crops/shifts/blocking are bounded"

SPECS = {
    "_ensure_parity": dict(
        module=M, qualname="_ensure_parity",
        params=dict(n=Int, even=Bool, v=Alt(Const(1), Const(-1))), requires=["n >= 1"],
        ensures=[("parity", "(result % 2 == 0) == even"),
                 ("minimal", "result == n or result == n + v"),
                 ("unchanged-if-ok", "((n % 2 == 0) != even) or result == n")],
    ),
    "_ensure_parity_of_gpts": dict(
        module=M, qualname="_ensure_parity_of_gpts",
        params=dict(new_gpts=Tup(Int, Int), old_gpts=Tup(Int, Int), parity=Str()),
        requires=["new_gpts[0] >= 1 and new_gpts[1] >= 1 and old_gpts[0] >= 1 and old_gpts[1] >= 1"],
        raises={"ValueError": "parity != 'same' and parity != 'odd' and parity != 'even'"},
        ensures=[
            ("same", "parity != 'same' or (result[0] % 2 == old_gpts[0] % 2 and result[1] % 2 == old_gpts[1] % 2)"),
            ("odd", "parity != 'odd' or (result[0] % 2 == 1 and result[1] % 2 == 1)"),
            ("even", "parity != 'even' or (result[0] % 2 == 0 and result[1] % 2 == 0)"),
            ("not-smaller", "new_gpts[0] <= result[0] <= new_gpts[0] + 1 and new_gpts[1] <= result[1] <= new_gpts[1] + 1"),
        ],
        native_gen=lambda rng: dict(new_gpts=[rng.randint(1, 40), rng.randint(1, 40)], old_gpts=[rng.randint(1, 40), rng.randint(1, 40)],
                                    parity=rng.choice(["same", "odd", "even", "none", "x"])),
    ),
}


def run(tier="quick", seed=0):
    return run_property(PROPERTY, SPECS, tier, seed)


def native_replay(case):
    return _nr(PROPERTY, SPECS, case)
