"""C14 — diffraction-pattern geometry: parity helpers of abtem/waves.py (deductive tier); the array clauses are bounded."""

from pyvc.contracts import Alt, Bool, Const, Int, Obj, Opq, Real, Str, Tup
from pyvc.values import ExternalFn
from pyvc.runner import native_replay as _nr
from pyvc.runner import run_property

PROPERTY = "C14"
LEVEL = "exploration"
M = "abtem/waves.py"
EXPLANATION = "requested parity and minimal growth of angle-limited grids proved for all sizes; crops/shifts/blocking are bounded"

SPECS = {
    "_ensure_parity": dict(
        module=M, qualname="_ensure_parity",
        params=dict(n=Int, even=Bool, v=Alt(Const(1), Const(-1))), requires=["n >= 1"],
        ensures=[("parity", "(result % 2 == 0) == even"),
                 ("minimal", "result == n or result == n + v"),
                 ("unchanged-if-ok", "((n % 2 == 0) != even) or result == n")],
    ),
    "_ensure_parity_of_gpts": dict(
        module=M, qualname="_ensure_parity_of_gpts",
        params=dict(new_gpts=Tup(Int, Int), old_gpts=Tup(Int, Int), parity=Str()),
        requires=["new_gpts[0] >= 1 and new_gpts[1] >= 1 and old_gpts[0] >= 1 and old_gpts[1] >= 1"],
        raises={"ValueError": "parity != 'same' and parity != 'odd' and parity != 'even'"},
        ensures=[
            ("same", "parity != 'same' or (result[0] % 2 == old_gpts[0] % 2 and result[1] % 2 == old_gpts[1] % 2)"),
            ("odd", "parity != 'odd' or (result[0] % 2 == 1 and result[1] % 2 == 1)"),
            ("even", "parity != 'even' or (result[0] % 2 == 0 and result[1] % 2 == 0)"),
            ("not-smaller", "new_gpts[0] <= result[0] <= new_gpts[0] + 1 and new_gpts[1] <= result[1] <= new_gpts[1] + 1"),
        ],
        native_gen=lambda rng: dict(new_gpts=[rng.randint(1, 40), rng.randint(1, 40)], old_gpts=[rng.randint(1, 40), rng.randint(1, 40)],
                                    parity=rng.choice(["same", "odd", "even", "none", "x"])),
    ),
}


# ---- geometry of a diffraction pattern: limits / offset / angular limits / angular coordinates ------------------------------
MM = "abtem/measurements.py"
ME = "abtem/core/energy.py"
DP = Obj(MM, "DiffractionPatterns", {
    "shape": Tup(Int, Int), "_sampling": Tup(Real, Real), "_fftshift": Const(True), "array": Opq("ndarray"),
    "_get_from_metadata": Const(ExternalFn("metadata-stub", lambda I, a, k: 1)),  # the energy entry; only its wavelength matters
})
_E0 = 80e3  # energy used for native replays / the CPython cross-check (the contract is independent of its value)


def _build_dp(f):
    import abtem
    import numpy as np

    return abtem.DiffractionPatterns(np.zeros(tuple(int(n) for n in f["shape"]), dtype=np.float32),
                                     sampling=tuple(float(x) for x in f["_sampling"]), fftshift=bool(f.get("_fftshift", True)),
                                     metadata={"energy": _E0})


def _native_ufr(name, *args):
    from abtem.core.energy import energy2wavelength
    from pyvc.native import R

    return R(float(energy2wavelength(_E0)))


def _gen_dp(rng, shifted=True):
    return dict(self=dict(shape=[rng.randint(1, 12), rng.randint(1, 12)], _sampling=[rng.uniform(0.01, 0.3), rng.uniform(0.01, 0.3)],
                          _fftshift=shifted, array=None, _get_from_metadata=None))


# assumed callee contract (the function itself is under contract in C24): the wavelength of the pattern's energy is a positive number
WAVELENGTH = dict(module=ME, qualname="energy2wavelength", params={}, requires=[],
                  ensures=[("positive", "result > 0 and result == ufr('wavelength')")], returns=Real, modular=True)
_REQ = ["self.shape[0] >= 1 and self.shape[1] >= 1", "self._sampling[0] > 0 and self._sampling[1] > 0"]
_LAM = "ufr('wavelength')"
GEOMETRY = {
    "DiffractionPatterns.limits": dict(
        module=MM, qualname="DiffractionPatterns.limits", params=dict(self=DP), requires=_REQ,
        ensures=[
            # zero frequency sits at index n // 2 of the shifted pattern: lowest frequency -(n // 2) s, highest ((n - 1) // 2) s
            ("lowest-axis0", "result[0][0] == -(self.shape[0] // 2) * self._sampling[0]"), ("lowest-axis1", "result[1][0] == -(self.shape[1] // 2) * self._sampling[1]"),
            ("highest-axis0", "result[0][1] == ((self.shape[0] - 1) // 2) * self._sampling[0]"), ("highest-axis1", "result[1][1] == ((self.shape[1] - 1) // 2) * self._sampling[1]"),
            ("span-is-n-minus-1-pixels-axis0", "result[0][1] - result[0][0] == (self.shape[0] - 1) * self._sampling[0]"), ("span-is-n-minus-1-pixels-axis1", "result[1][1] - result[1][0] == (self.shape[1] - 1) * self._sampling[1]"),
        ],
        cross_check=True,
    ),
    "DiffractionPatterns.offset": dict(
        module=MM, qualname="DiffractionPatterns.offset", params=dict(self=DP), requires=_REQ,
        ensures=[("offset-is-lowest-frequency-axis0", "result[0] == -(self.shape[0] // 2) * self._sampling[0]"), ("offset-is-lowest-frequency-axis1", "result[1] == -(self.shape[1] // 2) * self._sampling[1]")],
        cross_check=True,
    ),
    "DiffractionPatterns.angular_limits": dict(
        module=MM, qualname="DiffractionPatterns.angular_limits", params=dict(self=DP), requires=_REQ,
        ensures=[
            ("lowest-axis0", f"result[0][0] == -(self.shape[0] // 2) * self._sampling[0] * {_LAM} * 1e3"), ("lowest-axis1", f"result[1][0] == -(self.shape[1] // 2) * self._sampling[1] * {_LAM} * 1e3"),
            ("highest-axis0", f"result[0][1] == ((self.shape[0] - 1) // 2) * self._sampling[0] * {_LAM} * 1e3"), ("highest-axis1", f"result[1][1] == ((self.shape[1] - 1) // 2) * self._sampling[1] * {_LAM} * 1e3"),
        ],
        cross_check=True,
    ),
    "DiffractionPatterns.angular_coordinates": dict(
        module=MM, qualname="DiffractionPatterns.angular_coordinates", params=dict(self=DP), requires=_REQ,
        # cancellation instances (pure real arithmetic, proved valid on their own before use): the linspace step x times
        # m = n - 1 equals the span K m, hence x == K
        pure_lemmas=[f"implies(self.shape[{a}] - 1 >= 1 and (result[{a}][1] - result[{a}][0]) * (self.shape[{a}] - 1) == "
                     f"(self._sampling[{a}] * {_LAM} * 1e3) * (self.shape[{a}] - 1), "
                     f"result[{a}][1] - result[{a}][0] == self._sampling[{a}] * {_LAM} * 1e3)" for a in (0, 1)],
        ensures=[
            ("count", "len(result[0]) == self.shape[0] and len(result[1]) == self.shape[1]"),
            # pixel j of the shifted pattern is the scattering angle (j - n // 2) x angular sampling, zero at j == n // 2
        ] + [(f"pixel-angle-axis{a}", f"forall(lambda j: result[{a}][j] == (j - self.shape[{a}] // 2) * self._sampling[{a}] * {_LAM} * 1e3, "
                                        f"0, self.shape[{a}])") for a in (0, 1)],
        cross_check=True,
    ),
    "DiffractionPatterns.max_angles": dict(
        module=MM, qualname="DiffractionPatterns.max_angles", params=dict(self=DP), requires=_REQ,
        ensures=[("half-width-axis0", f"result[0] == (self.shape[0] // 2) * self._sampling[0] * {_LAM} * 1e3"), ("half-width-axis1", f"result[1] == (self.shape[1] // 2) * self._sampling[1] * {_LAM} * 1e3")],
        cross_check=False,
    ),
}
# unshifted patterns (zero frequency at index 0): pixel j carries the signed frequency of numpy.fft.fftfreq — j below
# ceil(n / 2), j - n from there on — times the angular sampling
DPU = Obj(MM, "DiffractionPatterns", {**DP.fields, "_fftshift": Const(False)})
GEOMETRY["DiffractionPatterns.angular_coordinates/unshifted"] = dict(
    module=MM, qualname="DiffractionPatterns.angular_coordinates", params=dict(self=DPU), requires=_REQ,
    pure_lemmas=GEOMETRY["DiffractionPatterns.angular_coordinates"]["pure_lemmas"] if False else [],
    ensures=[("count", "len(result[0]) == self.shape[0] and len(result[1]) == self.shape[1]")] + [
        (f"pixel-angle-unshifted-axis{a}",
         f"forall(lambda j: result[{a}][j] == (j if j < (self.shape[{a}] + 1) // 2 else j - self.shape[{a}]) * self._sampling[{a}] * {_LAM} * 1e3, "
         f"0, self.shape[{a}])") for a in (0, 1)],
)
for _s in GEOMETRY.values():
    _s.update(native_build={"self": _build_dp}, native_helpers={"ufr": _native_ufr}, native_gen=_gen_dp, cross_check=True)
# angular_coordinates returns float32 arrays: the native comparison allows float32 rounding of values up to ~1e3 mrad
GEOMETRY["DiffractionPatterns.angular_coordinates"]["native_tol"] = dict(rel=2e-6, abs=1e-4)
GEOMETRY["DiffractionPatterns.angular_coordinates/unshifted"]["native_tol"] = dict(rel=2e-6, abs=1e-4)
GEOMETRY["DiffractionPatterns.angular_coordinates/unshifted"]["native_gen"] = lambda rng: _gen_dp(rng, shifted=False)
SPECS.update(GEOMETRY)


def run(tier="quick", seed=0):
    return run_property(PROPERTY, SPECS, tier, seed, registry={(ME, "energy2wavelength"): WAVELENGTH},
                        bounded_standins=["centred crops, fftshift relation, block_direct, angle-limited grids on real waves: bounded/c14.py"])


def native_replay(case):
    return _nr(PROPERTY, SPECS, case)
