"""C16 — source-size filtering: contract on the *arguments* _gaussian_source_size passes to the Gaussian filter (deductive).

The filter kernel (scipy.ndimage / dask map_overlap) is a black box; what is proved is that it is applied with
sigma = sigma_i / scan_sampling_i on the i-th scan axis and 0 on every other axis, wrap mode, and — lazily — with a
periodic boundary and a depth of at least ... so that filtering commutes with integrating the (unfiltered) base axes."""

from pyvc.contracts import Alt, Bool, Const, Int, Obj, Opq, Real, Tup
from pyvc.runner import native_replay as _nr
from pyvc.runner import run_property
from pyvc.values import ExternalFn

PROPERTY = "C16"
LEVEL = "exploration"
M = "abtem/measurements.py"
EXPLANATION = "filter arguments (per-axis sigma in pixels, wrap / periodic boundary) proved for all sigmas and samplings; conservation clauses bounded"


def _stub_ctor(I, args, kw):
    return args[0]


MEAS = Obj(M, "DiffractionPatterns", {
    "array": Opq("ndarray"), "_array": Opq("ndarray"), "ensemble_shape": Tup(Int, Int, Int), "is_lazy": Bool,
    "__class__": Const(ExternalFn("measurement-constructor-stub", _stub_ctor)),
    "_copy_kwargs": Const(ExternalFn("copy-kwargs-stub", lambda I, a, k: {})),
    "_ghost_scan_sampling": Tup(Real, Real),
})


def _scan_axes(I, args, kw):
    I.ctx.trusted.add("ASSUMED: the measurement has one leading ensemble axis followed by two scan axes (_scan_axes == (1, 2))")
    return (1, 2)


def _scan_sampling(I, args, kw):
    return args[0].fields["_ghost_scan_sampling"]


from pyvc import externals as _ext  # noqa: E402

_ext._EXTERNALS["abtem.measurements._scan_axes"] = ExternalFn("_scan_axes", _scan_axes)
_ext._EXTERNALS["abtem.measurements._scan_sampling"] = ExternalFn("_scan_sampling", _scan_sampling)

SIG = "(sigma[0] / measurements._ghost_scan_sampling[0], sigma[1] / measurements._ghost_scan_sampling[1])"
SPECS = {
    "_gaussian_source_size": dict(
        module=M, qualname="_gaussian_source_size",
        params=dict(measurements=MEAS, sigma=Tup(Real, Real)),
        requires=["sigma[0] >= 0 and sigma[1] >= 0", "measurements._ghost_scan_sampling[0] > 0 and measurements._ghost_scan_sampling[1] > 0",
                  "measurements.ensemble_shape[0] >= 1 and measurements.ensemble_shape[1] >= 1 and measurements.ensemble_shape[2] >= 1"],
        ensures=[
            ("eager-sigma-per-axis", f"measurements.is_lazy or observed(0, 'gaussian_filter')['sigma'] == (0.0, {SIG}[0], {SIG}[1], 0.0, 0.0)"),
            ("eager-wraps", "measurements.is_lazy or observed(0, 'gaussian_filter')['mode'] == 'wrap'"),
            ("lazy-sigma-per-axis", f"not measurements.is_lazy or observed(0, 'map_overlap')['sigma'] == (0.0, {SIG}[0], {SIG}[1], 0.0, 0.0)"),
            ("lazy-periodic", "not measurements.is_lazy or (observed(0, 'map_overlap')['boundary'] == 'periodic' and observed(0, 'map_overlap')['mode'] == 'wrap')"),
            ("lazy-depth-only-on-scan-axes", "not measurements.is_lazy or (observed(0, 'map_overlap')['depth'][0] == 0 and "
                                             "observed(0, 'map_overlap')['depth'][3] == 0 and observed(0, 'map_overlap')['depth'][4] == 0)"),
            ("lazy-depth-covers-4-sigma", f"not measurements.is_lazy or forall(lambda i: observed(0, 'map_overlap')['depth'][i + 1] >= measurements.ensemble_shape[i + 1] or "
                                          f"observed(0, 'map_overlap')['depth'][i + 1] >= 4 * {SIG}[i], 0, 2)"),
        ],
        cross_check=False,
    ),
    # resampling bookkeeping: the new grid covers exactly the old extent (gpts * sampling is conserved per axis), the new
    # sampling is never coarser than the target and the point count is the smallest one achieving that
    "adjusted_gpts": dict(
        module="abtem/core/grid.py", qualname="adjusted_gpts",
        params=dict(target_sampling=Tup(Real, Real), old_sampling=Tup(Real, Real), old_gpts=Tup(Int, Int)),
        requires=["target_sampling[0] > 0 and target_sampling[1] > 0", "old_sampling[0] > 0 and old_sampling[1] > 0",
                  "old_gpts[0] >= 1 and old_gpts[1] >= 1"],
        ensures=[("extent-conserved", "forall(lambda i: result[0][i] * result[1][i] == old_sampling[i] * old_gpts[i], 0, 2)"),
                 ("at-least-one-point", "result[1][0] >= 1 and result[1][1] >= 1"),
                 ("not-coarser-than-target", "forall(lambda i: result[0][i] <= target_sampling[i], 0, 2)"),
                 ("smallest-such-count", "forall(lambda i: (result[1][i] - 1) * target_sampling[i] < old_sampling[i] * old_gpts[i], 0, 2)")],
        cross_check=True,
    ),
    "_diffraction_pattern_resampling_gpts/gpts": dict(
        module=M, qualname="_diffraction_pattern_resampling_gpts",
        params=dict(old_sampling=Tup(Real, Real), old_gpts=Tup(Int, Int), sampling=Const(None), gpts=Tup(Int, Int), adjust_sampling=Bool),
        requires=["old_sampling[0] > 0 and old_sampling[1] > 0", "old_gpts[0] >= 1 and old_gpts[1] >= 1", "gpts[0] >= 1 and gpts[1] >= 1"],
        ensures=[("gpts-as-given", "result[0][0] == gpts[0] and result[0][1] == gpts[1]"),
                 ("extent-conserved", "forall(lambda i: result[1][i] * result[0][i] == old_sampling[i] * old_gpts[i], 0, 2)")],
        cross_check=True,
    ),
    "_diffraction_pattern_resampling_gpts/sampling": dict(
        module=M, qualname="_diffraction_pattern_resampling_gpts",
        params=dict(old_sampling=Tup(Real, Real), old_gpts=Tup(Int, Int), sampling=Alt(Const("uniform"), Real, Tup(Real, Real)),
                    gpts=Const(None), adjust_sampling=Const(True)),
        requires=["old_sampling[0] > 0 and old_sampling[1] > 0", "old_gpts[0] >= 1 and old_gpts[1] >= 1",
                  "isinstance(sampling, str) or (sampling > 0 if isinstance(sampling, float) else (sampling[0] > 0 and sampling[1] > 0))"],
        ensures=[("extent-conserved", "forall(lambda i: result[1][i] * result[0][i] == old_sampling[i] * old_gpts[i], 0, 2)"),
                 ("uniform-means-coarsest-old-sampling-as-target",
                  "implies(isinstance(sampling, str), forall(lambda i: result[1][i] <= max(old_sampling[0], old_sampling[1]) and "
                  "(result[0][i] - 1) * max(old_sampling[0], old_sampling[1]) < old_sampling[i] * old_gpts[i], 0, 2))")],
        cross_check=False,
    ),
}


def run(tier="quick", seed=0):
    return run_property(PROPERTY, SPECS, tier, seed,
                        extra_assumptions=["gaussian_filter / map_overlap are black boxes; layout: one ensemble axis + two scan axes + two base axes"],
                        bounded_standins=["DiffractionPatterns.interpolate total intensity, Images.interpolate, filter-then-integrate == integrate-then-filter: bounded/c16.py"])


def native_replay(case):
    return _nr(PROPERTY, SPECS, case)
