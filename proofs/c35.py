"""C35 — axis metadata behaves like its value sequence: LinearAxis.coordinates (deductive); the rest is bounded."""

from pyvc.contracts import Int, Obj, Real
from pyvc.runner import native_replay as _nr
from pyvc.runner import run_property

PROPERTY = "C35"
LEVEL = "exploration"
MA = "abtem/core/axes.py"
EXPLANATION = "linear axis coordinates are offset + i*sampling (proved); dict round trips, ordinal slicing and concatenation are bounded"

SPECS = {
    "LinearAxis.coordinates": dict(
        module=MA, qualname="LinearAxis.coordinates",
        params=dict(self=Obj(MA, "LinearAxis", dict(sampling=Real, offset=Real)), n=Int), requires=["n >= 1"],
        ensures=[("count", "len(result) == n"), ("affine", "forall(lambda i: result[i] == self.offset + i * self.sampling, 0, n)")],
        cross_check=False,
    ),
}


def run(tier="quick", seed=0):
    return run_property(PROPERTY, SPECS, tier, seed,
                        bounded_standins=["axis_to_dict/axis_from_dict round trip, OrdinalAxis.__getitem__ / concatenate: bounded/c35.py"])


def native_replay(case):
    return _nr(PROPERTY, SPECS, case)
