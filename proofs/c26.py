"""C26 — Bloch-wave intensity conservation: deductive tier for the excitation errors on the diagonal of the structure matrix."""

from pyvc.contracts import Bool, Real, RowArr
from pyvc.runner import native_replay as _nr
from pyvc.runner import run_property

PROPERTY = "C26"
LEVEL = "exploration"
MB = "abtem/bloch/utils.py"
ME = "abtem/core/energy.py"
EXPLANATION = ("excitation_errors(g, energy) is the real number (k0^2 - |k0 z + g|^2) / (2 k0), k0 = 1 / wavelength, for every reciprocal "
               "vector (the paraxial variant drops g_z^2): discharged pointwise; that the structure matrix is Hermitian, the intensities "
               "sum to one, zero thickness gives the direct beam, lazy == eager and expm == eigen-decomposition are bounded")

WAVELENGTH = dict(module=ME, qualname="energy2wavelength", params={}, requires=[],
                  ensures=[("positive", "result > 0 and result == ufr('wavelength', energy)")], returns=Real, modular=True)
K0 = "(1 / ufr('wavelength', energy))"
G2 = "(g[..., 0] * g[..., 0] + g[..., 1] * g[..., 1] + g[..., 2] * g[..., 2])"

SPECS = {
    "excitation_errors": dict(
        module=MB, qualname="excitation_errors", params=dict(g=RowArr(Real, Real, Real), energy=Real, use_wave_eq=Bool),
        options=dict(pointwise=True), requires=["energy > 0"],
        ensures=[
            ("distance-to-the-ewald-sphere",
             f"use_wave_eq or result * (2 * {K0}) == {K0} * {K0} - (g[..., 0] * g[..., 0] + g[..., 1] * g[..., 1] + ({K0} + g[..., 2]) * ({K0} + g[..., 2]))"),
            ("paraxial-variant", f"not use_wave_eq or result == -g[..., 2] - ufr('wavelength', energy) * (g[..., 0] * g[..., 0] + g[..., 1] * g[..., 1]) / 2"),
            ("zero-for-the-direct-beam", f"not ({G2} == 0) or result == 0"),
        ],
        cross_check=False,
    ),
}


def run(tier="quick", seed=0):
    return run_property(PROPERTY, SPECS, tier, seed, registry={(ME, "energy2wavelength"): WAVELENGTH},
                        extra_assumptions=["A-POINTWISE: the (N, 3) array of reciprocal vectors is seen at an arbitrary row"],
                        bounded_standins=["sum of intensities == 1, zero thickness, lazy == eager, expm == eigen path: bounded/c26.py"])


def native_replay(case):
    return _nr(PROPERTY, SPECS, case)
