"""C40 — centre of mass on analytic inputs: deductive tier for the coordinate grids the weighted mean is taken over."""

from pyvc.runner import native_replay as _nr
from pyvc.runner import run_property

from proofs import c14 as _g

PROPERTY = "C40"
LEVEL = "exploration"
EXPLANATION = ("the scattering-angle grid of a (shifted) diffraction pattern is (j - n // 2) x angular sampling on every axis and the "
               "frequency limits / offset are -(n // 2) s .. ((n - 1) // 2) s: discharged for all sizes, parities and samplings; the "
               "weighted mean itself, unshifted patterns and integrate_gradient are bounded")

SPECS = {k: dict(v) for k, v in _g.GEOMETRY.items() if k.split(".")[1] in ("limits", "angular_limits", "angular_coordinates", "offset")}


def run(tier="quick", seed=0):
    return run_property(PROPERTY, SPECS, tier, seed, registry={(_g.ME, "energy2wavelength"): _g.WAVELENGTH},
                        bounded_standins=["center_of_mass == intensity-weighted mean frequency / angle (single bright pixel, units), "
                                          "integrate_gradient inverse of the periodic gradient: bounded/c40.py"])


def native_replay(case):
    return _nr(PROPERTY, SPECS, case)
