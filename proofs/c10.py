"""C10 — build consistency: frame obligation on the eager ensemble loop of _FieldBuilder.build (tier F)."""

from pyvc import frame

PROPERTY = "C10"
LEVEL = "exploration"
EXPLANATION = "every store of the eager ensemble build is indexed through the block index of the loop; values are bounded"


def run(tier="quick", seed=0):
    obs = [frame.store_uses_loop_target("abtem/potentials/iam.py", "_FieldBuilder.build", 0, "array", PROPERTY,
                                        "ensemble-member-written-to-its-own-index")]
    return dict(obligations=obs, functions=[o["function"] for o in obs if o.get("function")],
                trusted_base=["frame analysis of pyvc/frame.py (syntactic data flow)",
                              "Ensemble.generate_blocks yields each block index once (C19, bounded)"],
                assumptions=["tier F is syntactic and conservative"], selfcheck={}, errors=[],
                bounded_standins=["lazy == eager per member and slice windows: bounded/c10.py"])


def native_replay(case):
    return []
