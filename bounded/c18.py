"""C18 — chunk computations partition arrays exactly (bounded run-time contract on abtem.core.chunks).

Clauses (oracle = the statement, recomputed with plain Python integer arithmetic / a NumPy counter array):
  validate_chunks        every normal return is a tuple (one entry per dimension) of tuples of ints >= 1 that sum to
                         the shape in every dimension (so a mismatching explicit tuple MUST raise); dimensions given
                         explicitly (-1, int, tuple) keep their meaning (whole / blocks of at most c / verbatim)
  _auto_chunks           when a valid chunking exists (the explicit dimensions alone, with every 'auto' dimension at
                         block size 1, fit in the element limit) the largest block has <= limit elements; checked both
                         through validate_chunks(shape, chunks, max_elements=limit) and _auto_chunks directly, with
                         int limits, byte-string limits (+dtype) and the `chunks=int` shorthand
  equal_sized_chunks     sum == n, len == m, max - min <= 1, all >= 1; raises (RuntimeError) iff n < m; with
                         chunk_size: len == ceil(n / chunk_size)
  chunk_ranges           per dimension: starts at 0, contiguous, widths == chunks, ends at the sum
  iterate_chunk_ranges   the slices tile an array of that shape exactly once; block indices in C order, one per block
  generate_chunks        ranges are contiguous from `start` and cover [start, start + n)

Case kinds
  kind="validate"  shape, chunks (JSON: "auto" | -1 | int | list-of-ints per dimension), limits=[...] (all evaluated)
  kind="shape"     shape, per-dimension option set name; ALL combinations of per-dimension specs x limits are expanded
                   in-process (exhaustive shard); the detail of a failure names the exact (shape, chunks, limit)
  kind="equal"     n_max: all (n, m) and (n, chunk_size) up to n_max, generate_chunks with several starts
  kind="ranges"    chunks (validated form): chunk_ranges / iterate_chunk_ranges
"""

import itertools
import math

from vlib.hx import Res, rng_for

PROPERTY = "C18"
RULE = ("quick: every 1-D shape 1..6 x every per-dimension spec (-1, 'auto', ints 1..s+1, all compositions of s, "
        "a wrong-sum tuple) x limits 1..64; every 2-D shape <= 6x6 x 10-option spec set per dimension x limits 1..64 "
        "(one driver case per (shape, spec), limits expanded in-process); 1500 seeded 3-D (shape, spec) cases; "
        "the int shorthand and -1; equal_sized_chunks/generate_chunks for all n <= 40, m <= 42; chunk_ranges / "
        "iterate_chunk_ranges on every validated chunking produced plus zero-width and 0-d chunkings. "
        "thorough: one shard per shape <= 6x6x6 expanding ALL per-dimension specs (all compositions) x limits 1..64. "
        "Non-trivial: more than one block or a limit that binds. Distinct = distinct (shape, chunks) / parameters.")
BOUNDS = {"shape_max": [6, 6, 6], "ndim": [0, 1, 2, 3], "limits": [1, 64], "int_chunks": "1..s+1 and -1",
          "tuples": "all compositions of s (thorough: in every dimension; quick: 1-D all, 2-D/3-D a subset) + wrong sums",
          "equal_sized": {"quick": {"n": 40, "m": 42}, "thorough": {"n": 200, "m": 202}},
          "three_d": {"quick": "1500 seeded (shape, spec) cases", "thorough": "exhaustive"}}
EXHAUSTIVE = False
ASSUMPTIONS = [
    "all clauses are exact integer/shape comparisons (no tolerance)",
    "domain: dimension sizes >= 1 (0-d shapes included, zero-length dimensions not), int chunk sizes >= 1 or -1, "
    "limits >= 1; the bare string chunks='auto' (NotImplementedError in validate_chunks) is not part of the domain",
    "a valid chunking exists  <=>  prod over explicit dimensions of their largest block (min(c, s) for an int c, s for "
    "-1, max of a tuple) <= limit",
    "RuntimeError from _auto_chunks is accepted only when no valid chunking exists; a RuntimeError on a feasible "
    "input is reported as C18/no-exception",
]
CONTRACTS = ["abtem/core/chunks.py:validate_chunks", "abtem/core/chunks.py:_auto_chunks",
             "abtem/core/chunks.py:fill_in_chunk_sizes", "abtem/core/chunks.py:equal_sized_chunks",
             "abtem/core/chunks.py:chunk_ranges", "abtem/core/chunks.py:iterate_chunk_ranges",
             "abtem/core/chunks.py:generate_chunks"]

_OB_SUM = "C18/validate_chunks/sums-to-shape"
_OB_KEEP = "C18/validate_chunks/explicit-dims-kept"
_OB_LIM = "C18/_auto_chunks/within-limit-when-valid-chunking-exists"
_OB_EXC = "C18/no-exception"
_OB_EQ_SUM = "C18/equal_sized_chunks/sum-and-length"
_OB_EQ_BAL = "C18/equal_sized_chunks/sizes-differ-by-at-most-one"
_OB_EQ_RAISE = "C18/equal_sized_chunks/raises-iff-more-chunks-than-items"
_OB_RANGES = "C18/chunk_ranges/contiguous-cover"
_OB_ITER = "C18/iterate_chunk_ranges/tiles-exactly-once"
_OB_GEN = "C18/generate_chunks/contiguous-cover"

_LIMITS = list(range(1, 65))


def _compositions(s):
    """All ordered tuples of positive ints summing to s."""
    if s == 0:
        yield []
        return
    for first in range(1, s + 1):
        for rest in _compositions(s - first):
            yield [first] + rest


def _dim_options(s, level):
    """Per-dimension chunk specs (JSON form). level: 'all' | 'some' | 'few'."""
    opts = [-1, "auto"]
    if level == "all":
        opts += list(range(1, s + 2))
        opts += [c for c in _compositions(s)]
        opts += [[s + 1], [1] * (s - 1) if s > 1 else [2]]          # wrong sums
    elif level == "some":
        opts += sorted({1, 2, max(1, s - 1), s, s + 1})
        comps = [[1] * s, [s - 1, 1] if s > 1 else [1], [1, s - 1] if s > 1 else [1]]
        if s >= 4:
            comps.append([1, s - 2, 1])
        seen = []
        for c in comps:
            if c not in seen:
                seen.append(c)
        opts += seen
        opts += [[s + 1]]
    else:
        opts += sorted({1, max(1, s // 2), s})
        opts += [[1] * s] + ([[s - 1, 1]] if s > 1 else [])
    return opts


def cases(tier, seed):
    quick = tier == "quick"
    # ---- 0-d -----------------------------------------------------------------------------------------------------
    for ch in ([], -1, 3):
        yield dict(kind="validate", shape=[], chunks=ch, limits=[1, 5])
    # ---- 1-D exhaustive ------------------------------------------------------------------------------------------------
    for s in range(1, 7):
        for o in _dim_options(s, "all"):
            yield dict(kind="validate", shape=[s], chunks=[o], limits=_LIMITS)
        for whole in [-1] + list(range(1, 9)):
            yield dict(kind="validate", shape=[s], chunks=whole, limits=[1])
    # ---- 2-D: every shape <= 6x6, "some" options per dimension --------------------------------------------------------
    for s0 in range(1, 7):
        for s1 in range(1, 7):
            for o0 in _dim_options(s0, "some"):
                for o1 in _dim_options(s1, "some"):
                    lim = _LIMITS if "auto" in (o0, o1) else [1, 7]
                    yield dict(kind="validate", shape=[s0, s1], chunks=[o0, o1], limits=lim)
            for whole in [-1, 1, 2, 3, 5, 8, 13, 36, 64]:
                yield dict(kind="validate", shape=[s0, s1], chunks=whole, limits=[1])
    # ---- 3-D: seeded sample of (shape, spec) ---------------------------------------------------------------------------
    r = rng_for(seed, "c18-3d")
    n3 = 1500 if quick else 6000
    for k in range(n3):
        shape = [int(r.integers(1, 7)) for _ in range(3)]
        spec = []
        for s in shape:
            opts = _dim_options(s, "all" if k % 3 == 0 else "some")
            # bias towards 'auto' so the limit clause is exercised
            spec.append("auto" if r.random() < 0.4 else opts[int(r.integers(len(opts)))])
        lim = _LIMITS if "auto" in spec else [1, 9]
        yield dict(kind="validate", shape=shape, chunks=spec, limits=lim)
    for shape in ([6, 6, 6], [1, 6, 1], [5, 1, 3], [2, 3, 4], [6, 5, 4]):
        for whole in [-1, 1, 2, 5, 7, 8, 27, 36, 63, 64, 216, 1000]:
            yield dict(kind="validate", shape=shape, chunks=whole, limits=[1])
    # ---- equal_sized_chunks / generate_chunks ------------------------------------------------------------------------
    nmax = BOUNDS["equal_sized"][tier]["n"]
    for lo in range(0, nmax + 1, 10):
        yield dict(kind="equal", n_lo=lo, n_hi=min(nmax, lo + 9), m_max=nmax + 2)
    # ---- chunk_ranges / iterate_chunk_ranges on hand-made validated chunkings (zero widths, 0-d, ragged) -------------
    for ch in ([], [[3]], [[0, 3]], [[1, 0, 2], [2, 2]], [[1, 2, 3], [4], [1, 1]], [[2, 1], [1, 1, 1], [3, 2], [1]],
               [[1] * 6, [6], [2, 2, 2]], [[0], [2]], [[5, 1], [1, 5]]):
        yield dict(kind="ranges", chunks=ch)
    r = rng_for(seed, "c18-ranges")
    for k in range(40 if quick else 400):
        nd = int(r.integers(1, 5))
        ch = [[int(x) for x in r.integers(0 if k % 4 == 0 else 1, 5, size=int(r.integers(1, 5)))] for _ in range(nd)]
        yield dict(kind="ranges", chunks=ch)
    if quick:
        return
    # ---- thorough: exhaustive shards, one per shape <= 6x6x6 ------------------------------------------------------------
    for nd in (2, 3):
        for shape in itertools.product(range(1, 7), repeat=nd):
            if nd == 3:
                # split the largest shards by the spec of the first dimension
                for o0 in _dim_options(shape[0], "all"):
                    yield dict(kind="shape", shape=list(shape), level="all", first=o0)
            else:
                yield dict(kind="shape", shape=list(shape), level="all")


# ---------------------------------------------------------------------------------------------------------------------


def _to_py(spec):
    """JSON chunk spec -> the Python object abTEM expects (lists become tuples)."""
    if isinstance(spec, list):
        return tuple(_to_py(x) for x in spec)
    return spec


def _maxblock(s, o):
    if o == -1:
        return s
    if isinstance(o, int):
        return min(o, s)
    if isinstance(o, (list, tuple)):
        return max(o) if len(o) else 0
    return None  # auto


class _Acc:
    def __init__(self):
        self.n = {}
        self.fail = {}
        self.nontrivial = False

    def add(self, ob, ok, detail=""):
        self.n[ob] = self.n.get(ob, 0) + 1
        if not ok and ob not in self.fail:
            self.fail[ob] = detail() if callable(detail) else detail

    def results(self):
        return [Res(ob, ob not in self.fail, self.fail.get(ob, f"{n} evaluations"), self.nontrivial)
                for ob, n in self.n.items()]


def _is_valid_result(res, shape):
    if not isinstance(res, tuple) or len(res) != len(shape):
        return False
    for c, s in zip(res, shape):
        if not isinstance(c, tuple) or not all(isinstance(x, int) and not isinstance(x, bool) and x >= 1 for x in c):
            return False
        if sum(c) != s:
            return False
    return True


def _check_validate(acc, C, shape, spec, limit, via):
    """One evaluation of validate_chunks / _auto_chunks. spec is the JSON form (per-dimension list, or -1 / int)."""
    shape_t = tuple(shape)
    whole = not isinstance(spec, list)
    if whole:
        py = spec
        per_dim = [-1] * len(shape) if spec == -1 else ["auto"] * len(shape)
        eff_limit = None if spec == -1 else spec
    else:
        py = _to_py(spec)
        per_dim = spec
        eff_limit = limit
    has_auto = any(o == "auto" for o in per_dim)
    explicit_ok = all(o == "auto" or o == -1 or isinstance(o, int) or sum(o) == s for o, s in zip(per_dim, shape))
    need = 1
    for o, s in zip(per_dim, shape):
        mb = _maxblock(s, o)
        need *= 1 if mb is None else mb
    feasible = (not has_auto) or need <= eff_limit
    tag = lambda: f"shape={shape_t} chunks={py!r} limit={eff_limit!r} via {via}"  # noqa: E731
    try:
        if via == "validate_chunks":
            res = C.validate_chunks(shape_t, py) if whole else C.validate_chunks(shape_t, py, max_elements=limit)
        elif via == "validate_chunks[bytes]":
            import numpy as np
            res = C.validate_chunks(shape_t, py, max_elements=f"{8 * limit + 3} B", dtype=np.complex64)
        else:
            res = C._auto_chunks(shape_t, py, max_elements=limit)
    except ValueError as e:
        # legitimate exactly when an explicit tuple does not sum to its dimension
        acc.add(_OB_EXC, not explicit_ok, lambda: f"{tag()}: ValueError {e} on a well-formed spec")
        acc.add(_OB_SUM, True)
        return None
    except RuntimeError as e:
        acc.add(_OB_EXC, has_auto and not feasible,
                lambda: f"{tag()}: RuntimeError '{e}' although a valid chunking exists (explicit dimensions need "
                        f"{need} <= limit {eff_limit})")
        return None
    # normal return
    acc.add(_OB_SUM, _is_valid_result(res, shape_t),
            lambda: f"{tag()}: returned {res!r}, which does not partition shape {shape_t}"
                    + ("" if explicit_ok else " (explicit tuple with a wrong sum must raise)"))
    if not _is_valid_result(res, shape_t):
        return None
    keep = True
    for c, o, s in zip(res, per_dim, shape):
        if o == -1:
            keep = keep and c == (s,)
        elif isinstance(o, int):
            keep = keep and max(c) <= o and all(x == min(o, s) for x in c[:-1])
        elif isinstance(o, list):
            keep = keep and c == tuple(o)
    acc.add(_OB_KEEP, keep, lambda: f"{tag()}: returned {res!r}")
    if has_auto:
        biggest = 1
        for c in res:
            biggest *= max(c)
        if feasible:
            acc.add(_OB_LIM, biggest <= eff_limit,
                    lambda: f"{tag()}: returned {res!r}; largest block has {biggest} elements > limit {eff_limit} "
                            f"(explicit dimensions alone need {need})")
            if eff_limit < math.prod(shape):
                acc.nontrivial = True
    if any(len(c) > 1 for c in res):
        acc.nontrivial = True
    return res


def _check_ranges(acc, C, chunks):
    """chunk_ranges / iterate_chunk_ranges on a validated chunking (tuple of tuples)."""
    import numpy as np

    rr = C.chunk_ranges(chunks)
    ok = isinstance(rr, tuple) and len(rr) == len(chunks)
    if ok:
        for c, ranges in zip(chunks, rr):
            pos = 0
            ok = ok and len(ranges) == len(c)
            for w, (a, b) in zip(c, ranges):
                ok = ok and a == pos and b - a == w
                pos = b
            ok = ok and pos == sum(c)
    acc.add(_OB_RANGES, ok, lambda: f"chunks={chunks!r}: chunk_ranges={rr!r}")
    shape = tuple(sum(c) for c in chunks)
    count = np.zeros(shape, dtype=int)
    idx = []
    ok2 = True
    for block_indices, slic in C.iterate_chunk_ranges(chunks):
        idx.append(tuple(block_indices))
        count[slic] += 1
        # the slice must be the range of that block index in each dimension
        want = tuple(slice(sum(c[:i]), sum(c[:i + 1])) for c, i in zip(chunks, block_indices))
        ok2 = ok2 and tuple(slic) == want
    expected_idx = list(itertools.product(*[range(len(c)) for c in chunks]))
    ok2 = ok2 and idx == expected_idx and bool(np.all(count == 1))
    acc.add(_OB_ITER, ok2,
            lambda: f"chunks={chunks!r}: {len(idx)} blocks (expected {len(expected_idx)}), coverage counts "
                    f"min={int(count.min()) if count.size else '-'} max={int(count.max()) if count.size else '-'}, "
                    f"indices in C order={idx == expected_idx}")
    if len(expected_idx) > 1:
        acc.nontrivial = True


def _run_validate(acc, C, shape, spec, limits):
    done = set()
    for lim in limits:
        vias = ["validate_chunks"]
        if isinstance(spec, list) and "auto" in spec:
            vias.append("_auto_chunks")
            if lim % 8 == 0 or lim < 4:
                vias.append("validate_chunks[bytes]")
        for via in vias:
            res = _check_validate(acc, C, shape, spec, lim, via)
            if res is not None and res not in done:
                done.add(res)
                _check_ranges(acc, C, res)


def _run_equal(acc, C, case):
    for n in range(case["n_lo"], case["n_hi"] + 1):
        for m in range(1, case["m_max"] + 1):
            tag = f"equal_sized_chunks({n}, num_chunks={m})"
            try:
                ch = C.equal_sized_chunks(n, num_chunks=m)
            except RuntimeError as e:
                acc.add(_OB_EQ_RAISE, 0 < n < m, f"{tag} raised '{e}' although n >= m")
                continue
            if n == 0:
                acc.add(_OB_EQ_SUM, ch == (), f"{tag} = {ch!r}, expected () for zero items")
                continue
            acc.add(_OB_EQ_RAISE, n >= m, f"{tag} returned {ch!r} although n < m (must raise)")
            good = isinstance(ch, tuple) and all(isinstance(x, int) for x in ch)
            acc.add(_OB_EQ_SUM, good and sum(ch) == n and len(ch) == m, f"{tag} = {ch!r}: sum {sum(ch)}, len {len(ch)}")
            acc.add(_OB_EQ_BAL, good and len(ch) > 0 and max(ch) - min(ch) <= 1 and min(ch) >= 1,
                    f"{tag} = {ch!r}")
            if 1 < m < n:
                acc.nontrivial = True
            for start in (0, 3):
                gen = list(C.generate_chunks(n, num_chunks=m, start=start))
                pos, ok = start, len(gen) == m
                for (a, b), w in zip(gen, ch):
                    ok = ok and a == pos and b - a == w
                    pos = b
                acc.add(_OB_GEN, ok and pos == start + n, f"generate_chunks({n}, num_chunks={m}, start={start}) = {gen!r}")
        for cs in range(1, min(case["m_max"], n + 3) + 1):
            if n == 0:
                continue
            tag = f"equal_sized_chunks({n}, chunk_size={cs})"
            ch = C.equal_sized_chunks(n, chunk_size=cs)
            want_len = -(-n // cs)
            acc.add(_OB_EQ_SUM, sum(ch) == n and len(ch) == want_len, f"{tag} = {ch!r}: expected {want_len} chunks summing to {n}")
            acc.add(_OB_EQ_BAL, max(ch) - min(ch) <= 1 and min(ch) >= 1 and max(ch) <= cs, f"{tag} = {ch!r}")
            gen = list(C.generate_chunks(n, chunks=cs, start=5))
            pos, ok = 5, len(gen) == want_len
            for a, b in gen:
                ok = ok and a == pos and b > a
                pos = b
            acc.add(_OB_GEN, ok and pos == 5 + n, f"generate_chunks({n}, chunks={cs}, start=5) = {gen!r}")
    acc.add(_OB_GEN, list(C.generate_chunks(0, num_chunks=3)) == [], "generate_chunks(0, 3) must be empty")


def run_case(case):
    from abtem.core import chunks as C

    acc = _Acc()
    kind = case["kind"]
    if kind == "validate":
        _run_validate(acc, C, case["shape"], case["chunks"], case["limits"])
    elif kind == "shape":
        shape = case["shape"]
        per = [_dim_options(s, case["level"]) for s in shape]
        if "first" in case:
            per[0] = [case["first"]]
        for spec in itertools.product(*per):
            spec = list(spec)
            _run_validate(acc, C, shape, spec, _LIMITS if "auto" in spec else [1])
    elif kind == "equal":
        _run_equal(acc, C, case)
    elif kind == "ranges":
        _check_ranges(acc, C, _to_py(case["chunks"]))
    else:
        raise ValueError(kind)
    return acc.results()
