"""C40 — centre of mass and integrated gradients are exact on analytic inputs (bounded run-time contract).

Clauses and obligations
  * the centre of mass of diffraction patterns equals the intensity-weighted mean spatial frequency (or angle)
        C40/center_of_mass/equals-weighted-mean              patterns with an arbitrary total (!= 1), fftshift=True
        C40/center_of_mass/unit-total-equals-weighted-mean   the same patterns scaled to total 1 (isolates coordinates/units)
        C40/center_of_mass/unshifted-equals-weighted-mean    unit-total patterns stored with fftshift=False (pixel (i,j)
                                                             carries the frequency np.fft.fftfreq assigns to it)
  * ... including for a single bright pixel
        C40/center_of_mass/single-bright-pixel               one pixel of value v (v = 1 and v != 1) at every sampled
                                                             position -> exactly that pixel's coordinate
  * integrating a periodic gradient field reproduces the generating scalar field up to a constant
        C40/integrate_gradient/reproduces-field-up-to-constant

Oracle: (sum I*kx + i*sum I*ky) / sum I in float64 with own coordinates: pixel i of a shifted axis of length n carries
(i - n//2)*sampling, unit '1/Å'; 'mrad' = 1/Å * wavelength * 1e3 with an own relativistic wavelength. Gradient fields
are analytic derivatives of band-limited trigonometric polynomials (|k| <= n/2 - 1 per axis) sampled on the grid.
"""

import math

import numpy as np

from vlib.hx import Res, close, covering, rng_for

PROPERTY = "C40"
RULE = ("pairwise covering array over (pattern shape/parity, sampling anisotropy, energy, ensemble/scan layout, lazy) with "
        "seeded positive patterns (total != 1), every case in both units; single-pixel patterns at seeded + corner + "
        "centre positions with seeded values; gradient cases: covering over (grid, sampling, ensemble, lazy) with seeded "
        "band-limited fields; non-trivial = pattern not symmetric (COM != 0) / field not constant; distinct = distinct case")
BOUNDS = {
    "pattern_gpts": "5..24 per axis, odd/even, non-square", "reciprocal_sampling_1/A": [0.01, 0.2],
    "energy_eV": [60e3, 100e3, 200e3, 300e3], "units": ["1/Å", "mrad"],
    "ensemble": ["none", "ordinal 3", "scan 3x2", "line scan 4", "ordinal 2 + scan 2x3"],
    "single_pixel_positions": {"quick": 8, "thorough": 24}, "pixel_value": "1.0 and uniform(0.1, 50)",
    "gradient_grid": "6..24 per axis, odd/even, non-square; sampling 0.05..0.5 Å anisotropic; 1-6 Fourier modes",
}
EXHAUSTIVE = False
ASSUMPTIONS = [
    "float32 patterns: centre of mass compared with atol = 1e-4 * max|coordinate| (single pixel: 2e-6 relative)",
    "integrated gradient minus the field must be constant to 2e-4 * (max - min of the field) per image",
]
CONTRACTS = [
    "abtem/measurements.py:DiffractionPatterns.center_of_mass",
    "abtem/measurements.py:DiffractionPatterns._com",
    "abtem/measurements.py:DiffractionPatterns.coordinates",
    "abtem/measurements.py:DiffractionPatterns.angular_coordinates",
    "abtem/measurements.py:Images.integrate_gradient",
    "abtem/measurements.py:_integrate_gradient_2d",
]

_PG = [(5, 5), (8, 8), (9, 12), (16, 11), (24, 17), (13, 20), (6, 15)]
_ENS = ["none", "ord", "scan", "line", "ord+scan"]
_GG = [(6, 6), (7, 7), (10, 13), (16, 9), (24, 24), (15, 20)]


def _wavelength(energy):
    h, m, e, c = 6.62607015e-34, 9.1093837015e-31, 1.602176634e-19, 299792458.0
    return h * c / math.sqrt(energy * e * (2 * m * c ** 2 + energy * e)) * 1e10


def cases(tier, seed):
    reps = 1 if tier == "quick" else 8
    for rep in range(reps):
        for i, c in enumerate(covering(dict(gpts=_PG, aniso=[1.0, 0.7, 1.3], energy=BOUNDS["energy_eV"], ens=_ENS,
                                            lazy=[False, True]), seed=seed * 53 + rep, extra_random=6)):
            r = rng_for(seed, "c40com", rep, i)
            s = round(float(r.uniform(0.01, 0.2)), 4)
            yield dict(clause="com", gpts=list(c["gpts"]), sampling=[s, round(s * c["aniso"], 5)], energy=float(c["energy"]),
                       ens=c["ens"], lazy=bool(c["lazy"]), seed=int(r.integers(1 << 30)), tier=tier)
        for i, c in enumerate(covering(dict(gpts=_GG, aniso=[1.0, 0.6, 1.7], ens=["none", "ord", "ord2x2"],
                                            lazy=[False, True], modes=[1, 3, 6]), seed=seed * 59 + rep, extra_random=4)):
            r = rng_for(seed, "c40grad", rep, i)
            s = round(float(r.uniform(0.05, 0.5)), 4)
            yield dict(clause="gradient", gpts=list(c["gpts"]), sampling=[s, round(s * c["aniso"], 5)], ens=c["ens"],
                       lazy=bool(c["lazy"]), modes=int(c["modes"]), seed=int(r.integers(1 << 30)))


def _np(x):
    arr = x.array if hasattr(x, "array") else x
    if hasattr(arr, "compute"):
        arr = arr.compute(scheduler="synchronous")
    return np.asarray(arr)


def _axes(ens):
    from abtem.core.axes import OrdinalAxis, ScanAxis

    sx = lambda: ScanAxis(label="x", sampling=0.4, units="Å")  # noqa: E731
    sy = lambda: ScanAxis(label="y", sampling=0.5, units="Å")  # noqa: E731
    return {"none": ((), []), "ord": ((3,), [OrdinalAxis(label="p", values=(0, 1, 2))]),
            "scan": ((3, 2), [sx(), sy()]), "line": ((4,), [sx()]),
            "ord+scan": ((2, 2, 3), [OrdinalAxis(label="p", values=(0, 1)), sx(), sy()]),
            "ord2x2": ((2, 2), [OrdinalAxis(label="p", values=(0, 1)), OrdinalAxis(label="q", values=(0, 1))])}[ens]


def _lazy(a, lazy, nens):
    if not lazy:
        return a
    import dask.array as da

    return da.from_array(a, chunks=tuple(1 if i == 0 else -1 for i in range(nens)) + (-1, -1))


def _com_case(case):
    from abtem.measurements import DiffractionPatterns

    r = np.random.default_rng(case["seed"])
    es, md = _axes(case["ens"])
    n, m = case["gpts"]
    samp = tuple(case["sampling"])
    lam = _wavelength(case["energy"])
    kx = (np.arange(n) - n // 2) * samp[0]
    ky = (np.arange(m) - m // 2) * samp[1]

    def make(a, fftshift=True):
        return DiffractionPatterns(_lazy(a, case["lazy"], len(es)), sampling=samp, fftshift=fftshift,
                                   ensemble_axes_metadata=md, metadata={"energy": case["energy"]})

    def expected(a, factor):
        a = a.astype(np.float64)
        tot = a.sum((-2, -1))
        return ((a * kx[:, None]).sum((-2, -1)) + 1j * (a * ky[None, :]).sum((-2, -1))) / tot * factor

    def compare(dp, exp, factor, rtol):
        res = []
        for units, f in (("1/Å", 1.0), ("mrad", lam * 1e3)):
            got = _np(dp.center_of_mass(units=units)).astype(np.complex128)
            e = exp * f
            scale = max(abs(kx).max(), abs(ky).max()) * f
            if got.shape != e.shape:
                res.append((False, f"units {units}: shape {got.shape} != {e.shape}"))
                continue
            ok, d = close(np.stack([got.real, got.imag]), np.stack([e.real, e.imag]), rtol=0.0, atol=rtol * scale)
            res.append((ok, f"units {units}: {d}; got {got.ravel()[:2]} expected {e.ravel()[:2]}"))
        return all(o for o, _ in res), " || ".join(d for o, d in res if not o) or res[0][1]

    out = []
    # ---- general positive patterns, total != 1 ----------------------------------------------------------
    a = r.uniform(0.0, 1.0, es + (n, m)).astype(np.float32)
    # an off-centre blob so that the centre of mass is clearly non-zero
    ci, cj = int(r.integers(0, n)), int(r.integers(0, m))
    a[..., ci, cj] += np.float32(0.5 * n * m)
    a *= np.float32(r.uniform(2.0, 40.0))
    exp = expected(a, 1.0)
    tot = a.astype(np.float64).sum((-2, -1))
    nt = bool(np.abs(exp).max() > 1e-3 * max(abs(kx).max(), abs(ky).max()))
    tag = f"{n}x{m} pattern(s), sampling {samp} 1/Å, {case['energy'] / 1e3:.0f} keV, ensemble {case['ens']}, lazy {case['lazy']}"
    ok, d = compare(make(a), exp, 1.0, 1e-4)
    out.append(Res("C40/center_of_mass/equals-weighted-mean", ok,
                   f"{tag}, totals {tot.ravel()[:2]} (observed/expected ratio ~ total if the division is missing): {d}", nt))
    # ---- the same patterns with unit total --------------------------------------------------------------
    a1 = (a.astype(np.float64) / tot[..., None, None]).astype(np.float32)
    ok, d = compare(make(a1), expected(a1, 1.0), 1.0, 1e-4)
    out.append(Res("C40/center_of_mass/unit-total-equals-weighted-mean", ok, f"{tag}, unit totals: {d}", nt))
    # ---- unit total, stored unshifted -------------------------------------------------------------------
    au = np.fft.ifftshift(a1, axes=(-2, -1))
    ok, d = compare(make(au, fftshift=False), expected(a1, 1.0), 1.0, 1e-4)
    out.append(Res("C40/center_of_mass/unshifted-equals-weighted-mean", ok, f"{tag}, unit totals, fftshift=False: {d}", nt))
    # ---- single bright pixels ---------------------------------------------------------------------------
    npos = BOUNDS["single_pixel_positions"][case.get("tier", "quick")]
    pos = [(0, 0), (n - 1, m - 1), (n // 2, m // 2), (0, m - 1)] + [(int(r.integers(0, n)), int(r.integers(0, m)))
                                                                   for _ in range(max(0, npos - 4))]
    bad = []
    for q, (i, j) in enumerate(pos):
        v = 1.0 if q % 2 == 0 else float(r.uniform(0.1, 50.0))
        p = np.zeros(es + (n, m), np.float32)
        p[..., i, j] = v
        e = np.full(es, kx[i] + 1j * ky[j])
        okp, dp_ = compare(make(p), e, 1.0, 2e-6)
        if not okp:
            bad.append(f"pixel ({i},{j}) value {v:.4g} (coordinate {kx[i]:.5g},{ky[j]:.5g} 1/Å): {dp_}")
    out.append(Res("C40/center_of_mass/single-bright-pixel", not bad,
                   f"{tag}: {len(bad)}/{len(pos)} single-pixel patterns differ; " + " | ".join(bad[:2]), True))
    return out


def _gradient_case(case):
    from abtem.measurements import Images

    r = np.random.default_rng(case["seed"])
    es, md = _axes(case["ens"])
    n, m = case["gpts"]
    sx, sy = case["sampling"]
    Lx, Ly = n * sx, m * sy
    x = (np.arange(n) * sx)[:, None]
    y = (np.arange(m) * sy)[None, :]
    nimg = int(np.prod(es, dtype=int))
    T = np.zeros((nimg, n, m))
    G = np.zeros((nimg, n, m), complex)
    hx, hy = max(0, (n - 1) // 2 - (1 if n % 2 == 0 else 0)), max(0, (m - 1) // 2 - (1 if m % 2 == 0 else 0))
    hx, hy = min(hx, n // 2 - 1), min(hy, m // 2 - 1)
    for q in range(nimg):
        for _ in range(case["modes"]):
            while True:
                p, s = int(r.integers(-hx, hx + 1)), int(r.integers(-hy, hy + 1))
                if (p, s) != (0, 0):
                    break
            amp, ph = float(r.uniform(0.2, 2.0)), float(r.uniform(0, 2 * np.pi))
            arg = 2 * np.pi * (p * x / Lx + s * y / Ly) + ph
            T[q] += amp * np.cos(arg)
            G[q] += -amp * np.sin(arg) * (2 * np.pi * p / Lx) + 1j * (-amp * np.sin(arg) * (2 * np.pi * s / Ly))
        T[q] += float(r.uniform(-3, 3))  # the constant that cannot be recovered
    T = T.reshape(es + (n, m))
    G = G.reshape(es + (n, m)).astype(np.complex64)
    im = Images(_lazy(G, case["lazy"], len(es)), sampling=(sx, sy), ensemble_axes_metadata=md)
    got = _np(im.integrate_gradient()).astype(np.float64)
    if got.shape != T.shape:
        return [Res("C40/integrate_gradient/reproduces-field-up-to-constant", False, f"shape {got.shape} != {T.shape}", True)]
    diff = got - T
    spread = (diff.max((-2, -1)) - diff.min((-2, -1)))
    ptp = T.max((-2, -1)) - T.min((-2, -1))
    ok = bool(np.all(spread <= 2e-4 * ptp))
    k = int(np.argmax(spread / ptp)) if spread.ndim else 0
    return [Res("C40/integrate_gradient/reproduces-field-up-to-constant", ok,
                f"{n}x{m} grid, sampling ({sx},{sy}) Å, {case['modes']} modes, ensemble {case['ens']}, lazy {case['lazy']}: "
                f"max over images of (max-min)(integrated - T) = {float(np.max(spread)):.3e}, field range "
                f"{float(np.ravel(ptp)[k]):.3e}", bool(np.all(ptp > 0)))]


def run_case(case):
    import warnings

    warnings.filterwarnings("ignore")
    return {"com": _com_case, "gradient": _gradient_case}[case["clause"]](case)
