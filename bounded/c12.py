"""C12 — detectors measure consistent integrated intensities (bounded run-time contract on the real detectors).

Clauses of the statement and their obligations
  * AnnularDetector(inner, outer) == DiffractionPatterns.integrate_radial(inner, outer)
        C12/integrate_radial/equals-annular            (patterns of several crops / shifts / parities of the same waves)
        C12/AnnularDetector/equals-mask-sum-reference  (NumPy oracle: sum of the pixels of the full pattern whose
                                                         scattering angle lies in [inner, outer); own angular grid)
  * FlexibleAnnularDetector -> integrate_radial(inner, outer) == AnnularDetector(inner, outer)
        C12/FlexibleAnnularDetector/integrate_radial-equals-annular
  * sum over all segments of SegmentedDetector spanning [inner, outer) == AnnularDetector(inner, outer)
        C12/SegmentedDetector/sum-of-segments-equals-annular
  * additivity over adjacent ranges
        C12/AnnularDetector/additive-adjacent-ranges
  * FlexibleAnnularDetector bins have the width the axis metadata states
        C12/FlexibleAnnularDetector/bins-cover-stated-range      (nbins * stated sampling == outer - inner)
        C12/FlexibleAnnularDetector/bin-content-matches-stated-edges
              (bin k == intensity in [offset + k*sampling, offset + (k+1)*sampling) with offset/sampling read from the
               axes metadata of the returned PolarMeasurements; oracle = AnnularDetector on those edges)

Every case evaluates ONE clause group (case["clause"]) so that an exception raised by abTEM in one route (reported by
the driver as C12/no-exception) does not hide the verdicts of the other clauses.

Pixels whose scattering angle lies within 1e-5*(1+edge) mrad of an integration edge are "ambiguous": the statement does
not fix on which side float rounding puts them. For such inputs each route only has to lie inside the band
[reference without ambiguous pixels, reference with them]; without ambiguous pixels the comparison is direct.
"""

import math

import numpy as np

from vlib.hx import Res, close, covering, rng_for

PROPERTY = "C12"
RULE = ("pairwise covering array over (wave kind, grid parity/shape, ensemble shape, lazy, limit style, simulated-range "
        "kind) x seeded extents/energies/limits, one case per clause group (equal, flex, seg, add); a case is "
        "non-trivial when the annulus contains at least one pixel with non-zero intensity; distinct = distinct case dict")
BOUNDS = {
    "gpts": "8..32 per axis, odd/even, square and non-square",
    "extent_A": [8.0, 40.0],
    "energy_eV": [40e3, 300e3],
    "ensemble_shapes": [[], [3], [2, 3], "scan 3x2 (+defocus axis)", "line scan 3"],
    "limits_mrad": "0 <= inner < outer <= min(cutoff angles) or <= 0.97*min(full angles); integer, fractional "
                   "(multiples of 0.5/0.25/0.1/0.3/1.5) and pixel-aligned",
    "flexible_step_mrad": [0.1, 0.25, 0.3, 0.5, 1.0, 1.5, 2.0],
    "segments": {"nbins_radial": [1, 2, 3, 5], "nbins_azimuthal": [1, 2, 3, 4, 7]},
    "cases": {"quick": "~150", "thorough": "~1500"},
}
EXHAUSTIVE = False
ASSUMPTIONS = [
    "float32 pipeline: sums compared with atol = 2e-4 * max|reference over the ensemble| (+1e-30)",
    "pixels within 1e-5*(1+edge) mrad of an integration edge may fall on either side",
    "limits handed to integrate_radial are decimal literals (rounded to 6 digits) of offset + k*step",
    "segmented/flexible detectors are compared without centre offset (the statement names none)",
]
CONTRACTS = [
    "abtem/detectors.py:AnnularDetector.detect",
    "abtem/detectors.py:FlexibleAnnularDetector.detect",
    "abtem/detectors.py:FlexibleAnnularDetector.nbins_radial",
    "abtem/detectors.py:SegmentedDetector.detect",
    "abtem/measurements.py:DiffractionPatterns.integrate_radial",
    "abtem/measurements.py:DiffractionPatterns.polar_binning",
    "abtem/measurements.py:PolarMeasurements.integrate_radial",
]

RTOL = 2e-4


# ---------------------------------------------------------------------------------------------
# independent physics / geometry (not abTEM's)


def _wavelength(energy):
    h, m, e, c = 6.62607015e-34, 9.1093837015e-31, 1.602176634e-19, 299792458.0
    return h * c / math.sqrt(energy * e * (2 * m * c ** 2 + energy * e)) * 1e10


def _alpha(gpts, extent, energy):
    lam = _wavelength(energy)
    kx = np.fft.fftfreq(gpts[0], d=extent[0] / gpts[0])
    ky = np.fft.fftfreq(gpts[1], d=extent[1] / gpts[1])
    return np.sqrt(kx[:, None] ** 2 + ky[None] ** 2) * lam * 1e3


def _ang_sampling(wave):
    lam = _wavelength(wave["energy"])
    return [lam * 1e3 / wave["extent"][0], lam * 1e3 / wave["extent"][1]]


def _range(wave, kind):
    s = _ang_sampling(wave)
    g = wave["gpts"]
    full = min(g[0] // 2 * s[0], g[1] // 2 * s[1])
    if kind == "full":
        return 0.97 * full
    return 0.98 * full * 2.0 / 3.0  # safely inside abTEM's antialias cutoff


# ---------------------------------------------------------------------------------------------
# cases

_GPTS = [(16, 16), (17, 17), (16, 21), (23, 18), (32, 27), (25, 32), (12, 30), (31, 31)]
_ENS = ["none", "e3", "e2x3", "scan", "line"]
_KINDS = ["random", "probe", "exit"]
_STYLES = ["int", "frac", "pixel"]
_STEPS = [0.1, 0.25, 0.3, 0.5, 1.0, 1.5, 2.0]


def _wave_case(r, cov):
    g = list(cov["gpts"])
    base = float(r.uniform(8.0, 40.0))
    asp = float(r.uniform(0.7, 1.4)) if cov["gpts"][0] != cov["gpts"][1] or r.random() < 0.5 else 1.0
    kind, ens = cov["kind"], cov["ens"]
    if kind != "random" and ens in ("e3", "e2x3"):
        ens = "scan" if ens == "e3" else "line"
    if kind == "random" and ens in ("scan", "line"):
        ens = "e3" if ens == "scan" else "e2x3"
    return dict(kind=kind, gpts=g, extent=[round(base, 4), round(base * asp, 4)],
                energy=float(r.choice([40e3, 60e3, 80e3, 100e3, 200e3, 300e3])), ens=ens, lazy=bool(cov["lazy"]),
                seed=int(r.integers(1 << 30)))


def _limits(r, wave, style, rkind, n=2):
    """n+1 increasing edges inside the simulated range (so n adjacent ranges)."""
    R = _range(wave, rkind)
    s = min(_ang_sampling(wave))
    if style == "int":
        top = int(math.floor(R))
        if top >= n + 1:
            e = sorted(r.choice(np.arange(0, top + 1), size=n + 1, replace=False).tolist())
            return [float(v) for v in e]
        style = "frac"
    if style == "frac":
        for unit in r.permutation([0.5, 0.25, 0.1, 0.3, 1.5]).tolist():
            top = int(math.floor(R / unit))
            if top >= n + 1:
                e = sorted(r.choice(np.arange(0, top + 1), size=n + 1, replace=False).tolist())
                return [round(float(v) * unit, 6) for v in e]
        style = "pixel"
    top = max(int(math.floor(R / s)), n + 1)
    e = sorted(r.choice(np.arange(0, top + 1), size=n + 1, replace=False).tolist())
    return [float(v) * s for v in e]


def cases(tier, seed):
    reps = 1 if tier == "quick" else 10
    for rep in range(reps):
        arr = covering(dict(kind=_KINDS, gpts=_GPTS, ens=_ENS, lazy=[False, True], style=_STYLES,
                            rkind=["cutoff", "full"]), seed=seed * 1000 + rep, extra_random=6)
        for i, cov in enumerate(arr):
            r = rng_for(seed, "c12", rep, i)
            wave = _wave_case(r, cov)
            if wave["kind"] != "random":
                cov = dict(cov, rkind="cutoff")  # band-limited waves: nothing beyond the antialias cutoff
            # --- equal / add ---------------------------------------------------------------------
            e = _limits(r, wave, cov["style"], cov["rkind"], n=2)
            yield dict(clause="equal", wave=wave, inner=e[0], outer=e[2])
            yield dict(clause="add", wave=wave, edges=e)
            # --- seg -----------------------------------------------------------------------------
            e = _limits(r, wave, cov["style"], cov["rkind"], n=1)
            yield dict(clause="seg", wave=wave, inner=e[0], outer=e[1],
                       nbins_radial=int(r.choice([1, 2, 3, 5])), nbins_azimuthal=int(r.choice([1, 2, 3, 4, 7])),
                       rotation=float(r.choice([0.0, 0.3, -1.1, 3.0, 7.0])))
            # --- flex ----------------------------------------------------------------------------
            R = _range(wave, cov["rkind"])
            steps = [s for s in _STEPS if R / s >= 3]
            step = float(r.choice(steps)) if steps else round(R / 4, 3)
            mmax = int(math.floor(R / step))
            inner_k = int(r.integers(0, max(1, mmax - 2)))
            shift = float(r.choice([0.0, 0.0, round(float(r.uniform(0, step)), 2)]))
            if (inner_k + 3) * step + shift > R:
                shift = 0.0
            inner0 = round(inner_k * step + shift, 6)
            m = int(r.integers(2, max(3, int(math.floor((R - inner0) / step)) + 1)))
            m = max(1, min(m, int(math.floor((R - inner0) / step + 1e-9))))
            a = int(r.integers(0, m))
            b = int(r.integers(a + 1, m + 1))
            # the default outer angle is floor(min cutoff angle): only a valid detector if at least one bin fits below it
            default_outer = bool(r.random() < 0.2) and cov["rkind"] == "cutoff" and inner0 + step <= math.floor(R)
            yield dict(clause="flex", wave=wave, step=step, inner0=inner0, m=m, a=a, b=b, default_outer=default_outer)
        # the documented default (step 1, inner 0) and a hand-picked literal case per repetition
        r = rng_for(seed, "c12-fixed", rep)
        wave = dict(kind="random", gpts=[24, 24], extent=[round(float(r.uniform(20, 36)), 3)] * 2, energy=100e3,
                    ens="e3", lazy=False, seed=int(r.integers(1 << 30)))
        yield dict(clause="flex", wave=wave, step=1.0, inner0=0.0, m=0, a=0, b=3, default_outer=True)
        yield dict(clause="flex", wave=wave, step=0.5, inner0=1.0, m=5, a=0, b=5, default_outer=False)
        yield dict(clause="flex", wave=wave, step=0.5, inner0=0.0, m=6, a=1, b=6, default_outer=False)


# ---------------------------------------------------------------------------------------------
# building the waves


def build_waves(wave):
    import dask.array as da

    import abtem
    from abtem.core.axes import OrdinalAxis
    from abtem.waves import Waves

    from vlib.hx import tiny_atoms

    r = np.random.default_rng(wave["seed"])
    g, ext, en = tuple(wave["gpts"]), tuple(wave["extent"]), wave["energy"]
    if wave["kind"] == "random":
        es = {"none": (), "e3": (3,), "e2x3": (2, 3)}[wave["ens"]]
        arr = (r.normal(size=es + g) + 1j * r.normal(size=es + g)).astype(np.complex64)
        arr *= (1.0 + np.arange(int(np.prod(es, dtype=int))).reshape(es + (1, 1))).astype(np.float32)
        if wave["lazy"]:
            arr = da.from_array(arr, chunks=tuple(1 if i == 0 else -1 for i in range(len(es))) + (-1, -1))
        md = [OrdinalAxis(label=f"a{i}", values=tuple(range(n))) for i, n in enumerate(es)]
        return Waves(arr, energy=en, extent=ext, ensemble_axes_metadata=md)
    sa = _ang_sampling(wave)
    semiangle = 0.45 * min(g[0] // 2 * sa[0], g[1] // 2 * sa[1])
    probe = abtem.Probe(energy=en, semiangle_cutoff=semiangle, extent=ext, gpts=g,
                        defocus=np.array([0.0, 35.0]) if wave["ens"] == "scan" else 20.0)
    if wave["ens"] == "scan":
        scan = abtem.GridScan(start=(0.1 * ext[0], 0.2 * ext[1]), end=(0.7 * ext[0], 0.6 * ext[1]), gpts=(3, 2),
                              endpoint=False)
    elif wave["ens"] == "line":
        scan = abtem.LineScan(start=(0.1 * ext[0], 0.2 * ext[1]), end=(0.7 * ext[0], 0.6 * ext[1]), gpts=3)
    else:
        scan = abtem.CustomScan(np.array([[0.37 * ext[0], 0.52 * ext[1]]]))
    w = probe.build(scan, lazy=wave["lazy"])
    if wave["kind"] == "exit":
        atoms = tiny_atoms("si", size=1.0, height=4.0)
        atoms.set_cell([ext[0], ext[1], 4.0], scale_atoms=True)
        pot = abtem.Potential(atoms, gpts=g, slice_thickness=2.0, projection="infinite", parametrization="kirkland")
        w = w.multislice(pot)
    return w


def _np(x):
    arr = x.array
    if hasattr(arr, "compute"):
        arr = arr.compute(scheduler="synchronous")
    return np.asarray(arr)


def _band(I, alpha, lo_edge, hi_edge):
    """(lo, hi, ambiguous?) reference sums over pixels with lo_edge <= alpha < hi_edge."""
    amb = np.zeros(alpha.shape, bool)
    for e in (lo_edge, hi_edge):
        t = 1e-5 * (1.0 + abs(e))
        amb |= (np.abs(alpha - e) < t) & ~((alpha == 0.0) & (e == 0.0))
    core = (alpha >= lo_edge) & (alpha < hi_edge) & ~amb
    near = amb & (alpha >= lo_edge - 1e-3) & (alpha < hi_edge + 1e-3)
    lo = (I * core).sum((-2, -1))
    hi = (I * (core | near)).sum((-2, -1))
    return lo, hi, bool(near.any())


def _in_band(x, lo, hi, scale):
    x = np.asarray(x, float)
    if x.shape != lo.shape:
        return False, f"shape {x.shape} != {lo.shape}"
    tol = RTOL * max(scale, 1e-30)
    ok = bool(np.all(x >= lo - tol) and np.all(x <= hi + tol))
    dev = float(np.max(np.maximum(lo - x, x - hi)))
    return ok, f"value {x.ravel()[:4]} vs reference [{lo.ravel()[:4]}, {hi.ravel()[:4]}], worst excess {dev:.3e}, tol {tol:.3e}"


def _same(x, y, band_x_ok, band_y_ok, ambiguous, scale):
    ok, d = close(x, y, rtol=0.0, atol=RTOL * max(scale, 1e-30))
    if ok or not ambiguous:
        return ok, d
    return bool(band_x_ok and band_y_ok), d + " (edge pixel ambiguous: both compared with the reference band)"


def run_case(case):
    import warnings

    warnings.filterwarnings("ignore")
    from abtem.detectors import AnnularDetector, FlexibleAnnularDetector, SegmentedDetector

    wave = case["wave"]
    w = build_waves(wave)
    alpha = _alpha(wave["gpts"], wave["extent"], wave["energy"])
    full = w.diffraction_patterns(max_angle="full", parity="same", fftshift=False)
    I = _np(full).astype(np.float64)
    scale = float(I.sum((-2, -1)).max())
    out = []

    def annular(a, b):
        return _np(AnnularDetector(inner=a, outer=b).detect(w)).astype(np.float64)

    def ref(a, b):
        return _band(I, alpha, a, b)

    cl = case["clause"]
    if cl == "equal":
        a, b = case["inner"], case["outer"]
        lo, hi, amb = ref(a, b)
        nt = bool(np.any(hi > 1e-12 * scale))
        A = annular(a, b)
        okA, dA = _in_band(A, lo, hi, scale)
        out.append(Res("C12/AnnularDetector/equals-mask-sum-reference", okA, f"[{a},{b}) {dA}", nt))
        oks, det = [], []
        s = _ang_sampling(wave)
        fullmax = min(wave["gpts"][0] // 2 * s[0], wave["gpts"][1] // 2 * s[1])
        variants = [dict(max_angle="full", parity="same", fftshift=True), dict(max_angle="full", parity="same", fftshift=False)]
        if b <= min(w.cutoff_angles):
            variants += [dict(max_angle="cutoff", parity="odd", fftshift=True),
                         dict(max_angle="cutoff", parity="same", fftshift=False)]
        mid = 0.5 * (b + fullmax)
        variants += [dict(max_angle=float(mid), parity="odd", fftshift=True),
                     dict(max_angle=float(mid), parity="even", fftshift=False)]
        for v in variants:
            dp = w.diffraction_patterns(**v)
            if b > min(dp.max_angles) + 1e-9:
                continue  # requested range not contained in this crop: outside the statement
            X = _np(dp.integrate_radial(inner=a, outer=b)).astype(np.float64)
            okX, dX = _in_band(X, lo, hi, scale)
            ok, d = _same(X, A, okX, okA, amb, scale)
            oks.append(ok)
            if not ok:
                det.append(f"{v} shape {dp.shape}: {d}")
        out.append(Res("C12/integrate_radial/equals-annular", all(oks),
                       f"[{a},{b}) {len(oks)} pattern variants; " + " | ".join(det[:3]), nt and len(oks) > 0))

    elif cl == "add":
        e0, e1, e2 = case["edges"]
        A01, A12, A02 = annular(e0, e1), annular(e1, e2), annular(e0, e2)
        _, hi, amb = ref(e0, e2)
        nt = bool(np.any(hi > 1e-12 * scale))
        ok, d = close(A01 + A12, A02, rtol=0.0, atol=RTOL * max(scale, 1e-30))
        dpok, dpd = True, ""
        dp = w.diffraction_patterns(max_angle="full", parity="same")
        P = [_np(dp.integrate_radial(inner=x, outer=y)).astype(np.float64) for x, y in ((e0, e1), (e1, e2), (e0, e2))]
        dpok, dpd = close(P[0] + P[1], P[2], rtol=0.0, atol=RTOL * max(scale, 1e-30))
        out.append(Res("C12/AnnularDetector/additive-adjacent-ranges", ok and dpok,
                       f"edges {case['edges']}: detector {d}; integrate_radial {dpd}", nt))

    elif cl == "seg":
        a, b = case["inner"], case["outer"]
        lo, hi, amb = ref(a, b)
        nt = bool(np.any(hi > 1e-12 * scale))
        A = annular(a, b)
        okA, _ = _in_band(A, lo, hi, scale)
        det = SegmentedDetector(nbins_radial=case["nbins_radial"], nbins_azimuthal=case["nbins_azimuthal"], inner=a,
                                outer=b, rotation=case["rotation"])
        S = _np(det.detect(w)).astype(np.float64)
        shape_ok = S.shape[-2:] == (case["nbins_radial"], case["nbins_azimuthal"])
        Ssum = S.sum((-2, -1))
        okS, dS = _in_band(Ssum, lo, hi, scale)
        ok, d = _same(Ssum, A, okS, okA, amb, scale)
        out.append(Res("C12/SegmentedDetector/sum-of-segments-equals-annular", ok and shape_ok,
                       f"[{a},{b}) {case['nbins_radial']}x{case['nbins_azimuthal']} rot {case['rotation']}: "
                       f"segments shape {S.shape}; {d}; vs reference: {dS}", nt))

    elif cl == "flex":
        step, inner0 = case["step"], case["inner0"]
        outer0 = None if case["default_outer"] else round(inner0 + case["m"] * step, 6)
        det = FlexibleAnnularDetector(step_size=step, inner=inner0, outer=outer0)
        if case["default_outer"] and inner0 + step > math.floor(min(w.cutoff_angles)) + 1e-9:
            # the documented default outer angle, floor(min cutoff angle), leaves no room for a single bin above `inner`:
            # not a valid detector for these waves (abTEM raises "number of bins must be greater than zero")
            return [Res("C12/FlexibleAnnularDetector/bins-cover-stated-range", True,
                        f"precondition not met: inner {inner0} + step {step} exceeds the default outer angle "
                        f"{math.floor(min(w.cutoff_angles))}", False)]
        F = det.detect(w)
        Fa = _np(F).astype(np.float64)
        rad = F.axes_metadata[-2]
        nb = Fa.shape[-2]
        off, samp = float(rad.offset), float(rad.sampling)
        eff_outer = float(det.outer)
        # -- bins cover the stated range
        cover_ok = abs(off - inner0) < 1e-9 and abs(nb * samp - (eff_outer - inner0)) < 1e-6 * max(1.0, eff_outer) \
            if not case["default_outer"] else abs(off - inner0) < 1e-9 and (eff_outer - inner0) - nb * samp < samp + 1e-9 \
            and nb * samp <= (eff_outer - inner0) + 1e-9
        out.append(Res("C12/FlexibleAnnularDetector/bins-cover-stated-range", cover_ok,
                       f"step {step} inner {inner0} outer {outer0} (effective {eff_outer}): {nb} bins x stated width "
                       f"{samp} = {nb * samp} but outer-inner = {eff_outer - inner0}", True))
        # -- each bin holds the intensity between the edges its axis states
        bad, nts = [], False
        for k in range(nb):
            ea, eb = off + k * samp, off + (k + 1) * samp
            lo, hi, amb = ref(ea, eb)
            nts = nts or bool(np.any(hi > 1e-12 * scale))
            okk, dk = _in_band(Fa[..., k, 0], lo, hi, scale)
            if not okk:
                bad.append(f"bin {k} [{ea:.6g},{eb:.6g}): {dk}")
        out.append(Res("C12/FlexibleAnnularDetector/bin-content-matches-stated-edges", not bad,
                       f"step {step} inner {inner0} outer {outer0}: {nb} bins, stated offset {off} sampling {samp}; "
                       f"{len(bad)} bins differ: " + " | ".join(bad[:3]), nts))
        # -- integrate_radial(inner, outer) on the flexible measurement == annular detector
        if case["default_outer"]:
            bnd = min(case["b"], nb)
            a_, b_ = min(case["a"], bnd - 1), bnd
        else:
            a_, b_ = case["a"], case["b"]
        li, lo_ = round(inner0 + a_ * step, 6), round(inner0 + b_ * step, 6)
        lo, hi, amb = ref(li, lo_)
        nt = bool(np.any(hi > 1e-12 * scale))
        A = annular(li, lo_)
        okA, _ = _in_band(A, lo, hi, scale)
        X = _np(F.integrate_radial(li, lo_)).astype(np.float64)
        okX, dX = _in_band(X, lo, hi, scale)
        ok, d = _same(X, A, okX, okA, amb, scale)
        out.append(Res("C12/FlexibleAnnularDetector/integrate_radial-equals-annular", ok,
                       f"Flexible(step {step}, inner {inner0}, outer {outer0}) [{nb} bins].integrate_radial({li},{lo_}) "
                       f"vs AnnularDetector({li},{lo_}): {d}", nt))
    else:
        raise ValueError(f"unknown clause {cl}")
    return out
