"""C21 — the contrast transfer function implements the polar aberration expansion (bounded run-time contract).

Contract on abtem.transfer.Aberrations._evaluate_from_angular_grid, CTF._evaluate_from_angular_grid (no aperture, no
envelopes), BaseTransferFunction._evaluate_kernel and the _HasAberrations attribute protocol:

  T(alpha, phi) == exp(-2 pi i chi(alpha, phi) / lambda(E)),
  chi(alpha, phi) = sum_{n=1..5} alpha^(n+1)/(n+1) * sum_{m} C_nm cos(m (phi - phi_nm))      (Kirkland Eq. 2.22;
                    m runs over 0..n+1 with n+m odd: 14 magnitudes + 11 azimuths = 25 polar symbols)
  defocus == -C10 (both directions, every class that carries aberrations), every named alias reads and writes the
  same coefficient as its symbol, and T[phi_nm + delta for all nm](alpha, phi) == T(alpha, phi - delta).

Oracle: `_chi` below — an independent NumPy (float64) implementation of Eq. 2.22 evaluated on the explicit (alpha, phi)
samples handed to abTEM (or on the FFT-frequency grid rebuilt here with numpy.fft.fftfreq), and the wavelength from
the closed relativistic formula with ase.units constants. The alias table expected by the harness is the standard
nomenclature (defocus/Cs/C5, astigmatism*, coma*, trefoil*, quadrafoil*, pentafoil, hexafoil) written out by hand.
"""

import math

from vlib.hx import Res, rng_for

PROPERTY = "C21"

HARMONICS = [(n, m) for n in range(1, 6) for m in range(0, n + 2) if (n + m) % 2 == 1]
SYMBOLS = [f"C{n}{m}" for n, m in HARMONICS] + [f"phi{n}{m}" for n, m in HARMONICS if m]
ALIAS = {  # symbol -> alias (hand-written, independent of abtem.transfer.polar_aliases)
    "C10": "defocus", "C30": "Cs", "C50": "C5",
    "C12": "astigmatism", "phi12": "astigmatism_angle", "C32": "astigmatism3", "phi32": "astigmatism3_angle",
    "C52": "astigmatism5", "phi52": "astigmatism5_angle",
    "C21": "coma", "phi21": "coma_angle", "C41": "coma4", "phi41": "coma4_angle",
    "C23": "trefoil", "phi23": "trefoil_angle", "C43": "trefoil4", "phi43": "trefoil4_angle",
    "C34": "quadrafoil", "phi34": "quadrafoil_angle", "C54": "quadrafoil5", "phi54": "quadrafoil5_angle",
    "C45": "pentafoil", "phi45": "pentafoil_angle", "C56": "hexafoil", "phi56": "hexafoil_angle",
}
VIAS = ["symbol-kwarg", "symbol-dict", "symbol-setattr", "symbol-set_aberrations",
        "alias-kwarg", "alias-dict", "alias-setattr", "alias-set_aberrations"]
CLASSES = ["CTF", "Aberrations"]

RULE = ("(single) each of the 25 polar symbols alone (an azimuth symbol together with its magnitude) x all 8 ways of "
        "giving it (symbol/alias x kwarg/dict/setattr/set_aberrations) x class alternating CTF/Aberrations x sample "
        "dtype and abTEM precision alternating -- exhaustive on symbol x way; (combo) seeded random subsets of 2..14 "
        "harmonics incl. the full 25-symbol set, magnitudes scaled so each term contributes 1..25 rad of phase at the "
        "largest angle, random signs and azimuths in [-2pi, 2pi], with a seeded rotation delta; (grid) the same on "
        "_evaluate_kernel over gpts parities / non-square / anisotropic samplings, both precisions; (history) seeded "
        "sequences of 3..6 attribute writes through symbols, aliases and defocus incl. resetting to 0, evaluated "
        "after each write and after copy(); (ensemble) 1..2 coefficients (also defocus and azimuths) given as "
        "lists/arrays/distributions, every member compared. Non-trivial: the expected T differs from 1 by > 0.1 "
        "somewhere; distinct = distinct case dict")
BOUNDS = {"energy_eV": [2e4, 1e6], "alpha_rad": [0.0, 0.05], "phase_per_term_rad": [1.0, 25.0],
          "phi_nm_rad": [-2 * math.pi, 2 * math.pi], "delta_rad": [-math.pi, math.pi],
          "gpts": [5, 33], "sampling_A": [0.04, 0.3],
          "combo": {"quick": 90, "thorough": 2500}, "grid": {"quick": 64, "thorough": 1200},
          "history": {"quick": 40, "thorough": 800}, "ensemble": {"quick": 40, "thorough": 600},
          "single_repeats": {"quick": 1, "thorough": 6}}
EXHAUSTIVE = False
ASSUMPTIONS = ["float32 pipeline (abTEM default): |T - T_ref| <= 2e-6 * (1 + sum_nm (n+m+2) * phase_nm) where phase_nm is "
               "the largest phase contributed by harmonic (n, m); with precision float64 and float64 samples the bound "
               "is 1e-9 * (1 + ...) (observed: 2e-7 resp. 5e-17 times the weight)",
               "wavelength oracle h c / sqrt(E (E + 2 m c^2)) with ase.units CODATA floats (C24 checks it separately)",
               "explicit samples are handed to _evaluate_from_angular_grid exactly as CTF.profiles does "
               "(1-D alpha with 1-D / 0-d phi, or 2-D arrays); alpha in radians, alpha >= 0",
               "ensemble members are located through the object's own ensemble_axes_metadata (label, values)",
               "alias/defocus reads and writes are compared exactly (no arithmetic besides a sign flip is involved)"]
CONTRACTS = ["abtem/transfer.py:Aberrations._evaluate_from_angular_grid",
             "abtem/transfer.py:CTF._evaluate_from_angular_grid",
             "abtem/transfer.py:BaseTransferFunction._evaluate_kernel",
             "abtem/transfer.py:_HasAberrations.__getattr__", "abtem/transfer.py:_HasAberrations.__setattr__",
             "abtem/transfer.py:_HasAberrations.defocus", "abtem/transfer.py:_HasAberrations.set_aberrations",
             "abtem/transfer.py:polar_aliases", "abtem/transfer.py:polar_symbols"]


# ----------------------------------------------------------------------------------------------- oracle


def _wavelength(energy):
    from ase import units

    ej = energy * units._e
    return units._hplanck * units._c / math.sqrt(ej * (ej + 2 * units._me * units._c ** 2)) * 1e10


def _chi(np, p, alpha, phi):
    """Kirkland Eq. 2.22 in float64; p maps polar symbols to floats (missing = 0)."""
    alpha = np.asarray(alpha, dtype=np.float64)
    phi = np.asarray(phi, dtype=np.float64)
    out = np.zeros(np.broadcast(alpha, phi).shape)
    for n, m in HARMONICS:
        c = float(p.get(f"C{n}{m}", 0.0))
        ph = float(p.get(f"phi{n}{m}", 0.0)) if m else 0.0
        out = out + alpha ** (n + 1) / (n + 1) * c * np.cos(m * (phi - ph))
    return out


def _weight(p, lam, amax):
    w = 0.0
    for n, m in HARMONICS:
        c = abs(float(p.get(f"C{n}{m}", 0.0)))
        w += (n + m + 2) * 2 * math.pi / lam * c * amax ** (n + 1) / (n + 1)
    return w


def _tol(p, lam, amax, tight):
    return (1e-9 if tight else 2e-6) * (1.0 + _weight(p, lam, amax))


def _compare(np, got, ref, tol):
    got = np.asarray(got)
    if got.shape != ref.shape:
        return False, f"shape {got.shape} != expected {ref.shape}", True
    if not np.iscomplexobj(got):
        return False, f"result dtype {got.dtype} is not complex", True
    err = np.abs(got - ref)
    i = np.unravel_index(int(np.argmax(err)), err.shape) if err.ndim else ()
    nt = bool(np.abs(ref - 1).max() > 0.1) if ref.size else False
    return bool(err.max() <= tol), (f"max|T-T_ref|={float(err.max()):.3e} (tol {tol:.2e}) at {tuple(int(x) for x in i)}: "
                                    f"T={complex(got[i])!r} vs exp(-2 pi i chi/lambda)={complex(ref[i])!r}"), nt


# ------------------------------------------------------------------------------------------------ cases


def _magnitude(r, n, lam, amax, lo=1.0, hi=25.0):
    phase = float(r.uniform(lo, hi))
    sign = -1.0 if r.random() < 0.5 else 1.0
    return sign * phase * (n + 1) * lam / (2 * math.pi * amax ** (n + 1))


def _random_set(r, lam, amax, harmonics, share=1.0):
    p = {}
    for n, m in harmonics:
        p[f"C{n}{m}"] = float(_magnitude(r, n, lam, amax, 1.0, max(2.0, 25.0 * share)))
        if m:
            p[f"phi{n}{m}"] = float(r.uniform(-2 * math.pi, 2 * math.pi))
    return p


def _energy(r):
    return float(r.choice([20e3, 30e3, 60e3, 80e3, 100e3, 120e3, 200e3, 300e3, 1e6])) if r.random() < 0.5 \
        else float(10 ** r.uniform(math.log10(2e4), 6))


def _samples(r):
    return dict(n=int(r.integers(9, 40)), layout=str(r.choice(["1d", "1d-phi0d", "2d", "outer"])),
                amax=float(r.choice([0.01, 0.02, 0.03, 0.05])), sseed=int(r.integers(1 << 30)))


def cases(tier, seed):
    k = 0
    for rep in range(BOUNDS["single_repeats"][tier]):
        for s in SYMBOLS:
            for via in VIAS:
                r = rng_for(seed, "single", s, via, rep)
                energy = _energy(r)
                lam = _wavelength(energy)
                smp = _samples(r)
                n = int(s[-2])
                m = int(s[-1])
                p = {f"C{n}{m}": float(_magnitude(r, n, lam, smp["amax"], 3.0, 25.0))}
                if s.startswith("phi"):
                    p[s] = float(r.uniform(-2 * math.pi, 2 * math.pi))
                elif m and r.random() < 0.5:
                    p[f"phi{n}{m}"] = float(r.uniform(-2 * math.pi, 2 * math.pi))
                yield dict(kind="single", symbol=s, via=via, cls=CLASSES[k % 2], energy=energy, coeffs=p,
                           samples=smp, dtype=["float32", "float64"][(k // 2) % 2],
                           precision=["float32", "float64"][(k // 4) % 2], delta=float(r.uniform(-math.pi, math.pi)))
                k += 1

    for i in range(BOUNDS["combo"][tier]):
        r = rng_for(seed, "combo", i)
        energy = _energy(r)
        lam = _wavelength(energy)
        smp = _samples(r)
        nh = 14 if i % 6 == 0 else int(r.integers(2, 15))
        idx = sorted(int(x) for x in r.choice(len(HARMONICS), nh, replace=False))
        p = _random_set(r, lam, smp["amax"], [HARMONICS[j] for j in idx], share=3.0 / nh)
        if i % 5 == 1:  # azimuths of absent magnitudes are legal input and must not matter
            for n, m in HARMONICS:
                if m and f"C{n}{m}" not in p:
                    p[f"phi{n}{m}"] = float(r.uniform(-2 * math.pi, 2 * math.pi))
        if i % 7 == 2:  # integers are legal coefficient values
            key = sorted(k_ for k_ in p if k_.startswith("C"))[0]
            p[key] = int(round(p[key])) or 1
        yield dict(kind="combo", cls=CLASSES[i % 2], energy=energy, coeffs=p, samples=smp,
                   via=str(r.choice(["symbol-kwarg", "symbol-dict", "alias-kwarg", "alias-dict", "mixed"])),
                   dtype=["float32", "float64"][(i // 2) % 2], precision=["float32", "float64"][(i // 4) % 2],
                   delta=float(r.uniform(-math.pi, math.pi)))

    parities = [(a, b) for a in (0, 1) for b in (0, 1)]
    for i in range(BOUNDS["grid"][tier]):
        r = rng_for(seed, "grid", i)
        pa, pb = parities[i % 4]
        gx = int(r.integers(3, 17)) * 2 + pa
        gy = int(r.integers(3, 17)) * 2 + pb
        if (i // 4) % 4 == 0:
            gy = gx  # square grids too
        sx = float(r.uniform(0.04, 0.3))
        sy = sx if (i // 16) % 2 == 0 and r.random() < 0.5 else float(r.uniform(0.04, 0.3))
        energy = _energy(r)
        nh = 14 if i % 8 == 0 else int(r.integers(1, 15))
        idx = sorted(int(x) for x in r.choice(len(HARMONICS), nh, replace=False))
        yield dict(kind="grid", cls=CLASSES[(i // 4) % 2], energy=energy, gpts=[gx, gy], sampling=[sx, sy],
                   harmonics=idx, cseed=int(r.integers(1 << 30)), grid_via=str(r.choice(["sampling", "extent"])),
                   cutoff_frac=(float(r.uniform(0.4, 0.9)) if CLASSES[(i // 4) % 2] == "CTF" and (i // 16) % 2 == 1 else None),
                   soft=bool(i % 3 == 0),
                   precision=["float32", "float64"][(i // 8) % 2], delta=float(r.uniform(-math.pi, math.pi)))

    for i in range(BOUNDS["history"][tier]):
        r = rng_for(seed, "history", i)
        energy = _energy(r)
        lam = _wavelength(energy)
        smp = _samples(r)
        idx = sorted(int(x) for x in r.choice(len(HARMONICS), int(r.integers(0, 4)), replace=False))
        p0 = _random_set(r, lam, smp["amax"], [HARMONICS[j] for j in idx], share=0.3)
        steps = []
        for _ in range(int(r.integers(3, 7))):
            s = SYMBOLS[int(r.integers(len(SYMBOLS)))]
            n = int(s[-2])
            u = r.random()
            if u < 0.2:
                v = 0.0
            elif s.startswith("phi"):
                v = float(r.uniform(-2 * math.pi, 2 * math.pi))
            else:
                v = float(_magnitude(r, n, lam, smp["amax"], 1.0, 8.0))
            how = str(r.choice(["symbol", "alias", "set_aberrations-symbol", "set_aberrations-alias"]))
            steps.append([s, how, v])
        yield dict(kind="history", cls=CLASSES[i % 2], energy=energy, coeffs=p0, steps=steps, samples=smp,
                   dtype=["float32", "float64"][(i // 2) % 2], precision=["float32", "float64"][(i // 4) % 2])

    for i in range(BOUNDS["ensemble"][tier]):
        r = rng_for(seed, "ensemble", i)
        energy = _energy(r)
        lam = _wavelength(energy)
        smp = _samples(r)
        idx = sorted(int(x) for x in r.choice(len(HARMONICS), int(r.integers(1, 5)), replace=False))
        p = _random_set(r, lam, smp["amax"], [HARMONICS[j] for j in idx], share=0.3)
        keys = sorted(p)
        nax = 1 if i % 3 == 0 else 2
        nax = min(nax, len(keys))
        axes = []
        for key in [keys[int(j)] for j in r.choice(len(keys), nax, replace=False)]:
            nv = int(r.integers(2, 5))
            if key.startswith("phi"):
                vals = [float(v) for v in r.uniform(-math.pi, math.pi, nv)]
            else:
                vals = [float(p[key] * f) for f in r.uniform(-1.0, 1.5, nv)]
            axes.append(dict(symbol=key, values=vals, how=str(r.choice(["symbol", "alias"])),
                             container=str(r.choice(["list", "array", "from_values"]))))
        yield dict(kind="ensemble", cls=CLASSES[i % 2], energy=energy, coeffs=p, axes=axes, samples=smp,
                   dtype=["float32", "float64"][(i // 2) % 2], precision=["float32", "float64"][(i // 4) % 2])


# --------------------------------------------------------------------------------------------- building


def _make_samples(np, smp, dtype):
    r = np.random.default_rng(smp["sseed"])
    n, amax = smp["n"], smp["amax"]
    dt = np.float32 if dtype == "float32" else np.float64
    if smp["layout"] == "2d":
        alpha = r.uniform(0, amax, (n // 3 + 1, 5))
        phi = r.uniform(-np.pi, np.pi, alpha.shape)
        alpha[0, 0] = 0.0
        alpha[-1, -1] = amax
    elif smp["layout"] == "outer":
        alpha = np.linspace(0, amax, n // 2 + 2)[:, None] + np.zeros((1, 7))
        phi = np.zeros((n // 2 + 2, 1)) + np.linspace(-np.pi, np.pi, 7)[None, :]
    elif smp["layout"] == "1d-phi0d":
        alpha = np.linspace(0, amax, n)
        phi = np.array(float(r.uniform(-np.pi, np.pi)))
    else:
        alpha = r.uniform(0, amax, n)
        alpha[0] = 0.0
        alpha[-1] = amax
        phi = r.uniform(-np.pi, np.pi, n)
        phi[1] = np.pi
        phi[2] = -np.pi
    return alpha.astype(dt), phi.astype(dt)


def _cls(name):
    from abtem import transfer as T

    return getattr(T, name)


def _name_value(symbol, value, alias):
    """(attribute name, value to write) for addressing `symbol` through its alias or directly."""
    if not alias:
        return symbol, value
    name = ALIAS[symbol]
    return name, (-value if name == "defocus" else value)


def _build(cls, energy, p, via, extra=None, selector=None):
    """Create a transfer function whose coefficients are p, handing the symbols picked by `selector` through `via`
    and all remaining ones as plain symbol keyword arguments."""
    extra = dict(extra or {})
    chosen = {k: v for k, v in p.items() if selector is None or selector(k)}
    rest = {k: v for k, v in p.items() if k not in chosen}
    alias = via.startswith("alias")
    if via == "mixed":
        named = dict(_name_value(k, v, i % 2 == 0) for i, (k, v) in enumerate(sorted(chosen.items())))
        half = sorted(named)[::2]
        return cls(aberration_coefficients={k: named[k] for k in half}, energy=energy, **extra, **rest,
                   **{k: v for k, v in named.items() if k not in half})
    named = dict(_name_value(k, v, alias) for k, v in chosen.items())
    mode = via.split("-", 1)[1]
    if mode == "kwarg":
        return cls(energy=energy, **extra, **rest, **named)
    if mode == "dict":
        return cls(aberration_coefficients=named, energy=energy, **extra, **rest)
    obj = cls(energy=energy, **extra, **rest)
    if mode == "setattr":
        for k, v in named.items():
            setattr(obj, k, v)
    else:
        obj.set_aberrations(named)
    return obj


def _rotated(p, delta):
    q = dict(p)
    for n, m in HARMONICS:
        if m:
            q[f"phi{n}{m}"] = float(p.get(f"phi{n}{m}", 0.0)) + delta
    return q


def _read_checks(obj, p, out, nt=True):
    """alias/defocus read-back: every symbol and its alias return the coefficient that was written."""
    bad = []
    coeffs = obj.aberration_coefficients
    for s in SYMBOLS:
        want = p.get(s, 0.0)
        a = ALIAS[s]
        got_s = getattr(obj, s)
        got_d = coeffs[s]
        if a != "defocus":
            got_a = getattr(obj, a)
            if not (got_s == want and got_a == want and got_d == want):
                bad.append(f"{s}: wrote {want!r}, {s}->{got_s!r}, {a}->{got_a!r}, aberration_coefficients->{got_d!r}")
        elif not (got_s == want and got_d == want):
            bad.append(f"C10: wrote {want!r}, C10->{got_s!r}, aberration_coefficients->{got_d!r}")
    if set(coeffs) != set(SYMBOLS):
        bad.append(f"aberration_coefficients keys {sorted(coeffs)} != the 25 polar symbols")
    out.append(Res("C21/aliases/same-coefficient", not bad, "; ".join(bad[:4]) or "all 25 symbols/aliases agree", nt))
    d = obj.defocus
    want = -p.get("C10", 0.0)
    out.append(Res("C21/defocus/negative-C10", d == want and obj.C10 == -d,
                   f"defocus={d!r}, C10={obj.C10!r}, expected defocus {want!r}", p.get("C10", 0.0) != 0.0))


def _precision(name):
    import abtem

    return abtem.config.set({"precision": name})


# ------------------------------------------------------------------------------------------------ run


def run_case(case):
    import numpy as np

    with _precision(case["precision"]):
        return globals()["_run_" + case["kind"]](np, case)


def _eval_and_check(np, obj, p, alpha, phi, lam, amax, tight, out, name="C21/transfer-function/equals-polar-expansion",
                    note=""):
    got = obj._evaluate_from_angular_grid(alpha, phi)
    ref = np.exp(-2j * np.pi / lam * _chi(np, p, alpha, phi))
    ok, detail, nt = _compare(np, got, ref, _tol(p, lam, amax, tight))
    out.append(Res(name, ok, f"{note}{type(obj).__name__} E={obj.energy!r} coefficients={p}: {detail}", nt))
    return got


def _rotation_check(np, cls, case, p, alpha, phi, lam, amax, tight, out, extra=None, grid=False):
    delta = case["delta"]
    q = _rotated(p, delta)
    rot = _build(cls, case["energy"], q, "symbol-kwarg", extra)
    base = _build(cls, case["energy"], p, "symbol-kwarg", extra)
    tol = 2 * _tol(p, lam, amax, tight)
    if grid:
        # on a fixed grid the azimuths cannot be shifted: compare the rotated-coefficient kernel with the oracle at phi-delta
        got = rot._evaluate_kernel()
        ref = np.exp(-2j * np.pi / lam * _chi(np, p, alpha, phi - delta))
        ok, detail, nt = _compare(np, got, ref, tol)
        out.append(Res("C21/rotation/azimuth-shift", ok, f"delta={delta!r}, grid kernel with phi_nm+delta vs chi(alpha, phi-delta): {detail}", nt))
        return
    dt = alpha.dtype
    phis = (np.asarray(phi, dtype=np.float64) - delta).astype(dt)
    a = np.asarray(rot._evaluate_from_angular_grid(alpha, phi))
    b = np.asarray(base._evaluate_from_angular_grid(alpha, phis))
    ref = np.exp(-2j * np.pi / lam * _chi(np, p, alpha, np.asarray(phi, dtype=np.float64) - delta))
    ok1, d1, nt = _compare(np, a, ref, tol)
    ok2 = a.shape == b.shape and bool(np.abs(a - b).max() <= 2 * tol)
    out.append(Res("C21/rotation/azimuth-shift", ok1 and ok2,
                   f"delta={delta!r}: T[phi_nm+delta](phi) vs oracle at phi-delta: {d1}; vs T[phi_nm](phi-delta): "
                   f"max diff {float(np.abs(a - b).max()) if a.shape == b.shape else 'shape mismatch'}; coefficients={p}", nt))


def _run_single(np, case):
    out = []
    cls = _cls(case["cls"])
    p, s, via = case["coeffs"], case["symbol"], case["via"]
    lam = _wavelength(case["energy"])
    amax = case["samples"]["amax"]
    tight = case["precision"] == "float64" and case["dtype"] == "float64"
    alpha, phi = _make_samples(np, case["samples"], case["dtype"])
    obj = _build(cls, case["energy"], p, via, selector=lambda k: k == s)
    _read_checks(obj, p, out)
    _eval_and_check(np, obj, p, alpha, phi, lam, amax, tight, out, note=f"[{s} via {via}] ")
    # the symbol must matter: the same object with this one symbol reset differs from the reference for it
    if s.startswith("C"):
        # write through the other name than the one used to set it
        name, val = _name_value(s, 0.0, not via.startswith("alias"))
        setattr(obj, name, val)
        p2 = {k: (0.0 if k == s else v) for k, v in p.items()}
        _read_checks(obj, p2, out, nt=False)
        _eval_and_check(np, obj, p2, alpha, phi, lam, amax, tight, out, note=f"[{s} reset through {name}] ")
    _rotation_check(np, cls, case, p, alpha, phi, lam, amax, tight, out)
    return out


def _run_combo(np, case):
    out = []
    cls = _cls(case["cls"])
    p = case["coeffs"]
    lam = _wavelength(case["energy"])
    amax = case["samples"]["amax"]
    tight = case["precision"] == "float64" and case["dtype"] == "float64"
    alpha, phi = _make_samples(np, case["samples"], case["dtype"])
    obj = _build(cls, case["energy"], p, case["via"])
    _read_checks(obj, p, out)
    _eval_and_check(np, obj, p, alpha, phi, lam, amax, tight, out, note=f"[via {case['via']}] ")
    _rotation_check(np, cls, case, p, alpha, phi, lam, amax, tight, out)
    return out


def _run_grid(np, case):
    out = []
    cls = _cls(case["cls"])
    gpts, samp = tuple(case["gpts"]), tuple(case["sampling"])
    lam = _wavelength(case["energy"])
    kx = np.fft.fftfreq(gpts[0], samp[0])
    ky = np.fft.fftfreq(gpts[1], samp[1])
    if case["precision"] == "float32":  # abTEM builds the frequency grid in its working precision
        kx, ky = kx.astype(np.float32).astype(np.float64), ky.astype(np.float32).astype(np.float64)
    alpha = np.sqrt(kx[:, None] ** 2 + ky[None, :] ** 2) * lam
    phi = np.arctan2(ky[None, :], kx[:, None]) + np.zeros_like(alpha)
    amax = float(alpha.max())
    r = np.random.default_rng(case["cseed"])
    hs = [HARMONICS[j] for j in case["harmonics"]]
    p = _random_set(r, lam, amax, hs, share=3.0 / len(hs))
    grid = dict(gpts=gpts, sampling=samp) if case["grid_via"] == "sampling" else \
        dict(gpts=gpts, extent=(gpts[0] * samp[0], gpts[1] * samp[1]))
    extra = dict(grid)
    inside = np.ones(alpha.shape, bool)
    if case.get("cutoff_frac"):
        # a CTF with an objective aperture: inside the aperture (where it transmits fully) the phase is still the expansion
        px = max(lam / (gpts[0] * samp[0]), lam / (gpts[1] * samp[1]))
        cutoff = case["cutoff_frac"] * min(lam / (gpts[0] * samp[0]) * (gpts[0] // 2), lam / (gpts[1] * samp[1]) * (gpts[1] // 2))
        extra.update(semiangle_cutoff=cutoff * 1e3, soft=case["soft"])
        inside = alpha <= cutoff - 0.51 * px
    obj = _build(cls, case["energy"], p, "symbol-dict", extra=extra)
    got = obj._evaluate_kernel()
    ref = np.exp(-2j * np.pi / lam * _chi(np, p, alpha, phi))
    tight = case["precision"] == "float64"
    if np.asarray(got).shape == ref.shape:
        got = np.where(inside, np.asarray(got), ref)  # pixels outside / on the edge of the aperture are C23's business
    ok, detail, nt = _compare(np, got, ref, _tol(p, lam, amax, tight))
    out.append(Res("C21/kernel-on-grid/equals-polar-expansion", ok,
                   f"{case['cls']} gpts={gpts} sampling={samp} E={case['energy']!r} aperture={extra.get('semiangle_cutoff')} "
                   f"({int(inside.sum())} of {inside.size} pixels compared) coefficients={p}: {detail}", nt and int(inside.sum()) > 1))
    z = complex(np.asarray(got)[0, 0])
    out.append(Res("C21/kernel-on-grid/unit-at-zero-frequency", abs(z - 1) <= 1e-6, f"T(alpha=0)={z!r}", True))
    _rotation_check(np, cls, case, p, alpha, phi, lam, amax, tight, out, extra=grid, grid=True)
    return out


def _run_history(np, case):
    out = []
    cls = _cls(case["cls"])
    p = dict(case["coeffs"])
    lam = _wavelength(case["energy"])
    amax = case["samples"]["amax"]
    tight = case["precision"] == "float64" and case["dtype"] == "float64"
    alpha, phi = _make_samples(np, case["samples"], case["dtype"])
    obj = _build(cls, case["energy"], p, "symbol-kwarg")
    _eval_and_check(np, obj, p, alpha, phi, lam, amax, tight, out, note="[initial] ")
    for k, (s, how, v) in enumerate(case["steps"]):
        name, val = _name_value(s, v, how.endswith("alias"))
        if how.startswith("set_aberrations"):
            obj.set_aberrations({name: val})
        else:
            setattr(obj, name, val)
        p[s] = v
        _read_checks(obj, p, out)
        _eval_and_check(np, obj, p, alpha, phi, lam, amax, tight, out, note=f"[after step {k}: {name}={val!r}] ")
    cp = obj.copy()
    _read_checks(cp, p, out)
    _eval_and_check(np, cp, p, alpha, phi, lam, amax, tight, out, note="[copy()] ")
    return out


def _run_ensemble(np, case):
    import itertools

    from abtem.distributions import from_values

    out = []
    cls = _cls(case["cls"])
    p = dict(case["coeffs"])
    lam = _wavelength(case["energy"])
    amax = case["samples"]["amax"]
    tight = case["precision"] == "float64" and case["dtype"] == "float64"
    alpha, phi = _make_samples(np, case["samples"], case["dtype"])
    kwargs = {k: v for k, v in p.items() if k not in {a["symbol"] for a in case["axes"]}}
    expected_axes = {}
    for ax in case["axes"]:
        name, _ = _name_value(ax["symbol"], 0.0, ax["how"] == "alias")
        vals = [(-v if name == "defocus" else v) for v in ax["values"]]
        kwargs[name] = vals if ax["container"] == "list" else (np.array(vals) if ax["container"] == "array" else from_values(vals))
        expected_axes[ax["symbol"]] = list(ax["values"])
    obj = cls(energy=case["energy"], **kwargs)
    meta = obj.ensemble_axes_metadata
    labels = [a.label for a in meta]
    values = [[float(v) for v in a.values] for a in meta]
    ok_axes = sorted(labels) == sorted(expected_axes) and all(
        np.allclose(values[i], expected_axes[lab], rtol=1e-6, atol=0) for i, lab in enumerate(labels) if lab in expected_axes)
    out.append(Res("C21/ensemble/axes-name-the-coefficients", ok_axes,
                   f"ensemble axes {list(zip(labels, values))} vs coefficients given {expected_axes}", True))
    if not ok_axes:
        return out
    got = np.asarray(obj._evaluate_from_angular_grid(alpha, phi))
    base_shape = np.broadcast(alpha, phi).shape
    want_shape = tuple(len(v) for v in values) + base_shape
    if got.shape != want_shape:
        out.append(Res("C21/ensemble/members-equal-polar-expansion", False, f"shape {got.shape} != {want_shape}", True))
        return out
    worst, wdetail, okall, ntall = -1.0, "", True, False
    for index in itertools.product(*[range(len(v)) for v in values]):
        q = dict(p)
        for ax, i in enumerate(index):
            q[labels[ax]] = values[ax][i]
        ref = np.exp(-2j * np.pi / lam * _chi(np, q, alpha, phi))
        ok, detail, nt = _compare(np, got[index], ref, _tol(q, lam, amax, tight))
        okall, ntall = okall and ok, ntall or nt
        e = float(np.abs(got[index] - ref).max())
        if e > worst:
            worst, wdetail = e, f"member {index} coefficients={q}: {detail}"
    out.append(Res("C21/ensemble/members-equal-polar-expansion", okall,
                   f"{case['cls']} axes {labels} x {values}: worst {wdetail}", ntall))
    return out
