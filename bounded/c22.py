"""C22 — Cartesian <-> polar aberration conversions describe the same aberration (bounded run-time contract).

Contract on abtem.transfer.polar2cartesian / cartesian2polar:
  for every polar coefficient set p over {C10, C12, phi12, C21, phi21, C23, phi23, C30, C32, phi32, C34, phi34}
  and q = cartesian2polar(polar2cartesian(p)):
      chi_q(alpha, phi) == chi_p(alpha, phi)   for every alpha, phi
  which, because the harmonics (n, m) are linearly independent, is checked harmonic by harmonic
      q.C_nm cos(m (phi - q.phi_nm)) == p.C_nm cos(m (phi - p.phi_nm))        (so a small term is not masked by a
  large one) and on the total chi, and finally on the real transfer function: Aberrations(q) == Aberrations(p)
  on explicit (alpha, phi) samples.

Oracle: an independent NumPy implementation of Kirkland's Eq. 2.22 restricted to the supported harmonics; the round
trip law itself is the statement. Only the round trip is demanded (the statement does not fix a Cartesian convention).
"""

import math

from vlib.hx import Res, rng_for

PROPERTY = "C22"
HARMONICS = [(1, 0), (1, 2), (2, 1), (2, 3), (3, 0), (3, 2), (3, 4)]
SUPPORTED = ["C10", "C12", "phi12", "C21", "phi21", "C23", "phi23", "C30", "C32", "phi32", "C34", "phi34"]
_SPECIAL = [0.0, math.pi / 8, math.pi / 6, math.pi / 4, math.pi / 3, math.pi / 2, 3 * math.pi / 4, math.pi,
            -math.pi / 8, -math.pi / 6, -math.pi / 4, -math.pi / 3, -math.pi / 2, -3 * math.pi / 4, -math.pi,
            2 * math.pi, -2 * math.pi, 1e-9, -1e-9]

RULE = ("(a) every supported harmonic alone x sign of C in {+,-} x every special azimuth (multiples of pi/8, pi/6, "
        "+-pi, +-2pi, +-1e-9) -- exhaustive; (b) every harmonic alone with seeded magnitude (log-uniform 1e-3..1e7 A, "
        "both signs) and azimuth uniform in [-4pi, 4pi]; (c) all 12 coefficients at once, seeded; (d) seeded subsets of "
        "keys (missing keys, explicit zeros, C == 0 with phi != 0, Python ints); evaluation on alpha in [0, 60 mrad] x "
        "phi on a 96-point circle + seeded samples. A case is non-trivial when some magnitude is non-zero; distinct = "
        "distinct coefficient dict")
BOUNDS = {"harmonics": [f"C{n}{m}" for n, m in HARMONICS], "magnitude_A": [1e-3, 1e7], "phi_rad": [-4 * math.pi, 4 * math.pi],
          "alpha_rad": [0.0, 0.06], "random_single": {"quick": 12, "thorough": 150},
          "random_full": {"quick": 60, "thorough": 1500}, "random_subset": {"quick": 60, "thorough": 1500}}
EXHAUSTIVE = False
ASSUMPTIONS = ["float64 round trip: per-harmonic difference <= 1e-11 * |C_nm|; total chi difference <= 1e-11 * "
               "sum_nm |C_nm| alpha^(n+1)/(n+1)",
               "transfer-function comparison in abTEM's default float32: |T_q - T_p| <= 2e-5 * (1 + max phase), with "
               "magnitudes rescaled so that the largest phase is <= ~40 rad",
               "energy fixed per case (seeded from 30..300 keV); the conversion itself is energy independent"]
CONTRACTS = ["abtem/transfer.py:polar2cartesian", "abtem/transfer.py:cartesian2polar",
             "abtem/transfer.py:Aberrations._evaluate_from_angular_grid"]


def _mag(r):
    return float(10 ** r.uniform(-3, 7)) * (1 if r.random() < 0.5 else -1)


def cases(tier, seed):
    for n, m in HARMONICS:
        if m == 0:
            for c in (1.0, -1.0, 0.0, 1234.5, -2.5e6):
                yield dict(group="single-special", polar={f"C{n}{m}": c})
            continue
        for sgn in (1.0, -1.0):
            for k, ph in enumerate(_SPECIAL):
                yield dict(group="single-special", polar={f"C{n}{m}": sgn * (3.0 + k), f"phi{n}{m}": ph})
        yield dict(group="single-special", polar={f"C{n}{m}": 0.0, f"phi{n}{m}": 0.7})
        yield dict(group="single-special", polar={f"C{n}{m}": 2.0})          # angle key missing
        yield dict(group="single-special", polar={f"phi{n}{m}": -1.1})       # magnitude key missing
    for n, m in HARMONICS:
        for i in range(BOUNDS["random_single"][tier]):
            r = rng_for(seed, "single", n, m, i)
            p = {f"C{n}{m}": _mag(r)}
            if m:
                p[f"phi{n}{m}"] = float(r.uniform(-4 * math.pi, 4 * math.pi))
            yield dict(group="single-random", polar=p)
    for i in range(BOUNDS["random_full"][tier]):
        r = rng_for(seed, "full", i)
        p = {}
        for n, m in HARMONICS:
            p[f"C{n}{m}"] = _mag(r)
            if m:
                p[f"phi{n}{m}"] = float(r.uniform(-4 * math.pi, 4 * math.pi))
        yield dict(group="full", polar=p)
    for i in range(BOUNDS["random_subset"][tier]):
        r = rng_for(seed, "subset", i)
        p = {}
        for key in SUPPORTED:
            u = r.random()
            if u < 0.35:
                continue
            if key.startswith("phi"):
                p[key] = float(r.uniform(-4 * math.pi, 4 * math.pi)) if u < 0.9 else float(_SPECIAL[int(r.integers(len(_SPECIAL)))])
            elif u < 0.45:
                p[key] = 0.0
            elif u < 0.6:
                p[key] = int(r.integers(-2000, 2000))
            else:
                p[key] = _mag(r)
        yield dict(group="subset", polar=p)


def _term(np, p, n, m, phi):
    c = float(p.get(f"C{n}{m}", 0.0))
    ph = float(p.get(f"phi{n}{m}", 0.0)) if m else 0.0
    return c * np.cos(m * (phi - ph))


def _chi(np, p, alpha, phi):
    out = np.zeros(np.broadcast(alpha, phi).shape)
    for n, m in HARMONICS:
        out = out + alpha ** (n + 1) / (n + 1) * _term(np, p, n, m, phi)
    return out


def run_case(case):
    import numpy as np

    from abtem.core.energy import energy2wavelength
    from abtem.transfer import Aberrations, cartesian2polar, polar2cartesian

    p = dict(case["polar"])
    before = dict(p)
    cart = polar2cartesian(p)
    q = cartesian2polar(cart)
    out = []
    nt = any(float(p.get(f"C{n}{m}", 0.0)) != 0.0 for n, m in HARMONICS)

    r = rng_for(0, "c22-angles", sorted(p.items()))
    phi = np.concatenate([np.linspace(-np.pi, np.pi, 96, endpoint=False), r.uniform(-np.pi, np.pi, 32)])
    alpha = np.concatenate([np.linspace(0.0, 0.06, 7), r.uniform(0, 0.06, 9)])

    # the round trip returns polar coefficients for exactly the supported symbols, all finite
    keys_ok = set(q) == set(SUPPORTED) and all(np.isfinite(float(v)) for v in q.values())
    out.append(Res("C22/roundtrip/keys-finite", keys_ok and p == before,
                   f"keys {sorted(q)} values {[float(v) for v in q.values()]}; input dict after call {p} (was {before})",
                   nt))

    # harmonic by harmonic
    worst, wdetail = 0.0, ""
    ok = True
    for n, m in HARMONICS:
        a = _term(np, p, n, m, phi)
        b = _term(np, q, n, m, phi)
        c = abs(float(p.get(f"C{n}{m}", 0.0)))
        err = float(np.abs(a - b).max())
        if err > 1e-11 * c:
            ok = False
        rel = err / c if c else (0.0 if err == 0 else math.inf)
        if rel >= worst:
            i = int(np.argmax(np.abs(a - b)))
            worst = rel
            wdetail = (f"harmonic C{n}{m}: original (C={p.get(f'C{n}{m}', 0.0)!r}, phi={p.get(f'phi{n}{m}', 0.0)!r}) -> "
                       f"cartesian {({k: float(v) for k, v in cart.items() if k.startswith(f'C{n}{m}')})} -> "
                       f"(C={float(q[f'C{n}{m}'])!r}, phi={float(q.get(f'phi{n}{m}', 0.0))!r}); at phi={float(phi[i])!r} "
                       f"term {float(b[i])!r} vs {float(a[i])!r}; max err/|C| = {rel:.2e}")
    out.append(Res("C22/roundtrip/harmonic-equal", ok, wdetail, nt))

    # total chi on the (alpha, phi) grid
    A, P = alpha[:, None], phi[None, :]
    chi_p, chi_q = _chi(np, p, A, P), _chi(np, q, A, P)
    scale = sum(abs(float(p.get(f"C{n}{m}", 0.0))) * A ** (n + 1) / (n + 1) for n, m in HARMONICS) + 0 * P
    diff = np.abs(chi_p - chi_q)
    okc = bool(np.all(diff <= 1e-11 * scale + 1e-300))
    i = np.unravel_index(int(np.argmax(diff - 1e-11 * scale)), diff.shape)
    out.append(Res("C22/roundtrip/chi-equal", okc,
                   f"alpha={float(alpha[i[0]])!r}, phi={float(phi[i[1]])!r}: chi_roundtrip={float(chi_q[i])!r} vs "
                   f"chi_original={float(chi_p[i])!r} (term scale {float(scale[i]):.3e}); p={p}, q="
                   f"{({k: float(v) for k, v in q.items()})}", nt))

    # the same statement on the real transfer function (float32): rescale so that phases stay moderate
    energy = float(r.choice([30e3, 60e3, 80e3, 100e3, 200e3, 300e3]))
    lam = energy2wavelength(energy)
    amax = 0.03
    ps = {}
    for n, m in HARMONICS:
        c = float(p.get(f"C{n}{m}", 0.0))
        ph_max = 2 * np.pi / lam * abs(c) * amax ** (n + 1) / (n + 1)
        f = 1.0 if ph_max <= 6.0 else 6.0 / ph_max
        ps[f"C{n}{m}"] = c * f
        if m:
            ps[f"phi{n}{m}"] = float(p.get(f"phi{n}{m}", 0.0))
    qs = cartesian2polar(polar2cartesian(ps))
    a1 = r.uniform(0, amax, 48)
    p1 = r.uniform(-np.pi, np.pi, 48)
    tp = Aberrations(aberration_coefficients=ps, energy=energy)._evaluate_from_angular_grid(a1, p1)
    tq = Aberrations(aberration_coefficients={k: float(v) for k, v in qs.items()}, energy=energy)._evaluate_from_angular_grid(a1, p1)
    ref = np.exp(-2j * np.pi / lam * _chi(np, ps, a1, p1))
    tp, tq = np.asarray(tp), np.asarray(tq)
    tol = 2e-5 * (1 + 42.0)
    e1 = float(np.abs(tq - tp).max()) if tq.shape == tp.shape else math.inf
    e2 = float(np.abs(tq - ref).max()) if tq.shape == ref.shape else math.inf
    nts = any(v != 0.0 for k, v in ps.items() if k.startswith("C"))
    out.append(Res("C22/roundtrip/transfer-function-equal", e1 <= tol and e2 <= tol,
                   f"E={energy}: max|T(roundtrip)-T(original)|={e1:.3e}, max|T(roundtrip)-exp(-2 pi i chi/lambda)|={e2:.3e} "
                   f"(tol {tol:.1e}); scaled p={ps}", nts))
    return out
