"""C20 — scan positions have the geometry their parameters describe (bounded stand-in: run-time contract).

Contracts (post-conditions, evaluated on the real objects):
  LineScan / GridScan (after construction *and* after any sequence of property assignments / match_probe / add_margin):
    count      get_positions() has exactly `gpts` positions (shape (gpts, 2) resp. (gx, gy, 2)); len()/shape agree
    spacing    position i == start + i * sampling * direction   (sampling = the value the scan reports)
    endpoint   last position == end when endpoint is set, == end - one step otherwise
    axes       ensemble_axes_metadata lists the same coordinates (GridScan: x and y coordinates;
               LineScan: the distance r of each position from the start point)
    parameters start / end / endpoint are the values passed in (last assignment wins)
    gpts-honoured  a scan given `gpts` (and nothing that re-derives gpts afterwards) reports and yields that many positions
  LineScan.at_position: the line is centred at `center`, has length `extent` and points along `angle`.
  Probe.build(scan): the probe at position r == the probe built at the origin, shifted periodically by r
    shift-fourier   oracle = NumPy float64 DFT shift theorem applied to the origin probe, r taken from the scan *parameters*
    shift-roll      for positions on the pixel grid: oracle = np.roll of the origin probe (exact periodic shift)
    axes            the built Waves carry the same scan coordinates in their ensemble axes metadata
Oracle: the statement's own arithmetic in float64 / NumPy; abTEM is only used to produce the objects under test.
"""

import math

import numpy as np

from vlib.hx import Res, covering, rng_for

PROPERTY = "C20"
RULE = ("seeded start/end points (both signs, descending lines), gpts 1..9 or sampling (dividing and non-dividing the "
        "extent), endpoint flags exhaustively (per axis for GridScan), construction histories {direct, property "
        "assignments in random order, match_probe with open end / open sampling, add_margin, at_position}; probes: "
        "covering array over (grid parity/shape, aberrations, scan kind, positions on/off the pixel grid and outside the "
        "cell, lazy/max_batch). non-trivial = more than one position or a non-zero shift; distinct = distinct case dict")
BOUNDS = {"coordinates_A": [-12, 25], "gpts": [1, 9], "grid_gpts": [1, 6],
          "probe_grids": [[16, 16], [15, 15], [15, 20], [24, 9], [18, 32]],
          "cases": {"quick": {"line": 400, "grid": 400, "match_probe": 72, "at_position": 48, "probe": "covering x 2 + 40"},
                    "thorough": {"line": 4000, "grid": 4000, "match_probe": 480, "at_position": 400, "probe": "covering x 10 + 600"}}}
EXHAUSTIVE = False
ASSUMPTIONS = [
    "positions are float32 in abTEM: coordinates compared with atol 2e-5 * max(1, largest |coordinate|)",
    "probe arrays: max abs deviation <= 5e-5 * max|psi| (float32 FFT + float32 phase ramp) counts as equal",
    "probe-forming aperture kept below 0.6 x the grid's Nyquist angle, so a fractional shift is unambiguous",
    "gpts == 1 with endpoint=True has no distinct end point: the endpoint clause is vacuous there",
]
CONTRACTS = ["abtem/scan.py:LineScan.get_positions", "abtem/scan.py:LineScan._adjust_gpts",
             "abtem/scan.py:LineScan._adjust_sampling", "abtem/scan.py:LineScan.ensemble_axes_metadata",
             "abtem/scan.py:LineScan.at_position", "abtem/scan.py:GridScan.get_positions",
             "abtem/scan.py:GridScan.ensemble_axes_metadata", "abtem/scan.py:GridScan._partition_args",
             "abtem/scan.py:LineScan._partition_args", "abtem/scan.py:BaseScan._evaluate_kernel",
             "abtem/core/fft.py:fft_shift_kernel", "abtem/waves.py:Probe.build"]

PROBE_GRIDS = [((16, 16), (8.0, 8.0)), ((15, 15), (6.0, 6.0)), ((15, 20), (6.0, 9.0)), ((24, 9), (9.6, 4.5)),
               ((18, 32), (7.2, 9.6))]
LAZY = [[False, "auto"], [True, "auto"], [True, 1], [True, 2], [True, 3]]


def _wavelength(energy):
    h, m, e, c = 6.62607015e-34, 9.1093837015e-31, 1.602176634e-19, 299792458.0
    return h / math.sqrt(2 * m * e * energy * (1 + e * energy / (2 * m * c * c))) * 1e10


def _pt(r, lo=-12.0, hi=25.0):
    return [float(r.uniform(lo, hi)), float(r.uniform(lo, hi))]


def _line_case(r, k):
    start = _pt(r)
    mode = k % 6
    if mode == 0:  # axis-parallel lines (one zero direction component), either orientation
        end = [start[0], start[1] + float(r.uniform(0.5, 15)) * (1 if r.random() < 0.5 else -1)]
        if r.random() < 0.5:
            end = [start[0] + float(r.uniform(0.5, 15)) * (1 if r.random() < 0.5 else -1), start[1]]
    else:
        end = _pt(r)
    ext = math.dist(start, end)
    if r.random() < 0.5:
        spec = {"gpts": int(r.integers(1, 10))}
    else:
        n = int(r.integers(1, 9))
        spec = {"sampling": ext / n if r.random() < 0.5 else float(ext / n * r.uniform(0.6, 1.4))}
    case = dict(family="line", ctor="direct", start=start, end=end, spec=spec, endpoint=bool(k % 2), history=[])
    h = int(r.integers(0, 6))
    if h == 1:
        case["history"] = [["end", _pt(r)]]
    elif h == 2:
        case["history"] = [["start", _pt(r)], ["gpts", int(r.integers(1, 10))]]
    elif h == 3:
        ops = [["gpts", int(r.integers(2, 10))], ["sampling", float(r.uniform(0.3, 3.0))], ["end", _pt(r)], ["start", _pt(r)]]
        order = r.permutation(len(ops))[: int(r.integers(2, 5))]
        case["history"] = [ops[i] for i in order]
    elif h == 4:
        case["history"] = [["add_margin", [float(r.uniform(0, 3)), float(r.uniform(0, 3))]]]
    return case


def _grid_case(r, k):
    start = _pt(r)
    end = [start[0] + float(r.uniform(0.4, 15)), start[1] + float(r.uniform(0.4, 15))]
    ep = [[False, False], [True, True], [True, False], [False, True], False, True][k % 6]
    ext = [end[0] - start[0], end[1] - start[1]]
    m = int(r.integers(0, 4))
    if m == 0:
        spec = {"gpts": [int(r.integers(1, 7)), int(r.integers(1, 7))]}
    elif m == 1:
        spec = {"gpts": int(r.integers(1, 7))}
    elif m == 2:
        spec = {"sampling": [ext[0] / int(r.integers(1, 6)), float(ext[1] / r.uniform(1.2, 5.5))]}
    else:
        spec = {"sampling": float(min(ext) / r.uniform(1.0, 5.0))}
    case = dict(family="grid", ctor="direct", start=start, end=end, spec=spec, endpoint=ep, history=[])
    h = int(r.integers(0, 6))
    e2 = [start[0] + float(r.uniform(0.4, 15)), start[1] + float(r.uniform(0.4, 15))]
    if h == 1:
        case["history"] = [["end", e2]]
    elif h == 2:
        case["history"] = [["gpts", [int(r.integers(1, 7)), int(r.integers(1, 7))]]]
    elif h == 3:
        case["history"] = [["sampling", [float(r.uniform(0.2, 2.0)), float(r.uniform(0.2, 2.0))]], ["end", e2]]
    elif h == 4:
        s2 = [start[0] - float(r.uniform(0.1, 5)), start[1] - float(r.uniform(0.1, 5))]
        case["history"] = [["start", s2], ["gpts", [int(r.integers(1, 7)), int(r.integers(2, 7))]]]
    return case


def _match_case(r, k, fam):
    gpts, extent = PROBE_GRIDS[k % len(PROBE_GRIDS)]
    c = dict(family=fam, ctor="match_probe", probe_extent=list(extent), probe_gpts=list(gpts),
             energy=float(r.uniform(6e4, 3e5)), cutoff=float(r.uniform(10, 30)), history=[])
    c["start"] = None if r.random() < 0.3 else [float(r.uniform(0, extent[0] / 3)), float(r.uniform(0, extent[1] / 3))]
    c["end"] = None
    if fam == "line":
        c["spec"] = [{}, {"gpts": int(r.integers(2, 9))}, {"sampling": float(r.uniform(0.2, 1.0))}][k % 3]
        c["endpoint"] = bool((k // 3) % 2)
    else:
        c["spec"] = [{}, {"gpts": [int(r.integers(1, 6)), int(r.integers(1, 6))]}, {"sampling": float(r.uniform(0.3, 1.0))}][k % 3]
        c["endpoint"] = [[False, False], [True, False], True][(k // 3) % 3]
    return c


def _probe_case(sel, r):
    gpts, extent = PROBE_GRIDS[sel["grid"]]
    energy = float(r.uniform(6e4, 3e5))
    lam = _wavelength(energy)
    amax = min(lam / (2 * e / n) * 1e3 for e, n in zip(extent, gpts))
    cutoff = float(amax * r.uniform(0.25, 0.6))
    aber = [{}, {"defocus": float(r.uniform(-150, 150))},
            {"C30": float(r.uniform(-1e5, 1e5)), "C12": float(r.uniform(5, 40)), "phi12": float(r.uniform(-3, 3)),
             "C21": float(r.uniform(100, 900)), "phi21": float(r.uniform(-3, 3))}][sel["aber"]]
    dx, dy = extent[0] / gpts[0], extent[1] / gpts[1]
    kind = ["list-frac", "list-pixel", "line", "grid", "single"][sel["scan"]]
    if kind == "list-frac":
        scan = {"mode": "list", "xy": [[float(r.uniform(0, extent[0])), float(r.uniform(0, extent[1]))],
                                       [float(-r.uniform(0, extent[0])), float(r.uniform(extent[1], 3 * extent[1]))],
                                       [0.0, float(r.uniform(0, extent[1]))], [extent[0] / 2, extent[1] / 2],
                                       [extent[0], 0.0]]}
    elif kind == "list-pixel":
        ij = [[int(r.integers(1, gpts[0])), int(r.integers(1, gpts[1]))], [-int(r.integers(1, gpts[0])), 0],
              [0, int(r.integers(1, gpts[1]))], [gpts[0] + 1, -2], [gpts[0] // 2, gpts[1] // 2]]
        scan = {"mode": "list", "xy": [[i * dx, j * dy] for i, j in ij], "pixels": ij}
    elif kind == "single":
        scan = {"mode": "single", "xy": [float(r.uniform(-extent[0], 2 * extent[0])), float(r.uniform(0, extent[1]))]}
    elif kind == "line":
        scan = {"mode": "line", "start": [float(r.uniform(0, extent[0])), float(r.uniform(0, extent[1] / 2))],
                "end": [float(r.uniform(-2, extent[0] + 2)), float(r.uniform(extent[1] / 2, extent[1] + 3))],
                "gpts": int(r.integers(2, 8)), "endpoint": bool(r.integers(2))}
        if r.random() < 0.3:  # on the pixel grid: i * (dx, dy) steps
            n = scan["gpts"]
            scan.update(start=[dx, 2 * dy], end=[dx + (n - 1 if scan["endpoint"] else n) * dx, 2 * dy + (n - 1 if scan["endpoint"] else n) * dy])
            scan["pixels"] = [[1 + i, 2 + i] for i in range(n)]
    else:
        g = [int(r.integers(1, 5)), int(r.integers(2, 5))]
        scan = {"mode": "grid", "start": [float(r.uniform(0, 2)), float(r.uniform(-2, 2))],
                "end": [float(r.uniform(2.5, extent[0] + 2)), float(r.uniform(2.5, extent[1]))], "gpts": g,
                "endpoint": [bool(r.integers(2)), bool(r.integers(2))]}
    lazy, mb = LAZY[sel["lazy"]]
    return dict(family="probe", gpts=list(gpts), extent=list(extent), energy=energy, cutoff=cutoff, soft=bool(sel["soft"]),
                aber=aber, scan=scan, lazy=lazy, max_batch=mb)


def cases(tier, seed):
    n_line, n_grid, n_match, n_at, nseeds, nrand = (400, 400, 36, 48, 2, 40) if tier == "quick" else (4000, 4000, 240, 400, 10, 600)
    for k in range(n_line):
        yield _line_case(rng_for(seed, "C20", "line", k), k)
    for k in range(n_grid):
        yield _grid_case(rng_for(seed, "C20", "grid", k), k)
    for k in range(n_match):
        yield _match_case(rng_for(seed, "C20", "matchl", k), k, "line")
        yield _match_case(rng_for(seed, "C20", "matchg", k), k, "grid")
    for k in range(n_at):
        r = rng_for(seed, "C20", "at", k)
        spec = {"gpts": int(r.integers(1, 9))} if k % 2 else {"sampling": float(r.uniform(0.1, 1.5))}
        yield dict(family="line", ctor="at_position", center=_pt(r), extent=float(r.uniform(0.5, 12)),
                   angle=float([0.0, 90.0, 180.0, -90.0, 37.0, -120.0, 300.0, 45.0][k % 8] if k < 16 else r.uniform(-360, 360)),
                   spec=spec, endpoint=bool((k // 2) % 2), history=[])
    axes = dict(grid=list(range(len(PROBE_GRIDS))), aber=[0, 1, 2], scan=[0, 1, 2, 3, 4], lazy=list(range(len(LAZY))), soft=[0, 1])
    k = 0
    for s in range(nseeds):
        for sel in covering(axes, seed=seed * 77 + s, extra_random=nrand if s == 0 else 0):
            yield _probe_case(sel, rng_for(seed, "C20", "probe", k))
            k += 1


# ------------------------------------------------------------------------------------------------------------


def _tol(*arrs):
    m = 1.0
    for a in arrs:
        a = np.asarray(a, float)
        if a.size:
            m = max(m, float(np.abs(a).max()))
    return 2e-5 * m


def _cmp(a, b, tol):
    a = np.asarray(a, float)
    b = np.asarray(b, float)
    if a.shape != b.shape:
        return False, f"shape {a.shape} != {b.shape}"
    if a.size == 0:
        return True, "empty"
    err = np.abs(a - b)
    i = np.unravel_index(int(np.argmax(err)), err.shape)
    return bool(np.all(err <= tol)) and bool(np.all(np.isfinite(a))), (
        f"max|got-expected|={float(err.max()):.3e} at {tuple(int(x) for x in i)} (got {a[i]!r}, expected {b[i]!r}), tol {tol:.1e}")


def _apply_history(scan, history):
    for op, val in history:
        if op == "add_margin":
            scan.add_margin(tuple(val))
        elif op in ("start", "end"):
            setattr(scan, op, tuple(val))
        elif op == "gpts":
            setattr(scan, op, tuple(val) if isinstance(val, list) else val)
        else:
            setattr(scan, op, tuple(val) if isinstance(val, list) else val)


def _probe_for_match(case):
    import abtem

    return abtem.Probe(semiangle_cutoff=case["cutoff"], extent=tuple(case["probe_extent"]), gpts=tuple(case["probe_gpts"]),
                       energy=case["energy"])


def _check_line(case):
    import abtem

    out = []
    spec = {k: v for k, v in case["spec"].items()}
    if case["ctor"] == "at_position":
        scan = abtem.LineScan.at_position(center=tuple(case["center"]), extent=case["extent"], angle=case["angle"],
                                          endpoint=case["endpoint"], **spec)
        c = np.array(case["center"])
        d = np.array([math.cos(math.radians(case["angle"])), math.sin(math.radians(case["angle"]))])
        es, ee = c - case["extent"] / 2 * d, c + case["extent"] / 2 * d
        ok, det = _cmp(np.array([scan.start, scan.end]), np.array([es, ee]), 1e-9 * max(1.0, float(np.abs([es, ee]).max())))
        out.append(Res("C20/LineScan.at_position/geometry", ok, f"start/end vs centre -/+ extent/2*(cos,sin): {det}", True))
        given_start, given_end = None, None
    elif case["ctor"] == "match_probe":
        start = None if case["start"] is None else tuple(case["start"])
        scan = abtem.LineScan(start=start, end=None, endpoint=case["endpoint"], **spec)
        scan.match_probe(_probe_for_match(case))
        given_start = (0.0, 0.0) if start is None else start
        given_end = (0.0, case["probe_extent"][1])
    else:
        scan = abtem.LineScan(start=tuple(case["start"]), end=tuple(case["end"]), endpoint=case["endpoint"], **spec)
        given_start, given_end = tuple(case["start"]), tuple(case["end"])
    _apply_history(scan, case["history"])
    gpts_given = spec.get("gpts")
    rederived = "sampling" in spec
    for op, val in case["history"]:
        if op == "start":
            given_start = tuple(val)
            rederived = True
        elif op == "end":
            given_end = tuple(val)
            rederived = True
        elif op == "gpts":
            gpts_given, rederived = val, False
        elif op == "sampling":
            rederived = True
        elif op == "add_margin":
            given_start = given_end = None
            rederived = True

    start, end = np.array(scan.start, float), np.array(scan.end, float)
    n, s, ep = scan.gpts, scan.sampling, scan.endpoint
    length = float(np.linalg.norm(end - start))
    d = (end - start) / length
    pos = np.asarray(scan.get_positions())
    nt = n > 1
    par_ok = ep == case["endpoint"]
    det = f"endpoint {ep}"
    if given_start is not None:
        par_ok = par_ok and tuple(scan.start) == tuple(map(float, given_start)) and tuple(scan.end) == tuple(map(float, given_end))
        det += f", start {scan.start} (given {given_start}), end {scan.end} (given {given_end})"
    out.append(Res("C20/LineScan/parameters", par_ok, det, True))
    if gpts_given is not None and not rederived:
        out.append(Res("C20/LineScan/gpts-honoured", n == gpts_given,
                       f"gpts reported {n}, gpts given {gpts_given} (ctor {case['ctor']}, history {case['history']})", True))
    cnt_ok = pos.shape == (n, 2) and len(scan) == n and tuple(scan.shape) == (n,) and isinstance(n, int) and n >= 1
    out.append(Res("C20/LineScan/count", cnt_ok, f"positions shape {pos.shape}, len {len(scan)}, shape {scan.shape}, gpts {n!r}", True))
    if pos.shape != (n, 2):
        return out
    expected = start[None] + np.arange(n)[:, None] * s * d[None]
    tol = _tol(start, end, expected)
    ok, det = _cmp(pos, expected, tol)
    out.append(Res("C20/LineScan/spacing", ok, f"positions vs start + i*sampling({s!r})*direction: {det}", nt))
    last = end if ep else end - s * d
    ok, det = _cmp(pos[-1], last, tol)
    vac = ep and n == 1
    out.append(Res("C20/LineScan/endpoint", ok or vac, f"endpoint={ep}, gpts={n}: last position vs {'end' if ep else 'end - step'}: {det}", not vac))
    axes = scan.ensemble_axes_metadata
    ok = len(axes) == 1
    det = f"{len(axes)} axes"
    if ok:
        coords = np.array(axes[0].coordinates(n), float)
        ok, det = _cmp(coords, np.linalg.norm(expected - start[None], axis=1), tol)
        ok = ok and bool(getattr(axes[0], "endpoint", ep) == ep)
    out.append(Res("C20/LineScan/axes-metadata", ok, f"r-axis coordinates vs |position - start|: {det}", nt))
    return out


def _pair(v):
    return (v, v) if isinstance(v, (bool, int, float)) else tuple(v)


def _check_grid(case):
    import abtem

    out = []
    spec = {k: (tuple(v) if isinstance(v, list) else v) for k, v in case["spec"].items()}
    ep_arg = tuple(case["endpoint"]) if isinstance(case["endpoint"], list) else case["endpoint"]
    if case["ctor"] == "match_probe":
        start = None if case["start"] is None else tuple(case["start"])
        scan = abtem.GridScan(start=start, end=None, endpoint=ep_arg, **spec)
        scan.match_probe(_probe_for_match(case))
        given_start = (0.0, 0.0) if start is None else start
        given_end = tuple(case["probe_extent"])
    else:
        scan = abtem.GridScan(start=tuple(case["start"]), end=tuple(case["end"]), endpoint=ep_arg, **spec)
        given_start, given_end = tuple(case["start"]), tuple(case["end"])
    _apply_history(scan, case["history"])
    gpts_given = None if "gpts" not in spec else _pair(spec["gpts"])
    rederived = "sampling" in spec
    for op, val in case["history"]:
        if op == "start":
            given_start = tuple(val)
        elif op == "end":
            given_end = tuple(val)
        elif op == "gpts":
            gpts_given, rederived = _pair(val), False
        elif op == "sampling":
            rederived = True
    start, end = np.array(scan.start, float), np.array(scan.end, float)
    n, s, ep = tuple(scan.gpts), np.array(scan.sampling, float), tuple(scan.endpoint)
    pos = np.asarray(scan.get_positions())
    nt = n[0] * n[1] > 1
    par_ok = (ep == _pair(case["endpoint"]) and np.allclose(start, given_start, rtol=0, atol=0)
              and np.allclose(end, given_end, rtol=0, atol=0))
    det = f"endpoint {ep}, start {scan.start} (given {given_start}), end {scan.end} (given {given_end})"
    out.append(Res("C20/GridScan/parameters", par_ok, det, True))
    if gpts_given is not None and not rederived:
        out.append(Res("C20/GridScan/gpts-honoured", n == gpts_given,
                       f"gpts reported {n}, gpts given {gpts_given} (ctor {case['ctor']}, history {case['history']})", True))
    cnt_ok = (pos.shape == (n[0], n[1], 2) and len(scan) == n[0] * n[1] and tuple(scan.shape) == n and min(n) >= 1
              and tuple(scan.ensemble_shape) == n)
    out.append(Res("C20/GridScan/count", cnt_ok, f"positions shape {pos.shape}, len {len(scan)}, shape {scan.shape}, gpts {n}", True))
    if pos.shape != (n[0], n[1], 2):
        return out
    ex = start[0] + np.arange(n[0]) * s[0]
    ey = start[1] + np.arange(n[1]) * s[1]
    expected = np.stack(np.meshgrid(ex, ey, indexing="ij"), axis=-1)
    tol = _tol(start, end, expected)
    ok, det = _cmp(pos, expected, tol)
    out.append(Res("C20/GridScan/spacing", ok, f"positions vs start + (i*sx, j*sy), sampling {tuple(s)}: {det}", nt))
    oks, dets, vac = [], [], True
    for ax in range(2):
        if ep[ax] and n[ax] == 1:
            continue
        vac = False
        last = end[ax] if ep[ax] else end[ax] - s[ax]
        got = pos[-1, -1, ax]
        o, d_ = _cmp([got], [last], tol)
        oks.append(o)
        dets.append(f"axis {ax} endpoint={ep[ax]} gpts={n[ax]}: {d_}")
    out.append(Res("C20/GridScan/endpoint", all(oks), "; ".join(dets) or "vacuous (single point per axis)", not vac))
    axes = scan.ensemble_axes_metadata
    ok = len(axes) == 2
    det = f"{len(axes)} axes"
    if ok:
        cx, cy = np.array(axes[0].coordinates(n[0]), float), np.array(axes[1].coordinates(n[1]), float)
        o1, d1 = _cmp(cx, ex, tol)
        o2, d2 = _cmp(cy, ey, tol)
        ok = o1 and o2 and axes[0].label == "x" and axes[1].label == "y" and (axes[0].endpoint, axes[1].endpoint) == ep
        det = f"x: {d1}; y: {d2}; labels {axes[0].label},{axes[1].label}; endpoint flags {(axes[0].endpoint, axes[1].endpoint)}"
    out.append(Res("C20/GridScan/axes-metadata", ok, det, nt))
    return out


def _fourier_shift(psi0, xy, extent):
    nx, ny = psi0.shape
    kx = np.fft.fftfreq(nx, d=extent[0] / nx)
    ky = np.fft.fftfreq(ny, d=extent[1] / ny)
    f = np.fft.fft2(psi0.astype(np.complex128))
    ramp = np.exp(-2j * np.pi * (kx[:, None] * xy[0] + ky[None, :] * xy[1]))
    return np.fft.ifft2(f * ramp)


def _check_probe(case):
    import abtem

    abtem.config.set({"device": "cpu"})
    out = []
    extent, gpts = tuple(case["extent"]), tuple(case["gpts"])
    mk = lambda: abtem.Probe(semiangle_cutoff=case["cutoff"], soft=case["soft"], extent=extent, gpts=gpts,
                             energy=case["energy"], **case["aber"])
    sc = case["scan"]
    axes_expected = None
    if sc["mode"] == "list":
        scan = [tuple(p) for p in sc["xy"]]
        exp = np.array(sc["xy"], float)
    elif sc["mode"] == "single":
        scan = tuple(sc["xy"])
        exp = np.array([sc["xy"]], float)
    elif sc["mode"] == "line":
        scan = abtem.LineScan(start=tuple(sc["start"]), end=tuple(sc["end"]), gpts=sc["gpts"], endpoint=sc["endpoint"])
        n = sc["gpts"]
        a, b = np.array(sc["start"], float), np.array(sc["end"], float)
        step = (b - a) / ((n - 1) if (sc["endpoint"] and n > 1) else n)
        exp = a[None] + np.arange(n)[:, None] * step[None]
        axes_expected = [np.linalg.norm(exp - a[None], axis=1)]
    else:
        scan = abtem.GridScan(start=tuple(sc["start"]), end=tuple(sc["end"]), gpts=tuple(sc["gpts"]), endpoint=tuple(sc["endpoint"]))
        cs = []
        for ax in range(2):
            n, e = sc["gpts"][ax], sc["endpoint"][ax]
            step = (sc["end"][ax] - sc["start"][ax]) / ((n - 1) if (e and n > 1) else n)
            cs.append(sc["start"][ax] + np.arange(n) * step)
        exp = np.stack(np.meshgrid(*cs, indexing="ij"), axis=-1).reshape(-1, 2)
        axes_expected = cs
    w = mk().build(scan=scan, lazy=case["lazy"], max_batch=case["max_batch"])
    if case["lazy"]:
        w = w.compute(scheduler="synchronous", progress_bar=False)
    w0 = mk().build(scan=[(0.0, 0.0)], lazy=False)
    psi0 = np.asarray(w0.array)
    if psi0.shape != gpts:
        return [Res("C20/Probe.build/shift-fourier", False, f"origin probe has shape {psi0.shape}, grid {gpts}", True)]
    arr = np.asarray(w.array)
    ens = arr.shape[:-2]
    ok_shape = int(np.prod(ens, dtype=int)) == len(exp) and arr.shape[-2:] == gpts
    if not ok_shape:
        return [Res("C20/Probe.build/shift-fourier", False, f"built array shape {arr.shape} for {len(exp)} positions on grid {gpts}", True)]
    arr = arr.reshape((-1,) + gpts)
    scale = float(np.abs(psi0).max())
    worst, wdet, nontriv = 0.0, "", False
    for k, xy in enumerate(exp):
        ref = _fourier_shift(psi0, xy, extent)
        err = float(np.abs(arr[k] - ref).max())
        moved = float(np.abs(ref - psi0).max()) > 1e-2 * scale
        nontriv = nontriv or moved
        if err >= worst:
            worst, wdet = err, f"position #{k} r={tuple(float(v) for v in xy)}: max|psi_r - shift(psi_0, r)| = {err:.3e}"
    out.append(Res("C20/Probe.build/shift-fourier", worst <= 5e-5 * scale and bool(np.all(np.isfinite(arr))),
                   f"{wdet}; max|psi_0| = {scale:.3e}; {len(exp)} positions, ensemble shape {ens}", nontriv))
    if "pixels" in sc:
        worst, wdet = 0.0, ""
        for k, (i, j) in enumerate(sc["pixels"]):
            ref = np.roll(psi0, (i, j), axis=(0, 1))
            err = float(np.abs(arr[k] - ref).max())
            if err >= worst:
                worst, wdet = err, f"position #{k} = pixel ({i},{j}): max|psi_r - roll(psi_0)| = {err:.3e}"
        out.append(Res("C20/Probe.build/shift-roll", worst <= 5e-5 * scale, f"{wdet}; max|psi_0| = {scale:.3e}", True))
    if axes_expected is not None:
        axes = [a for a in w.ensemble_axes_metadata]
        ok = len(axes) == len(axes_expected) == len(ens)
        det = f"{len(axes)} ensemble axes for ensemble shape {ens}"
        if ok:
            dets = []
            for a, e_, n in zip(axes, axes_expected, ens):
                o, d_ = _cmp(np.array(a.coordinates(n), float), e_, _tol(e_))
                ok = ok and o
                dets.append(d_)
            det = "; ".join(dets)
        out.append(Res("C20/Probe.build/axes-metadata", ok, det, len(exp) > 1))
    return out


def run_case(case):
    if case["family"] == "line":
        return _check_line(case)
    if case["family"] == "grid":
        return _check_grid(case)
    return _check_probe(case)
