"""C36 — distributions have the values and weights they advertise (bounded run-time contract on abtem.distributions).

Clauses (oracle = the statement; NumPy float64 reference computed here from the constructor arguments only):
  uniform      num_samples values, first == low, equally spaced by (high-low)/(n-1) [endpoint] or (high-low)/n, last ==
               high with endpoint; weights all exactly 1; ensemble_mean flag kept
  gaussian     per axis: num_samples values, symmetric about the centre (v[i] + v[n-1-i] == 2c), all within
               c +- sampling_limit*sigma and (n >= 2) reaching those limits; values/weights arrays of a d-dimensional
               distribution are indexed consistently (values.shape == shape + (d,), weights.shape == shape ==
               MultidimensionalDistribution.shape, values[i0..,k] == axis-k value i_k); weights follow the Gaussian profile
               (w[i]/w[j] == prod_k exp(-(v_ik-c_k)^2/2s_k^2) / same at j) and are normalised: 'intensity' sum(w^2) == 1,
               'amplitude' sum(w) == 1
  negation     -d has values == -values, weights, ensemble_mean, type and shape unchanged; the receiver is unchanged
  from_values  reports the given values and weights (ones when omitted)
  divide       the blocks (int chunks: equal-sized, sizes differ by <= 1; tuple chunks: exactly those sizes), concatenated
               in order, reproduce values and weights exactly; each block keeps ensemble_mean; lazy == eager
"""

import itertools

from vlib.hx import Res, rng_for

PROPERTY = "C36"
RULE = ("uniform: num_samples in {1,2,3,4,5,8,17,64} x endpoint {T,F} x ensemble_mean {T,F} x seeded (low, high) incl. "
        "low > high, low == high, large offsets; gaussian: dimension {1,2,3} x normalize {intensity, amplitude} x "
        "num_samples per axis from {1,2,3,4,5,8,9,16,33} (scalar and per-axis tuples) x seeded sigma (1e-3..1e3), "
        "centre (0, +-, per axis), sampling_limit (0.5..6, per axis); negation of every kind; divide: every distribution "
        "kind of length n <= 9 x every int chunk count 1..n+1 and every composition (n <= 6) / seeded compositions, "
        "lazy and eager. Non-trivial: more than one value / more than one block. Distinct = distinct parameters.")
BOUNDS = {"num_samples": [1, 64], "dimension": [1, 2, 3], "sigma": [1e-3, 1e3], "sampling_limit": [0.5, 6.0],
          "divide_len": {"quick": 9, "thorough": 14},
          "seeded_samples_per_cell": {"quick": 2, "thorough": 10}}
EXHAUSTIVE = False
ASSUMPTIONS = [
    "distributions are float64 (np.linspace); values compared with rtol 1e-12 scaled by max(|low|,|high|,|c|+L*sigma); "
    "weight ratios and norms with rtol 1e-10; unit weights, block contents and flags compared exactly",
    "dividing is stated for one-dimensional distributions; MultidimensionalDistribution.divide with dimension > 1 "
    "raises NotImplementedError by design and is outside the domain",
    "an int chunk count larger than the number of values must raise (equal_sized_chunks contract, C18)",
]
CONTRACTS = ["abtem/distributions.py:uniform", "abtem/distributions.py:gaussian", "abtem/distributions.py:from_values",
             "abtem/distributions.py:DistributionFromValues.__neg__", "abtem/distributions.py:DistributionFromValues.divide",
             "abtem/distributions.py:MultidimensionalDistribution.__neg__",
             "abtem/distributions.py:MultidimensionalDistribution.values",
             "abtem/distributions.py:MultidimensionalDistribution.weights",
             "abtem/distributions.py:MultidimensionalDistribution.shape",
             "abtem/distributions.py:MultidimensionalDistribution.divide"]


def _compositions(n):
    if n == 0:
        yield []
        return
    for first in range(1, n + 1):
        for rest in _compositions(n - first):
            yield [first] + rest


def _f(x):
    return float(x)


def cases(tier, seed):
    quick = tier == "quick"
    k = BOUNDS["seeded_samples_per_cell"][tier]
    # ---- uniform ------------------------------------------------------------------------------------------------------
    for n in (1, 2, 3, 4, 5, 8, 17, 64):
        for endpoint in (True, False):
            for em in (False, True):
                r = rng_for(seed, "uniform", n, endpoint, em)
                fixed = [(-1.0, 1.0), (0.0, 0.0), (5.0, -3.0), (1e6, 1e6 + 1.0), (-50.0, 50.0)]
                for j in range(len(fixed) + k):
                    if j < len(fixed):
                        low, high = fixed[j]
                    else:
                        low = _f(r.uniform(-100, 100))
                        high = low + _f(10 ** r.uniform(-3, 3)) * (1 if r.random() < 0.7 else -1)
                    yield dict(kind="uniform", low=low, high=high, n=n, endpoint=endpoint, ensemble_mean=em)
    # ---- gaussian -----------------------------------------------------------------------------------------------------
    ns = [1, 2, 3, 4, 5, 8, 9, 16, 33]
    for dim in (1, 2, 3):
        for norm in ("intensity", "amplitude"):
            r = rng_for(seed, "gaussian", dim, norm)
            nsets = [[n] * dim for n in ns]
            if dim > 1:
                # per-axis (non-square) sample counts, incl. a 1 on some axis
                nsets += [[2, 5, 3][:dim], [7, 1, 4][:dim], [4, 9, 2][:dim], [1, 6, 5][:dim]]
            for nn in nsets:
                for j in range(k + 1):
                    scalar = (j == 0)          # first sample of each cell uses the scalar call convention
                    sig = [_f(10 ** r.uniform(-3, 3)) for _ in range(dim)]
                    cen = [0.0] * dim if j == 0 else [_f(r.uniform(-20, 20)) for _ in range(dim)]
                    lim = [3.0] * dim if j == 0 else [_f(r.uniform(0.5, 6.0)) for _ in range(dim)]
                    if scalar:
                        sig, cen, lim = [sig[0]] * dim, [cen[0]] * dim, [lim[0]] * dim
                    yield dict(kind="gaussian", dimension=dim, normalize=norm, n=nn, sigma=sig, center=cen, limit=lim,
                               scalar_args=bool(scalar and len(set(nn)) == 1),
                               ensemble_mean=bool(j % 2 == 0))
    # ---- from_values + negation + divide --------------------------------------------------------------------------------
    nmax = BOUNDS["divide_len"][tier]
    for src in ("from_values", "from_values_noweights", "from_values_listweights", "uniform", "gaussian1"):
        for n in range(1, nmax + 1):
            specs = [["int", m] for m in range(1, n + 2)]
            if n <= 6:
                specs += [["tuple", c] for c in _compositions(n)]
            else:
                r = rng_for(seed, "divide", src, n)
                comps = [[1] * n, [n], [n - 1, 1], [1, n - 1]]
                for _ in range(6 if quick else 30):
                    cuts = sorted(set(int(x) for x in r.integers(1, n, size=int(r.integers(1, n)))))
                    comps.append([b - a for a, b in zip([0] + cuts, cuts + [n])])
                specs += [["tuple", c] for c in comps]
            for spec in specs:
                for lazy in (False, True):
                    yield dict(kind="divide", source=src, n=n, chunks=spec, lazy=lazy, ensemble_mean=bool(n % 2))


# ---------------------------------------------------------------------------------------------------------------------


def _make_1d(D, np, src, n, em, seed_salt=0):
    """A one-dimensional distribution of length n built through the public constructors."""
    r = np.random.default_rng(1000 + 17 * n + seed_salt)
    if src == "uniform":
        return D.uniform(-2.5, 4.0, n, endpoint=bool(n % 2), ensemble_mean=em)
    if src == "gaussian1":
        return D.gaussian(1.5, n, dimension=1, center=-0.75, ensemble_mean=em, sampling_limit=2.5,
                          normalize="amplitude" if n % 2 else "intensity")
    vals = np.round(r.uniform(-10, 10, n), 3)
    w = np.round(r.uniform(0.1, 2.0, n), 3)
    if src == "from_values":
        return D.from_values(vals, weights=w, ensemble_mean=em)
    if src == "from_values_listweights":
        return D.from_values([float(v) for v in vals], weights=[float(x) for x in w], ensemble_mean=em)
    return D.from_values(vals, ensemble_mean=em)


def _aeq(np, a, b, rtol, scale=None):
    a = np.asarray(a, float)
    b = np.asarray(b, float)
    if a.shape != b.shape:
        return False
    if a.size == 0:
        return True
    s = float(np.max(np.abs(b))) if scale is None else scale
    return bool(np.all(np.abs(a - b) <= rtol * max(s, 1e-300)))


def _neg_checks(np, d, tag):
    """Negation clause on any distribution; returns list of Res."""
    v0 = np.array(d.values, copy=True)
    w0 = np.array(d.weights, copy=True)
    em0 = d.ensemble_mean
    m = -d
    nt = v0.size > 0 and bool(np.any(v0 != 0))
    out = [Res("C36/__neg__/values-negated", np.array_equal(np.asarray(m.values), -v0),
               f"{tag}: (-d).values={np.asarray(m.values).ravel()[:6]} expected {(-v0).ravel()[:6]}", nt),
           Res("C36/__neg__/weights-and-flags-unchanged",
               np.array_equal(np.asarray(m.weights), w0) and m.ensemble_mean == em0 and type(m) is type(d)
               and tuple(m.shape) == tuple(d.shape) and m.dimensions == d.dimensions,
               f"{tag}: weights {np.asarray(m.weights).ravel()[:6]} vs {w0.ravel()[:6]}; ensemble_mean {m.ensemble_mean} vs "
               f"{em0}; type {type(m).__name__}; shape {m.shape} vs {d.shape}", nt),
           Res("C36/__neg__/receiver-unchanged",
               np.array_equal(np.asarray(d.values), v0) and np.array_equal(np.asarray(d.weights), w0)
               and d.ensemble_mean == em0,
               f"{tag}: receiver changed by negation", nt)]
    mm = -m
    out.append(Res("C36/__neg__/values-negated", np.array_equal(np.asarray(mm.values), v0),
                   f"{tag}: -(-d).values differs from d.values", nt))
    return out


def _run_uniform(case):
    import numpy as np
    from abtem import distributions as D

    low, high, n, ep, em = case["low"], case["high"], case["n"], case["endpoint"], case["ensemble_mean"]
    d = D.uniform(low, high, n, endpoint=ep, ensemble_mean=em)
    v = np.asarray(d.values)
    w = np.asarray(d.weights)
    tag = f"uniform({low!r}, {high!r}, {n}, endpoint={ep})"
    nt = n > 1 and low != high
    scale = max(abs(low), abs(high), 1e-300)
    step = (high - low) / (n - 1) if (ep and n > 1) else ((high - low) / n if not ep else 0.0)
    want = low + step * np.arange(n)
    ok_len = v.shape == (n,) and tuple(d.shape) == (n,) and len(d) == n and d.dimensions == 1
    out = [Res("C36/uniform/count-and-limits",
               ok_len and (n == 0 or abs(v[0] - low) <= 1e-12 * scale) and (not (ep and n > 1) or abs(v[-1] - high) <= 1e-12 * scale)
               and bool(np.all(v >= min(low, high) - 1e-12 * scale)) and bool(np.all(v <= max(low, high) + 1e-12 * scale)),
               f"{tag}: values={v[:4]}..{v[-2:]}, shape={d.shape}", nt)]
    out.append(Res("C36/uniform/equally-spaced", ok_len and _aeq(np, v, want, 1e-12, scale),
                   f"{tag}: values={v[:5]} expected {want[:5]} (step {step!r})", nt))
    out.append(Res("C36/uniform/unit-weights", w.shape == (n,) and bool(np.all(w == 1.0)) and d.ensemble_mean == em,
                   f"{tag}: weights={w[:5]}, ensemble_mean={d.ensemble_mean} (given {em})", nt))
    out += _neg_checks(np, d, tag)
    return out


def _run_gaussian(case):
    import numpy as np
    from abtem import distributions as D

    dim, norm = case["dimension"], case["normalize"]
    nn, sig, cen, lim, em = case["n"], case["sigma"], case["center"], case["limit"], case["ensemble_mean"]
    if case["scalar_args"]:
        d = D.gaussian(sig[0], nn[0], dimension=dim, center=cen[0], ensemble_mean=em, sampling_limit=lim[0],
                       normalize=norm)
    elif dim == 1:
        d = D.gaussian(sig[0], nn[0], dimension=1, center=cen[0], ensemble_mean=em, sampling_limit=lim[0],
                       normalize=norm)
    else:
        d = D.gaussian(tuple(sig), tuple(nn), dimension=dim, center=tuple(cen), ensemble_mean=em,
                       sampling_limit=tuple(lim), normalize=norm)
    tag = f"gaussian(sigma={sig}, n={nn}, dimension={dim}, center={cen}, sampling_limit={lim}, normalize={norm!r})"
    v = np.asarray(d.values)
    w = np.asarray(d.weights)
    shape = tuple(nn)
    nt = max(nn) > 1
    out = []
    # --- array layout (meshgrid / outer-product indexing) ---
    want_vshape = shape if dim == 1 else shape + (dim,)
    lay_ok = v.shape == want_vshape and w.shape == shape and tuple(d.shape) == shape and d.dimensions == dim
    out.append(Res("C36/MultidimensionalDistribution/values-weights-layout", lay_ok,
                   f"{tag}: values.shape={v.shape} (expected {want_vshape}), weights.shape={w.shape} (expected {shape}), "
                   f"shape={d.shape}, dimensions={d.dimensions}", nt))
    # per-axis values as reported through the d-dimensional values array (fall back to the axis distributions when
    # the layout itself is broken, so the remaining clauses are still evaluated on what can be observed)
    axes = []
    for kx in range(dim):
        if dim == 1:
            axes.append(v.reshape(-1))
        elif v.shape == want_vshape:
            idx = [0] * dim
            idx[kx] = slice(None)
            axes.append(v[tuple(idx) + (kx,)])
            # the k-th component must not depend on the other indices
            full = np.moveaxis(v[..., kx], kx, -1)
            if not np.array_equal(full, np.broadcast_to(axes[-1], full.shape)):
                out.append(Res("C36/MultidimensionalDistribution/values-weights-layout", False,
                               f"{tag}: values[..., {kx}] varies along an axis other than {kx}", nt))
        else:
            axes.append(np.asarray(d.distributions[kx].values))
    sym_ok, lim_ok, msgs = True, True, []
    for kx, (a, n, s, c, L) in enumerate(zip(axes, nn, sig, cen, lim)):
        scale = abs(c) + L * s
        if a.shape != (n,):
            sym_ok = lim_ok = False
            msgs.append(f"axis {kx}: {a.shape[0] if a.ndim else 0} values, expected {n}")
            continue
        if not _aeq(np, a + a[::-1], np.full(n, 2 * c), 1e-12, scale):
            sym_ok = False
            msgs.append(f"axis {kx}: v[i]+v[n-1-i]={(a + a[::-1])[:3]} but 2*centre={2 * c!r} (values {a[:3]}..)")
        if not bool(np.all(np.abs(a - c) <= L * s * (1 + 1e-12) + 1e-12 * scale)):
            lim_ok = False
            msgs.append(f"axis {kx}: max|v-c|={float(np.max(np.abs(a - c)))!r} > limit*sigma={L * s!r}")
        if n >= 2 and not (abs(a[0] - (c - L * s)) <= 1e-12 * scale and abs(a[-1] - (c + L * s)) <= 1e-12 * scale):
            lim_ok = False
            msgs.append(f"axis {kx}: ends {a[0]!r},{a[-1]!r} expected {c - L * s!r},{c + L * s!r}")
        if n >= 3 and not _aeq(np, np.diff(a), np.full(n - 1, 2 * L * s / (n - 1)), 1e-9, 2 * L * s / (n - 1)):
            lim_ok = False
            msgs.append(f"axis {kx}: values not evenly spaced: diffs {np.diff(a)[:4]}")
    out.append(Res("C36/gaussian/values-symmetric-about-center", sym_ok, f"{tag}: " + "; ".join(msgs), nt))
    out.append(Res("C36/gaussian/values-within-sampling-limit", lim_ok, f"{tag}: " + "; ".join(msgs), nt))
    # --- weights: profile and normalisation ---
    # reference profile from the REPORTED values (the clause relates weights to the distribution's own values)
    ref = None
    if all(a.shape == (n,) for a, n in zip(axes, nn)):
        ref = np.ones(shape)
        for kx, (a, s, c) in enumerate(zip(axes, sig, cen)):
            sh = [1] * dim
            sh[kx] = len(a)
            ref = ref * np.exp(-0.5 * (a - c) ** 2 / s ** 2).reshape(sh)
    if ref is not None and w.size == ref.size:
        wr = w.reshape(shape) if w.shape != shape else w     # judge the numbers even if the layout clause failed
        i0 = np.unravel_index(int(np.argmax(ref)), shape)
        ok = bool(wr[i0] > 0) and _aeq(np, wr / wr[i0], ref / ref[i0], 1e-10, 1.0)
        out.append(Res("C36/gaussian/weights-follow-gaussian-profile", ok,
                       f"{tag}: w/w_max={np.ravel(wr / wr[i0])[:5]} expected {np.ravel(ref / ref[i0])[:5]}", nt))
    else:
        out.append(Res("C36/gaussian/weights-follow-gaussian-profile", False,
                       f"{tag}: {w.size} weights for {int(np.prod(shape))} values", nt))
    tot = float(np.sum(w ** 2)) if norm == "intensity" else float(np.sum(w))
    out.append(Res("C36/gaussian/weights-normalized", abs(tot - 1.0) <= 1e-10 and bool(np.all(w >= 0)),
                   f"{tag}: {'sum(w^2)' if norm == 'intensity' else 'sum(w)'}={tot!r}, expected 1", True))
    out.append(Res("C36/gaussian/ensemble-mean-flag", d.ensemble_mean == em, f"{tag}: {d.ensemble_mean} vs {em}", True))
    out += _neg_checks(np, d, tag)
    return out


def _run_divide(case):
    import numpy as np
    from abtem import distributions as D

    src, n, (ckind, cval), lazy, em = case["source"], case["n"], case["chunks"], case["lazy"], case["ensemble_mean"]
    d = _make_1d(D, np, src, n, em)
    tag = f"{src}(n={n}).divide({cval if ckind == 'int' else tuple(cval)}, lazy={lazy})"
    v0 = np.array(d.values, copy=True)
    w0 = np.array(d.weights, copy=True)
    out = []
    if src.startswith("from_values"):
        r = np.random.default_rng(1000 + 17 * n)
        vals = np.round(r.uniform(-10, 10, n), 3)
        w = np.round(r.uniform(0.1, 2.0, n), 3)
        want_w = np.ones(n) if src == "from_values_noweights" else w
        out.append(Res("C36/from_values/values-and-weights-as-given",
                       np.array_equal(v0, vals) and np.array_equal(w0, want_w) and d.ensemble_mean == em and
                       tuple(d.shape) == (n,) and len(d) == n,
                       f"{src}: values {v0[:4]} vs {vals[:4]}; weights {w0[:4]} vs {want_w[:4]}", n > 0))
    chunks = int(cval) if ckind == "int" else tuple(int(c) for c in cval)
    must_raise = ckind == "int" and chunks > n
    try:
        blocks = d.divide(chunks, lazy=lazy)
    except RuntimeError as e:
        out.append(Res("C36/divide/partitions-values-and-weights", must_raise,
                       f"{tag}: raised {e!r} on a valid chunking", True))
        return out
    if must_raise:
        out.append(Res("C36/divide/partitions-values-and-weights", False,
                       f"{tag}: returned {blocks!r} although there are more chunks than values", True))
        return out
    if lazy:
        is_dask = hasattr(blocks, "compute")
        out.append(Res("C36/divide/lazy-equals-eager", is_dask, f"{tag}: lazy=True returned {type(blocks).__name__}", True))
        blocks = blocks.compute(scheduler="synchronous") if is_dask else blocks
    want_sizes = None
    if ckind == "tuple":
        want_sizes = list(chunks)
    sizes = [len(b) for b in blocks]
    cat_v = np.concatenate([np.asarray(b.values) for b in blocks]) if len(blocks) else np.zeros(0)
    cat_w = np.concatenate([np.asarray(b.weights, dtype=float) for b in blocks]) if len(blocks) else np.zeros(0)
    nt = len(sizes) > 1
    part_ok = (np.array_equal(cat_v, v0) and np.array_equal(cat_w, np.asarray(w0, float))
               and all(len(np.asarray(b.weights)) == len(b) for b in blocks))
    out.append(Res("C36/divide/partitions-values-and-weights", part_ok,
                   f"{tag}: block sizes {sizes}; concatenated values {cat_v[:6]} vs {v0[:6]}; weights {cat_w[:6]} vs "
                   f"{np.asarray(w0, float)[:6]}", nt))
    if ckind == "int":
        sz_ok = len(sizes) == chunks and sum(sizes) == n and max(sizes) - min(sizes) <= 1 and min(sizes) >= 1
    else:
        sz_ok = sizes == want_sizes
    out.append(Res("C36/divide/block-sizes", sz_ok, f"{tag}: block sizes {sizes}", nt))
    out.append(Res("C36/divide/blocks-keep-ensemble-mean", all(b.ensemble_mean == em for b in blocks) and
                   all(b.dimensions == 1 for b in blocks), f"{tag}: flags {[b.ensemble_mean for b in blocks]} vs {em}", nt))
    if lazy:
        eager = d.divide(chunks, lazy=False)
        same = len(eager) == len(blocks) and all(
            np.array_equal(np.asarray(a.values), np.asarray(b.values)) and
            np.array_equal(np.asarray(a.weights), np.asarray(b.weights)) and a.ensemble_mean == b.ensemble_mean
            for a, b in zip(eager, blocks))
        out.append(Res("C36/divide/lazy-equals-eager", same, f"{tag}: lazy blocks differ from eager blocks", nt))
    return out


def run_case(case):
    kind = case["kind"]
    if kind == "uniform":
        return _run_uniform(case)
    if kind == "gaussian":
        return _run_gaussian(case)
    if kind == "divide":
        return _run_divide(case)
    raise ValueError(kind)
