"""C06 — PRISM reduction reproduces conventional multislice probes (bounded stand-in: run-time contract).

Contract on SMatrix.reduce / SMatrix.scan / SMatrix.build / SMatrix.multislice / SMatrixArray.reduce /
SMatrixArray.scan / SMatrixArray._calculate_ctf_coefficients (relational: two independent simulations):

  interpolation 1:  reducing the scattering matrix at scan positions p with a CTF (aperture + aberrations, possibly a
                    defocus series) gives the same exit waves and the same detector measurements as
                    Probe(same aperture, same aberrations).multislice(same potential) at p — lazily and eagerly,
                    through every entry point and chunking option.
  interpolation f:  the reduced probe equals the window of window_gpts pixels, centred (to pixel rounding) on p, cut out
                    of the exit wave of the f-fold periodically repeated small probe (extent/f) sent through the same
                    potential.

Oracle = the statement: an *independent* abTEM Probe simulation, one run per frozen-phonon configuration and per
CTF ensemble member (scalar probes, eager, single configuration => not touched by the known eager frozen-phonon
defect C01/C02 nor by the eager potential build C10), combined with NumPy (stack / incoherent mean / Fourier crop /
tile / window).  Nothing of abtem.prism is used on the oracle side.

When the scattering matrix is down-sampled (downsample != False) the two simulations live on different grids; the
clause is then evaluated where both are defined: Fourier coefficients of the exit waves at the common spatial
frequencies (unnormalised np.fft.fft2, i.e. diffraction intensities are preserved), diffraction patterns on the common
pixels (aligned with the axes metadata of the two measurements), integrated detectors whose outer angle lies inside
the retained angular range.
"""

import math

from vlib.hx import Res, covering, rng_for

PROPERTY = "C06"
RULE = ("pairwise covering array over {grid (square/non-square, even/odd), energy, potential kind (none, atoms, frozen "
        "phonons with/without ensemble mean, explicit atoms ensemble), aberration set (none, defocus, Cs, astigmatism, "
        "coma, mixed), CTF aperture (equal/smaller than the S-matrix cut-off, soft/hard), defocus series, scan kind "
        "(grid with/without endpoint, line, custom inside the cell, custom incl. positions outside the cell = periodic "
        "images, single position), detector set, "
        "down-sampling, entry point, chunking} x seeded continuous parameters (cut-off, aberration magnitudes, "
        "positions, atom positions); every case is run lazily AND eagerly; a second covering array over "
        "interpolation factors {2, 3, (1,2), (2,1), (2,3)}; dedicated cases for SMatrixArray.scan. "
        "non-trivial = the reference measurement is not identically zero; distinct = distinct case dicts")
BOUNDS = {
    "gpts": "<= 32 x 32", "atoms": "<= 4", "slices": "<= 3", "configs": "<= 3", "ctf_members": "<= 3",
    "scan_positions": "<= 9, custom positions in [-1.3, 2.3] x extent",
    "interpolation": [[2, 2], [3, 3], [1, 2], [2, 1], [2, 3]],
    "extra_random_cases": {"quick": 6, "thorough": 600},
    "interp_extra_random_cases": {"quick": 2, "thorough": 200},
}
EXHAUSTIVE = False
ASSUMPTIONS = [
    "float32 pipeline: arrays compared with max|a-b| <= 2e-4 * max|reference| (observed agreement ~1e-6); detector "
    "signals (fractions of the unit beam intensity) use max(max|reference|, 1e-6) as scale",
    "lazy vs eager of the same S-matrix run compared with 2e-5 * max|reference|",
    "sum |ctf coefficient|^2 == 1 within 1e-4",
    "oracle: independent Probe runs (one per configuration / CTF member), NumPy stack/mean/fft-crop/tile/window",
    "ensemble axes order of the reduced result: (frozen phonons, ctf, scan..., base...) as asserted by abTEM's test_prism_scan",
    "exit waves are never averaged over frozen phonons (Probe.multislice and the lazy S-matrix keep the axis); other "
    "measurements are averaged iff ensemble_mean=True",
    "interpolation: any integer crop corner whose window centre lies within one pixel of the probe position is "
    "accepted (covers round/floor/ceil conventions for even and odd windows); positions outside the cell denote their "
    "periodic images",
    "down-sampled S-matrix: clause evaluated on the common frequencies / common detector pixels only; "
    "PixelatedDetector(max_angle='cutoff') returns a smaller angular range for a down-sampled S-matrix "
    "(adjusted_antialias_cutoff_gpts) — the shape difference is not counted as a violation",
    "cut-off <= 0.7 x anti-aliasing angle of the grid; detector angles inside the retained angular range",
    "a single position given as a tuple: singleton scan axes are squeezed on both sides before comparing (the eager "
    "SMatrix.reduce keeps a length-1 axis that the lazy path and SMatrixArray.reduce drop; not counted)",
    "detector/scan combinations on which the Probe reference itself raises are reported as C06/no-exception",
]
CONTRACTS = [
    "abtem/prism/s_matrix.py:SMatrix.reduce",
    "abtem/prism/s_matrix.py:SMatrix.scan",
    "abtem/prism/s_matrix.py:SMatrix.build",
    "abtem/prism/s_matrix.py:SMatrix.multislice",
    "abtem/prism/s_matrix.py:SMatrixArray.reduce",
    "abtem/prism/s_matrix.py:SMatrixArray.scan",
    "abtem/prism/s_matrix.py:SMatrixArray._calculate_ctf_coefficients",
    "abtem/prism/s_matrix.py:SMatrixArray._calculate_positions_coefficients",
    "abtem/prism/s_matrix.py:SMatrixArray._reduce_to_waves",
]

RTOL = 2e-4
RTOL_LAZY = 2e-5

GRIDS = [  # gpts, extent
    ([24, 24], [6.0, 6.0]),
    ([24, 20], [6.0, 5.0]),
    ([21, 25], [5.5, 6.3]),
    ([30, 18], [7.0, 4.6]),
]
GRIDS_INTERP = [  # gpts divisible by 2 and 3
    ([24, 24], [8.0, 8.0]),
    ([30, 24], [9.0, 7.2]),
    ([24, 18], [7.0, 6.0]),
]
ENERGIES = [60e3, 100e3, 200e3, 300e3]
POTENTIALS = ["none", "atoms", "fp_mean", "fp_nomean", "ensemble_mean"]
ABERRATIONS = ["none", "defocus", "Cs", "astigmatism", "coma", "mixed"]
APERTURES = ["same_soft", "same_hard", "smaller_soft", "smaller_hard"]
SERIES = [0, 0, 3]
SCANS = ["grid", "line", "custom", "single", "grid_endpoint"]
DETECTORS = ["waves", "annular", "flex", "segmented", "pixel_cutoff", "pixel_valid", "pixel_full", "waves+annular",
             "annular_bf+pixel_angle+waves"]
DOWNSAMPLE = [False, False, "cutoff", "valid", "angle"]
ENTRIES = ["reduce", "scan", "build.reduce", "vacuum.multislice"]
CHUNKING = ["auto", "mbm", "mbr", "nochunks"]


def wavelength(energy):
    e = energy / 1e3
    return 12.398420 / math.sqrt(e * (2 * 510.99895 + e))


def _antialias_angle(gpts, extent, energy):
    """smallest anti-aliasing cut-off angle [mrad] of the grid (2/3 of Nyquist)."""
    return min((n // 2) / l for n, l in zip(gpts, extent)) * 2.0 / 3.0 * wavelength(energy) * 1e3


def _aberrations(kind, r, energy, cutoff):
    """aberration coefficients with phases of order 1..6 rad at the aperture edge."""
    lam = wavelength(energy)
    a = cutoff * 1e-3
    sgn = lambda: float(r.choice([-1.0, 1.0]))
    phase = lambda lo=1.0, hi=6.0: float(r.uniform(lo, hi))
    c10 = lambda: sgn() * phase() * lam / (math.pi * a ** 2)          # chi = pi/lam * a^2 * C10
    c30 = lambda: phase() * 2 * lam / (math.pi * a ** 4)              # chi = pi/(2 lam) * a^4 * C30
    c12 = lambda: phase() * lam / (math.pi * a ** 2)
    c21 = lambda: phase() * 3 * lam / (2 * math.pi * a ** 3)          # chi = 2pi/lam * a^3/3 * C21
    c23 = lambda: phase(0.5, 3.0) * 3 * lam / (2 * math.pi * a ** 3)
    ang = lambda: float(r.uniform(-math.pi, math.pi))
    if kind == "none":
        return {}
    if kind == "defocus":
        return {"C10": c10()}
    if kind == "Cs":
        return {"C30": c30()}
    if kind == "astigmatism":
        return {"C12": c12(), "phi12": ang()}
    if kind == "coma":
        return {"C21": c21(), "phi21": ang()}
    if kind == "mixed":
        return {"C10": c10(), "C30": c30(), "C12": c12(), "phi12": ang(), "C21": c21(), "phi21": ang(),
                "C23": c23(), "phi23": ang()}
    raise ValueError(kind)


def _scan(kind, r, extent):
    lx, ly = extent
    u = lambda lo, hi: float(r.uniform(lo, hi))
    if kind == "grid":
        return {"type": "grid", "start": [u(0, 0.4) * lx, u(0, 0.4) * ly], "end": [u(0.5, 1.0) * lx, u(0.5, 1.0) * ly],
                "gpts": [int(r.integers(1, 4)), int(r.integers(2, 4))], "endpoint": False}
    if kind == "grid_endpoint":
        return {"type": "grid", "start": [u(0, 0.4) * lx, u(0, 0.4) * ly], "end": [u(0.5, 1.0) * lx, u(0.5, 1.0) * ly],
                "gpts": [int(r.integers(2, 4)), int(r.integers(1, 3))], "endpoint": True}
    if kind == "line":
        return {"type": "line", "start": [u(0, 1) * lx, u(0, 1) * ly], "end": [u(0, 1) * lx, u(0, 1) * ly],
                "gpts": int(r.integers(2, 6))}
    if kind == "custom":
        n = int(r.integers(1, 5))
        pos = [[u(-0.3, 1.3) * lx, u(-0.3, 1.3) * ly] for _ in range(n)]
        pos.append([0.0, 0.0])
        # and one position more than a window beyond the cell (periodic image)
        far = [u(1.0, 2.3) * lx, u(-1.3, 2.3) * ly] if r.uniform() < 0.5 else [u(-1.3, 0.0) * lx, u(1.0, 2.3) * ly]
        pos.insert(int(r.integers(0, len(pos) + 1)), far)
        return {"type": "custom", "positions": pos}
    if kind == "custom_inside":
        n = int(r.integers(2, 6))
        return {"type": "custom", "positions": [[u(0, 1) * lx, u(0, 1) * ly] for _ in range(n)]}
    if kind == "single":
        return {"type": "single", "position": [u(0, 1) * lx, u(0, 1) * ly]}
    raise ValueError(kind)


def _fill(case, seed, idx):
    """add the seeded continuous parameters to a discrete case."""
    r = rng_for(seed, "c06", case["kind"], idx)
    gpts, extent = case.pop("grid")
    case["gpts"], case["extent"] = list(gpts), list(extent)
    energy = case["energy"]
    # the aperture (incl. its soft edge) must fit into the angular range kept by the S-matrix after down-sampling
    amax = _retained_angle(dict(case, gpts=gpts, extent=extent))
    # at least a handful of beams, at most 0.7 x the retained (anti-aliasing) angle
    kmin = 1.6 / min(extent) * max(case["interpolation"])
    lo = min(max(0.3 * amax, kmin * wavelength(energy) * 1e3), 0.6 * amax)
    case["cutoff"] = float(r.uniform(lo, 0.7 * amax))
    ap = case.pop("aperture")
    case["soft"] = ap.endswith("soft")
    case["ctf_cutoff"] = case["cutoff"] if ap.startswith("same") else float(case["cutoff"] * r.uniform(0.6, 0.85))
    case["aberrations"] = _aberrations(case.pop("aberration"), r, energy, case["ctf_cutoff"])
    ns = case.pop("series")
    if ns:
        lam = wavelength(energy)
        step = 2.0 * lam / (math.pi * (case["ctf_cutoff"] * 1e-3) ** 2)
        c0 = case["aberrations"].get("C10", 0.0)
        case["defocus_series"] = [float(c0 + step * (k - 1) * r.uniform(0.7, 1.3)) for k in range(ns)]
    else:
        case["defocus_series"] = None
    case["scan"] = _scan(case["scan"], r, extent)
    case["atoms_seed"] = int(r.integers(1, 10 ** 6))
    case["height"] = float(r.choice([4.0, 6.0]))
    case["sigma"] = float(r.uniform(0.05, 0.15))
    case["n_configs"] = int(r.integers(2, 4))
    case["mbm"] = int(r.integers(3, 9))
    case["mbr"] = int(r.integers(1, 4))
    return case


def cases(tier, seed):
    base = {"grid": GRIDS, "energy": ENERGIES, "potential": POTENTIALS, "aberration": ABERRATIONS,
            "aperture": APERTURES, "series": SERIES, "scan": SCANS, "detectors": DETECTORS, "downsample": DOWNSAMPLE,
            "entry": ENTRIES, "chunking": CHUNKING}
    rows = covering(base, seed=seed, extra_random=BOUNDS["extra_random_cases"][tier])
    for i, row in enumerate(rows):
        c = dict(kind="match", interpolation=[1, 1], **row)
        if c["downsample"] in ("valid", "angle"):
            # outside the retained rectangle nothing can be compared: exit waves + integrated detector well inside
            c["detectors"] = "waves+annular" if "pixel" in c["detectors"] or c["detectors"] in ("flex", "segmented") \
                else c["detectors"]
        yield _fill(c, seed, i)

    ibase = {"grid": GRIDS_INTERP, "energy": ENERGIES, "potential": ["none", "atoms", "fp_nomean"],
             "aberration": ABERRATIONS, "aperture": APERTURES,
             "scan": ["grid", "custom", "custom_inside", "line", "single"],
             "interpolation": [list(x) for x in BOUNDS["interpolation"]], "downsample": [False, "cutoff"],
             "entry": ["reduce", "build.reduce"], "chunking": ["auto", "mbm", "mbr"]}
    rows = covering(ibase, seed=seed + 1, extra_random=BOUNDS["interp_extra_random_cases"][tier])
    for i, row in enumerate(rows):
        c = dict(kind="interp", series=0, detectors="waves", **row)
        yield _fill(c, seed, i)

    # objects with a history: energy / cutoff edited after the S-matrix object was first used
    for i, (hist, entry, pot) in enumerate([("energy", "build.reduce", "atoms"), ("energy", "reduce", "none"),
                                            ("cutoff", "build.reduce", "none"), ("cutoff", "scan", "atoms")] if tier == "quick" else
                                           [(h, e, p) for h in ("energy", "cutoff") for e in ("reduce", "scan", "build.reduce")
                                            for p in ("none", "atoms", "fp_nomean")]):
        c = dict(kind="match", interpolation=[1, 1], grid=GRIDS[i % len(GRIDS)], energy=ENERGIES[(i + 1) % len(ENERGIES)],
                 potential=pot, aberration=["defocus", "none"][i % 2], aperture="same_soft", series=0, scan="grid",
                 detectors="waves+annular", downsample=False, entry=entry, chunking="auto", history=hist)
        yield _fill(c, seed, 1000 + i)

    # SMatrixArray.scan (the array-level scan entry), lazy and eager
    for i, (pot, ab) in enumerate([("atoms", "none"), ("none", "defocus")] if tier == "quick" else
                                  [(p, a) for p in ("none", "atoms", "fp_nomean") for a in ("none", "defocus", "mixed")]):
        c = dict(kind="array_scan", interpolation=[1, 1], grid=GRIDS[i % len(GRIDS)], energy=ENERGIES[i % 4],
                 potential=pot, aberration=ab, aperture="same_soft", series=0, scan="grid", detectors="waves+annular",
                 downsample=False, entry="array.scan", chunking="auto")
        yield _fill(c, seed, i)


# ------------------------------------------------------------------------------------------------------------------
# builders (inputs are rebuilt from the case for every run: no object is shared between S-matrix and oracle)
# ------------------------------------------------------------------------------------------------------------------

def _atoms(case):
    import numpy as np
    from ase import Atoms

    r = np.random.default_rng(case["atoms_seed"])
    lx, ly = case["extent"]
    n = 4
    sym = list(r.choice(["C", "Si", "Cu", "Au"], n))
    pos = r.uniform(0.05, 0.95, (n, 3)) * [lx, ly, case["height"]]
    return Atoms(sym, positions=pos, cell=[lx, ly, case["height"]], pbc=True)


def _configs(case):
    """list of explicit Atoms, one per configuration (or [None] for vacuum), and whether measurements are averaged."""
    import numpy as np

    kind = case["potential"]
    if kind == "none":
        return [None], False
    atoms = _atoms(case)
    if kind == "atoms":
        return [atoms], False
    if kind in ("fp_mean", "fp_nomean"):
        import abtem
        fp = abtem.FrozenPhonons(atoms, case["n_configs"], case["sigma"], seed=case["atoms_seed"],
                                 ensemble_mean=(kind == "fp_mean"))
        return list(fp), kind == "fp_mean"   # iteration = the documented way to obtain the configurations
    if kind == "ensemble_mean":
        r = np.random.default_rng(case["atoms_seed"] + 7)
        out = []
        for _ in range(case["n_configs"]):
            a = atoms.copy()
            a.positions += r.normal(size=a.positions.shape) * case["sigma"]
            out.append(a)
        return out, True
    raise ValueError(kind)


def _potential(case):
    """the potential handed to the S-matrix (unbuilt; may carry a frozen-phonon ensemble)."""
    import abtem

    kind = case["potential"]
    if kind == "none":
        return None
    atoms = _atoms(case)
    kw = dict(gpts=tuple(case["gpts"]), slice_thickness=2.0)
    if kind == "atoms":
        return abtem.Potential(atoms, **kw)
    if kind in ("fp_mean", "fp_nomean"):
        fp = abtem.FrozenPhonons(atoms, case["n_configs"], case["sigma"], seed=case["atoms_seed"],
                                 ensemble_mean=(kind == "fp_mean"))
        return abtem.Potential(fp, **kw)
    if kind == "ensemble_mean":
        configs, _ = _configs(case)
        return abtem.Potential(abtem.AtomsEnsemble(configs, ensemble_mean=True), **kw)
    raise ValueError(kind)


def _single_potential(case, atoms):
    import abtem

    return abtem.Potential(atoms, gpts=tuple(case["gpts"]), slice_thickness=2.0)


def _scan_obj(case):
    import abtem

    s = case["scan"]
    if s["type"] == "grid":
        return abtem.GridScan(start=tuple(s["start"]), end=tuple(s["end"]), gpts=tuple(s["gpts"]), endpoint=s["endpoint"])
    if s["type"] == "line":
        return abtem.LineScan(start=tuple(s["start"]), end=tuple(s["end"]), gpts=s["gpts"])
    if s["type"] == "custom":
        return abtem.CustomScan(s["positions"])
    if s["type"] == "single":
        return tuple(s["position"])
    raise ValueError(s["type"])


def _retained_angle(case):
    """largest angle [mrad] available on every axis of both simulations (for detector limits)."""
    a = _antialias_angle(case["gpts"], case["extent"], case["energy"])
    ds = case["downsample"]
    if ds == "valid":
        a = 0.85 * a / math.sqrt(2.0)      # inscribed rectangle, minus the rounding of the down-sampled grid
    elif ds == "angle":
        a = 0.9 * min(a, _downsample_angle(case))
    return a


def _downsample_angle(case):
    return 0.85 * _antialias_angle(case["gpts"], case["extent"], case["energy"])


def _detectors(case):
    import abtem

    amax = 0.8 * _retained_angle(case)
    out = []
    for name in case["detectors"].split("+"):
        if name == "waves":
            d = abtem.WavesDetector()
        elif name == "annular":
            d = abtem.AnnularDetector(inner=0.3 * amax, outer=0.9 * amax)
        elif name == "annular_bf":
            d = abtem.AnnularDetector(inner=0.0, outer=0.5 * amax)
        elif name == "flex":
            # default outer (= the simulation's own cut-off) on equal grids; explicit on a down-sampled S-matrix
            d = abtem.FlexibleAnnularDetector(step_size=amax / 6.0,
                                              outer=None if case["downsample"] is False else amax)
        elif name == "segmented":
            d = abtem.SegmentedDetector(nbins_radial=2, nbins_azimuthal=4, inner=0.2 * amax, outer=0.9 * amax,
                                        rotation=0.3)
        elif name == "pixel_cutoff":
            d = abtem.PixelatedDetector(max_angle="cutoff")
        elif name == "pixel_valid":
            d = abtem.PixelatedDetector(max_angle="valid")
        elif name == "pixel_full":
            d = abtem.PixelatedDetector(max_angle=None)
        elif name == "pixel_angle":
            d = abtem.PixelatedDetector(max_angle=0.9 * amax)
        else:
            raise ValueError(name)
        out.append(d)
    return out


def _ctf_members(case):
    """list of aberration dicts, one per CTF ensemble member (a single one when there is no series)."""
    if case["defocus_series"] is None:
        return [dict(case["aberrations"])]
    return [dict(case["aberrations"], C10=d) for d in case["defocus_series"]]


def _ctf(case):
    import abtem
    import numpy as np

    ab = dict(case["aberrations"])
    if case["defocus_series"] is not None:
        ab["C10"] = np.array(case["defocus_series"])
    return abtem.CTF(semiangle_cutoff=case["ctf_cutoff"], soft=case["soft"], energy=case["energy"], **ab)


def _probe(case, ab, extent=None, gpts=None):
    import abtem

    return abtem.Probe(semiangle_cutoff=case["ctf_cutoff"], soft=case["soft"], energy=case["energy"],
                       extent=tuple(extent or case["extent"]), gpts=tuple(gpts or case["gpts"]), **ab)


def _s_matrix(case, potential):
    import abtem

    ds = case["downsample"]
    if ds == "angle":
        ds = _downsample_angle(case)
    kw = dict(semiangle_cutoff=case["cutoff"], energy=case["energy"], interpolation=tuple(case["interpolation"]),
              downsample=ds)
    hist = case.get("history")
    if hist:
        # the object is created with another value, used once, and then edited to the value of the case: the property is
        # about the object as it stands, whatever its history
        first = dict(kw)
        first["energy" if hist == "energy" else "semiangle_cutoff"] *= (0.5 if hist == "energy" else 0.7)
        s = abtem.SMatrix(extent=tuple(case["extent"]), gpts=tuple(case["gpts"]), **first) if potential is None \
            else abtem.SMatrix(potential=potential, **first)
        _ = len(s), s.wave_vectors.shape
        if hist == "energy":
            s.energy = kw["energy"]
        else:
            s.semiangle_cutoff = kw["semiangle_cutoff"]
        return s
    if potential is None:
        return abtem.SMatrix(extent=tuple(case["extent"]), gpts=tuple(case["gpts"]), **kw)
    return abtem.SMatrix(potential=potential, **kw)


def _computed(x):
    if isinstance(x, (list, tuple)):
        return [_computed(y) for y in x]
    if hasattr(x, "compute") and getattr(x, "is_lazy", False):
        return x.compute(scheduler="synchronous")
    return x


def _run_s_matrix(case, lazy):
    """the code under test: returns the list of measurements (one per detector), computed."""
    potential = _potential(case)
    entry, chunking = case["entry"], case["chunking"]
    dets = _detectors(case)
    dets = dets[0] if len(dets) == 1 else dets
    scan, ctf = _scan_obj(case), _ctf(case)
    mbm = case["mbm"] if chunking == "mbm" else "auto"
    mbr = case["mbr"] if chunking == "mbr" else "auto"

    if entry == "vacuum.multislice" and potential is None:
        entry = "build.reduce"

    if entry in ("reduce", "scan"):
        s = _s_matrix(case, potential)
        kw = dict(scan=scan, detectors=dets, ctf=ctf, lazy=lazy, max_batch_multislice=mbm, max_batch_reduction=mbr)
        if chunking == "nochunks":
            kw["disable_s_matrix_chunks"] = True
        out = s.reduce(**kw) if entry == "reduce" else s.scan(**kw)
    elif entry == "build.reduce":
        arr = _s_matrix(case, potential).build(lazy=lazy, max_batch=mbm)
        out = arr.reduce(scan=scan, ctf=ctf, detectors=dets, max_batch_reduction=mbr)
    elif entry == "vacuum.multislice":
        arr = _s_matrix(case, None).multislice(potential, lazy=lazy, max_batch=mbm)
        out = arr.reduce(scan=scan, ctf=ctf, detectors=dets, max_batch_reduction=mbr)
    elif entry == "array.scan":
        arr = _s_matrix(case, potential).build(lazy=lazy)
        out = arr.scan(scan=scan, detectors=dets, ctf=ctf)
    else:
        raise ValueError(entry)
    out = _computed(out)
    return list(out) if isinstance(out, (list, tuple)) else [out]


def _run_oracle(case):
    """independent reference: scalar probes, one explicit single-configuration potential at a time, eager.

    returns (arrays, measurements): per detector the stacked reference array with axes
    (configs?, ctf members?, scan..., base...) and one representative reference measurement (for axes metadata)."""
    import numpy as np

    configs, mean = _configs(case)
    members = _ctf_members(case)
    ndet = len(case["detectors"].split("+"))
    per_det = [[] for _ in range(ndet)]
    rep = [None] * ndet
    for atoms in configs:
        rows = [[] for _ in range(ndet)]
        for ab in members:
            probe = _probe(case, ab)
            scan = _scan_obj(case)
            if case["scan"]["type"] == "single":
                import abtem
                scan = abtem.CustomScan([case["scan"]["position"]])
            dets = _detectors(case)
            if atoms is None:
                waves = probe.build(scan=scan, lazy=False)
                ms = [d.detect(waves) for d in dets]
            else:
                ms = probe.multislice(_single_potential(case, atoms), scan=scan, detectors=dets, lazy=False)
                ms = list(ms) if isinstance(ms, (list, tuple)) else [ms]
            for k, m in enumerate(ms):
                m = _computed(m)
                rows[k].append(np.asarray(m.array))
                rep[k] = m
        for k in range(ndet):
            per_det[k].append(np.stack(rows[k]) if case["defocus_series"] is not None else rows[k][0])
    out = []
    names = case["detectors"].split("+")
    for k in range(ndet):
        if len(configs) == 1:
            a = per_det[k][0]
        elif mean and names[k] != "waves":
            a = np.mean(np.stack(per_det[k]), axis=0)
        else:
            a = np.stack(per_det[k])
        out.append(a)
    return out, rep


# ------------------------------------------------------------------------------------------------------------------
# comparisons
# ------------------------------------------------------------------------------------------------------------------

def _relerr(a, b, floor=1e-30):
    import numpy as np

    scale = float(np.abs(b).max()) if b.size else 0.0
    if not (np.all(np.isfinite(a)) and np.all(np.isfinite(b))):
        return float("inf"), scale
    return float(np.abs(a - b).max()) / max(scale, floor), scale


def _squeeze_if_single(case, a):
    """a single position given as a tuple: the number of scan axes is not part of the statement."""
    import numpy as np

    return np.squeeze(a) if case["scan"]["type"] == "single" else a


def _common_freq(n_big, n_small):
    import numpy as np

    k = np.fft.fftfreq(n_small, 1.0 / n_small).round().astype(int)
    return k % n_big, k % n_small


def _fourier_crop(a, shape):
    """Fourier coefficients (unnormalised fft2) of `a` at the frequencies of a grid of `shape`."""
    import numpy as np

    f = np.fft.fft2(a)
    ix, _ = _common_freq(a.shape[-2], shape[0])
    iy, _ = _common_freq(a.shape[-1], shape[1])
    return f[..., ix[:, None], iy[None, :]]


def _compare(case, name, got, ref, ref_meas, tol):
    """got: abTEM measurement from the S-matrix; ref: reference array; returns (ok, detail, nontrivial)."""
    import numpy as np

    a = _squeeze_if_single(case, np.asarray(got.array))
    b = _squeeze_if_single(case, ref)
    # detector signals are fractions of the unit beam intensity: a signal below 1e-6 is compared absolutely
    floor = 1e-30 if name == "waves" else 1e-6
    nt = bool(np.abs(b).max() > floor) if b.size else False
    if type(got).__name__ != type(ref_meas).__name__:
        return False, f"{name}: type {type(got).__name__} vs probe {type(ref_meas).__name__}", nt
    ds = case["downsample"] is not False
    if ds and name == "waves":
        if a.shape[:-2] != b.shape[:-2]:
            return False, f"{name}: ensemble shape {a.shape} vs probe {b.shape}", nt
        if a.shape[-2] > b.shape[-2] or a.shape[-1] > b.shape[-1]:
            return False, f"{name}: down-sampled grid {a.shape} larger than probe grid {b.shape}", nt
        fa = np.fft.fft2(a)
        fb = _fourier_crop(b, a.shape[-2:])
        err, scale = _relerr(fa, fb)
        return err <= tol, f"{name}[fourier, common freqs {a.shape[-2:]} of {b.shape[-2:]}]: rel err {err:.3e} (scale {scale:.3e})", nt
    if ds and name.startswith("pixel"):
        if a.shape[:-2] != b.shape[:-2]:
            return False, f"{name}: ensemble shape {a.shape} vs probe {b.shape}", nt
        sl_a, sl_b = [], []
        for ax_a, ax_b, na, nb in zip(got.axes_metadata[-2:], ref_meas.axes_metadata[-2:], a.shape[-2:], b.shape[-2:]):
            if not math.isclose(ax_a.sampling, ax_b.sampling, rel_tol=1e-5):
                return False, f"{name}: reciprocal sampling {ax_a.sampling} vs probe {ax_b.sampling}", nt
            oa, ob = ax_a.offset / ax_a.sampling, ax_b.offset / ax_b.sampling
            if abs(oa - round(oa)) > 1e-3 or abs(ob - round(ob)) > 1e-3:
                return False, f"{name}: offsets not on the reciprocal lattice ({oa}, {ob})", nt
            oa, ob = int(round(oa)), int(round(ob))
            lo, hi = max(oa, ob), min(oa + na, ob + nb)
            if hi - lo < min(na, nb):
                return False, f"{name}: patterns do not nest: [{oa},{oa + na}) vs [{ob},{ob + nb})", nt
            sl_a.append(slice(lo - oa, hi - oa))
            sl_b.append(slice(lo - ob, hi - ob))
        a2, b2 = a[..., sl_a[0], sl_a[1]], b[..., sl_b[0], sl_b[1]]
        err, scale = _relerr(a2, b2, floor)
        return err <= tol, f"{name}[common pixels {a2.shape[-2:]}]: rel err {err:.3e} (scale {scale:.3e})", nt
    if a.shape != b.shape:
        return False, f"{name}: shape {a.shape} vs probe {b.shape}", nt
    err, scale = _relerr(a, b, floor)
    return err <= tol, f"{name}: rel err {err:.3e} (scale {scale:.3e}, shape {a.shape})", nt


def _coefficient_norm(case):
    """sum_k |c_k|^2 for every CTF member, evaluated by the real SMatrixArray._calculate_ctf_coefficients."""
    import abtem
    import numpy as np

    arr = _s_matrix(case, None).build(lazy=True)
    sums = []
    for ab in _ctf_members(case):
        ctf = abtem.CTF(semiangle_cutoff=case["ctf_cutoff"], soft=case["soft"], energy=case["energy"], **ab)
        ctf.grid.match(arr.dummy_probes())      # what SMatrixArray.reduce does before calling it
        ctf.accelerator.match(arr)
        c = np.asarray(arr._calculate_ctf_coefficients(ctf))
        sums.append(complex(np.sum(np.abs(c) ** 2)).real)
    return sums


def _aggregate(parts):
    ok = all(p[0] for p in parts)
    bad = [p[1] for p in parts if not p[0]]
    detail = "; ".join(bad if bad else [p[1] for p in parts])
    return ok, detail, any(p[2] for p in parts)


def _run_match(case):
    import numpy as np

    out = []
    names = case["detectors"].split("+")
    runs = {}
    for lazy in (True, False):      # code under test first: an exception here is reported against the S-matrix path
        runs[lazy] = _run_s_matrix(case, lazy)
    ref, ref_meas = _run_oracle(case)

    sums = _coefficient_norm(case)
    worst = max(abs(s - 1.0) for s in sums)
    out.append(Res("C06/ctf_coefficients/unit-norm", worst <= 1e-4,
                   f"sum|c_k|^2 = {[round(s, 6) for s in sums]} (expected 1) aberrations={case['aberrations']}", True))

    wave_parts, meas_parts = [], []
    for lazy in (True, False):
        tag = "lazy" if lazy else "eager"
        got = runs[lazy]
        if len(got) != len(names):
            meas_parts.append((False, f"{tag}: {len(got)} measurements for {len(names)} detectors", True))
            continue
        for name, g, r, rm in zip(names, got, ref, ref_meas):
            ok, detail, nt = _compare(case, name, g, r, rm, RTOL)
            (wave_parts if name == "waves" else meas_parts).append((ok, f"{tag} {detail}", nt))
    if wave_parts:
        ok, detail, nt = _aggregate(wave_parts)
        out.append(Res("C06/reduce/exit-waves-equal-probe-multislice", ok, detail, nt))
    if meas_parts:
        ok, detail, nt = _aggregate(meas_parts)
        out.append(Res("C06/reduce/measurements-equal-probe-multislice", ok, detail, nt))

    parts = []
    for name, gl, ge in zip(names, runs[True], runs[False]):
        a, b = _squeeze_if_single(case, np.asarray(gl.array)), _squeeze_if_single(case, np.asarray(ge.array))
        nt = bool(np.any(b != 0))
        if type(gl) is not type(ge):
            parts.append((False, f"{name}: lazy {type(gl).__name__} vs eager {type(ge).__name__}", nt))
        elif a.shape != b.shape:
            parts.append((False, f"{name}: lazy shape {a.shape} vs eager shape {b.shape}", nt))
        else:
            err, scale = _relerr(a, b, 1e-30 if name == "waves" else 1e-6)
            parts.append((err <= RTOL_LAZY, f"{name}: lazy vs eager rel err {err:.3e} (scale {scale:.3e})", nt))
    ok, detail, nt = _aggregate(parts)
    out.append(Res("C06/reduce/lazy-equals-eager", ok, detail, nt))
    return out


# ---- interpolation ------------------------------------------------------------------------------------------------

def _positions(case):
    import numpy as np

    s = case["scan"]
    if s["type"] == "custom":
        return np.array(s["positions"], float), (len(s["positions"]),)
    if s["type"] == "single":
        return np.array([s["position"]], float), (1,)
    if s["type"] == "line":
        t = np.linspace(0.0, 1.0, s["gpts"], endpoint=True)[:, None]
        return np.array(s["start"])[None] * (1 - t) + np.array(s["end"])[None] * t, (s["gpts"],)
    if s["type"] == "grid":
        x = np.linspace(s["start"][0], s["end"][0], s["gpts"][0], endpoint=s["endpoint"])
        y = np.linspace(s["start"][1], s["end"][1], s["gpts"][1], endpoint=s["endpoint"])
        xx, yy = np.meshgrid(x, y, indexing="ij")
        return np.stack([xx.ravel(), yy.ravel()], -1), tuple(s["gpts"])
    raise ValueError(s["type"])


def _run_interp(case):
    """reduced probe == window (centred on the position, to pixel rounding) of the exit wave of the periodically
    repeated small probe."""
    import abtem
    import numpy as np

    f = case["interpolation"]
    gpts, extent = case["gpts"], case["extent"]
    small_gpts = (gpts[0] // f[0], gpts[1] // f[1])
    small_extent = (extent[0] / f[0], extent[1] / f[1])
    positions, scan_shape = _positions(case)
    configs, _ = _configs(case)
    ab = _ctf_members(case)[0]

    runs = {lazy: _run_s_matrix(case, lazy)[0] for lazy in (True, False)}
    parts = []
    for lazy, got in runs.items():
        tag = "lazy" if lazy else "eager"
        a = np.asarray(got.array)
        win = a.shape[-2:]
        lead = ((len(configs),) if len(configs) > 1 else ()) + (scan_shape if case["scan"]["type"] != "single" else ())
        if case["scan"]["type"] == "single":
            a = a.reshape(((len(configs),) if len(configs) > 1 else ()) + win) if a.size == int(
                np.prod(lead + win)) else a
        if a.shape[:-2] != lead:
            parts.append((False, f"{tag}: ensemble shape {a.shape[:-2]} expected {lead}", True))
            continue
        a = a.reshape((len(configs), len(positions)) + win)
        # grid on which the S-matrix lives after down-sampling: window * interpolation
        dgpts = (win[0] * f[0], win[1] * f[1])
        if case["downsample"] is False and dgpts != tuple(gpts):
            parts.append((False, f"{tag}: window {win} x interpolation {f} != gpts {gpts}", True))
            continue
        worst, worst_detail, nt = 0.0, "", False
        for ic, atoms in enumerate(configs):
            for ip, p in enumerate(positions):
                probe = _probe(case, ab, extent=small_extent, gpts=small_gpts)
                q = [float(p[0] % small_extent[0]), float(p[1] % small_extent[1])]
                small = np.asarray(probe.build(scan=abtem.CustomScan([q]), lazy=False).array)[0]
                big = np.tile(small, tuple(f))
                if atoms is not None:
                    w = abtem.Waves(big, energy=case["energy"], extent=tuple(extent))
                    big = np.asarray(_computed(w.multislice(_single_potential(case, atoms))).array)
                    big = big.reshape(big.shape[-2:])
                if dgpts != tuple(gpts):
                    big = np.fft.ifft2(_fourier_crop(big, dgpts))
                pix = np.array([p[0] / extent[0] * dgpts[0], p[1] / extent[1] * dgpts[1]])
                # admissible corners: the window centre lies within one pixel of the probe position
                cand = [range(int(math.ceil(pix[k] - win[k] / 2.0 - 1.0 - 1e-6)),
                              int(math.floor(pix[k] - win[k] / 2.0 + 1.0 + 1e-6)) + 1) for k in (0, 1)]
                best = None
                for cx in cand[0]:
                    for cy in cand[1]:
                        ix = (cx + np.arange(win[0])) % dgpts[0]
                        iy = (cy + np.arange(win[1])) % dgpts[1]
                        refw = big[ix[:, None], iy[None, :]]
                        err, scale = _relerr(a[ic, ip], refw)
                        if best is None or err < best[0]:
                            best = (err, scale, cx, cy)
                nt = nt or best[1] > 0
                if best[0] >= worst:
                    worst = best[0]
                    worst_detail = (f"{tag}: config {ic} position {p.tolist()} window {win}: best rel err {best[0]:.3e} "
                                    f"at corner ({best[2]},{best[3]}), position = {pix.round(2).tolist()} px (scale {best[1]:.3e})")
        parts.append((worst <= RTOL, worst_detail, nt))
    ok, detail, nt = _aggregate(parts)
    out = [Res("C06/interpolation/reduced-probe-equals-cropped-window-probe", ok, detail, nt)]

    a, b = (_squeeze_if_single(case, np.asarray(runs[k].array)) for k in (True, False))
    if a.shape != b.shape:
        out.append(Res("C06/reduce/lazy-equals-eager", False, f"waves: lazy shape {a.shape} vs eager {b.shape}", True))
    else:
        err, scale = _relerr(a, b)
        out.append(Res("C06/reduce/lazy-equals-eager", err <= RTOL_LAZY,
                       f"waves (interpolation {f}): lazy vs eager rel err {err:.3e} (scale {scale:.3e})", scale > 0))
    return out


def run_case(case):
    import warnings

    with warnings.catch_warnings():
        warnings.simplefilter("ignore")
        if case["kind"] == "interp":
            return _run_interp(case)
        return _run_match(case)
