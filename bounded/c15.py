"""C15 — Fourier interpolation and shifting obey their algebra (bounded run-time contracts on the real functions).

Contracts on abtem.core.fft.fft_interpolate / fft_shift / fft_shift_kernel and abtem.waves.Waves.downsample.

Oracles (all taken from the statement, none from abTEM):
  * up -> down identity:           x == interp(interp(x, hi), lo)                       (algebraic law, any array)
  * 'values' keeps the mean:       mean(out) == mean(in) per ensemble member            (NumPy)
  * 'intensity' keeps the total reciprocal-space intensity of band-limited arrays:
                                   sum|np.fft.fftn(out)|^2 == sum|np.fft.fftn(in)|^2    (NumPy FFT)
  * band-limited content:          a trigonometric polynomial with |k| < min(n_old, n_new)/2 sampled on the old grid
                                   becomes the *same* polynomial sampled on the new grid (analytic law); this is the
                                   Waves.downsample clause, evaluated both on Waves.downsample and on the function
                                   it delegates to
  * whole-pixel shift == np.roll, shift(shift(x,p),q) == shift(x,p+q), kernel(p)*kernel(q) == kernel(p+q)

"Band-limited" is made precise as: all Fourier coefficients with |k_i| > (min(n_old_i, n_new_i) - 1)//2 vanish, i.e.
the content lies strictly inside the Nyquist frequency of the coarser grid in every axis.
"""

import itertools

import numpy as np

from vlib.hx import Res, covering, rel_close, rng_for

PROPERTY = "C15"
RULE = ("kind=interp: 1-D interpolation exhaustive over all (n_old, n_new) in sizes^2, 2-D by a pairwise covering array "
        "over (n_old, n_new) per axis x dtype x ensemble (batch) shape, 3-D by seeded samples; random arrays for "
        "identity/mean, random trigonometric polynomials for intensity/content. kind=shift: covering array over grid "
        "parities x dtype x batch x number of simultaneous positions, seeded integer and fractional shift vectors "
        "(negative, zero, larger than the grid). kind=waves: Waves.downsample over gpts/extent/ensemble shape x "
        "{gpts, 'cutoff', 'valid', angle} x normalization x lazy/eager with ensemble chunking. Non-trivial: the array is "
        "not constant and old/new shapes differ (interp), some shift is non-zero (shift). Distinct = distinct case dict.")
BOUNDS = {
    "sizes_1d": {"quick": list(range(1, 10)), "thorough": list(range(1, 17))},
    "sizes_2d": [1, 2, 3, 4, 5, 6, 7, 8, 9, 11, 12, 16],
    "dtypes_interp": ["float32", "float64", "complex64", "complex128"],
    "dtypes_shift": ["complex64", "complex128"],
    "batch_shapes": [[], [1], [3], [2, 2]],
    "shift_range_pixels": [-20, 20],
    "waves_gpts": [6, 24],
    "extra_random_2d": {"quick": 40, "thorough": 600},
    "n_3d": {"quick": 16, "thorough": 150},
    "n_shift_extra": {"quick": 30, "thorough": 400},
    "n_waves": {"quick": 56, "thorough": 400},
}
EXHAUSTIVE = False
ASSUMPTIONS = [
    "abTEM computes in single precision: comparisons use max|a-b| <= 1e-4 * max|b| (rel_close); means 1e-4 of max|x|",
    "band-limited := Fourier coefficients vanish for |k_i| > (min(n_old_i, n_new_i)-1)//2 in every axis",
    "fft_shift is evaluated on complex arrays only: abtem.core.fft.fft2 with the configured 'fftw' backend does not "
    "accept real arrays (pyfftw complex-to-complex plan), so real dtypes are outside fft_shift's precondition; "
    "fft_interpolate casts to complex itself and is evaluated on all four dtypes",
    "NumPy's FFT (np.fft) is the trusted reference for reciprocal-space sums",
]
CONTRACTS = ["abtem/core/fft.py:fft_interpolate", "abtem/core/fft.py:fft_crop", "abtem/core/fft.py:fft_shift",
             "abtem/core/fft.py:fft_shift_kernel", "abtem/waves.py:Waves.downsample"]


# ------------------------------------------------------------------------------------------------ cases


def _ri(r, lo, hi):
    return int(r.integers(lo, hi + 1))


def cases(tier, seed):
    # ---- fft_interpolate, 1-D exhaustive
    sizes = BOUNDS["sizes_1d"][tier]
    dts = BOUNDS["dtypes_interp"]
    batches = BOUNDS["batch_shapes"]
    i = 0
    for n_old, n_new in itertools.product(sizes, repeat=2):
        yield dict(kind="interp", dtype=dts[i % 4], shape=[n_old], new_shape=[n_new], batch=batches[(i // 4) % 4],
                   s=i)
        i += 1
    # ---- fft_interpolate, 2-D covering
    s2 = BOUNDS["sizes_2d"]
    axes = dict(o0=s2, n0=s2, o1=s2, n1=s2, dtype=dts, batch=list(range(len(batches))))
    for j, c in enumerate(covering(axes, seed=seed, extra_random=BOUNDS["extra_random_2d"][tier])):
        yield dict(kind="interp", dtype=c["dtype"], shape=[c["o0"], c["o1"]], new_shape=[c["n0"], c["n1"]],
                   batch=batches[c["batch"]], s=j)
    # 2-D: every parity / direction combination for both real and complex at small sizes (exhaustive block)
    small = [3, 4, 6, 7]
    j = 0
    for o0, n0, o1, n1 in itertools.product(small, repeat=4):
        if tier == "quick" and (o0 + 2 * n0 + 3 * o1 + 5 * n1) % 4 != 0:
            continue
        yield dict(kind="interp", dtype=dts[j % 4], shape=[o0, o1], new_shape=[n0, n1], batch=batches[(j // 4) % 4],
                   s=1000 + j)
        j += 1
    # ---- 3-D samples
    r = rng_for(seed, "c15-3d")
    for j in range(BOUNDS["n_3d"][tier]):
        yield dict(kind="interp", dtype=dts[j % 4], shape=[_ri(r, 1, 7) for _ in range(3)],
                   new_shape=[_ri(r, 1, 8) for _ in range(3)], batch=batches[_ri(r, 0, 2)], s=2000 + j)

    # ---- shifts
    gs = [1, 2, 5, 6, 8, 9]
    axes = dict(ny=gs, nx=gs, dtype=BOUNDS["dtypes_shift"], batch=list(range(len(batches))), npos=[0, 1, 3],
                int_as_int=[False, True])
    r = rng_for(seed, "c15-shift")
    lo, hi = BOUNDS["shift_range_pixels"]
    for j, c in enumerate(covering(axes, seed=seed + 1, extra_random=BOUNDS["n_shift_extra"][tier])):
        npos = c["npos"]
        m = max(npos, 1)
        p_int = [[_ri(r, lo, hi) if r.random() < 0.4 else _ri(r, -3, 3) for _ in range(2)] for _ in range(m)]
        if j % 7 == 0:
            p_int[0] = [0, 0]
        if j % 7 == 1:
            p_int[0] = [c["ny"], -c["nx"]]            # a full period
        p = [[float(np.round(r.uniform(-4, 4), 3)) for _ in range(2)] for _ in range(m)]
        q = [[float(np.round(r.uniform(-4, 4), 3)) for _ in range(2)] for _ in range(m)]
        # fractional pairs adding up to whole pixels (half-pixel steps etc.)
        h = [[float(r.choice([0.5, 0.25, 1.5, -0.75, 2.125])) for _ in range(2)] for _ in range(m)]
        tot = [[_ri(r, -3, 3) for _ in range(2)] for _ in range(m)]
        yield dict(kind="shift", dtype=c["dtype"], shape=[c["ny"], c["nx"]], batch=batches[c["batch"]], npos=npos,
                   int_as_int=c["int_as_int"], p_int=p_int, p=p, q=q, h=h, tot=tot, s=j)

    # ---- Waves.downsample
    r = rng_for(seed, "c15-waves")
    modes = ["gpts", "gpts", "cutoff", "valid", "angle"]
    ens = [[], [2], [3], [2, 3]]
    for j in range(BOUNDS["n_waves"][tier]):
        g = [_ri(r, 6, 24), _ri(r, 6, 24)]
        if j % 5 == 0:
            g[1] = g[0]
        mode = modes[j % len(modes)]
        e = ens[(j // len(modes)) % len(ens)]
        lazy = bool((j // 2) % 2)
        # chunking of the ensemble axes for the lazy run: 1 = one member per chunk, 0 = single chunk
        yield dict(kind="waves", gpts=g, extent=[float(np.round(r.uniform(3, 12), 3)), float(np.round(r.uniform(3, 12), 3))],
                   energy=float(r.choice([60e3, 100e3, 200e3, 300e3])), ens=e, mode=mode,
                   new_gpts=[_ri(r, 2, g[0]), _ri(r, 2, g[1])], angle_fraction=float(np.round(r.uniform(0.15, 0.9), 3)),
                   normalization=["values", "amplitude", "values"][j % 3], lazy=lazy, chunk1=bool(j % 3 == 0), s=j)


# ------------------------------------------------------------------------------------------------ helpers


def _trig(shape, ks, coefs):
    """sum_k c_k exp(2 pi i k.x/n) sampled on the grid `shape` (analytic reference; no FFT involved)."""
    grids = np.meshgrid(*[np.arange(n) / n for n in shape], indexing="ij")
    out = np.zeros(shape, dtype=np.complex128)
    for c, k in zip(coefs, ks):
        ph = 0.0
        for ki, g in zip(k, grids):
            ph = ph + 2 * np.pi * ki * g
        out += c * np.exp(1j * ph)
    return out


def _band(shape, new_shape):
    return [(min(a, b) - 1) // 2 for a, b in zip(shape, new_shape)]


def _bandlimited(r, shape, new_shape, batch, real):
    """Members of a batch of random band-limited fields on `shape` and the same fields on `new_shape`."""
    b = _band(shape, new_shape)
    allk = list(itertools.product(*[range(-bi, bi + 1) for bi in b]))
    nb = int(np.prod(batch)) if len(batch) else 1
    olds, news = [], []
    for _ in range(nb):
        nk = min(len(allk), 6)
        idx = r.choice(len(allk), size=nk, replace=False)
        ks = [allk[i] for i in idx]
        coefs = r.normal(size=nk) + 1j * r.normal(size=nk)
        if real:  # hermitian-symmetric coefficient set -> real field, still band-limited (support symmetric)
            ks = ks + [tuple(-x for x in k) for k in ks]
            coefs = np.concatenate([coefs, np.conj(coefs)])
        olds.append(_trig(shape, ks, coefs))
        news.append(_trig(new_shape, ks, coefs))
    old = np.stack(olds).reshape(tuple(batch) + tuple(shape))
    new = np.stack(news).reshape(tuple(batch) + tuple(new_shape))
    if real:
        old, new = old.real, new.real
    return old, new, b


def _not_const(x):
    x = np.asarray(x)
    return bool(x.size > 1 and np.ptp(np.abs(x - x.flat[0])) > 0)


# ------------------------------------------------------------------------------------------------ run


def _run_interp(case):
    from abtem.core.fft import fft_interpolate

    dt = np.dtype(case["dtype"])
    real = dt.kind == "f"
    shape, new, batch = tuple(case["shape"]), tuple(case["new_shape"]), tuple(case["batch"])
    d = len(shape)
    ax = tuple(range(-d, 0))
    r = rng_for(0, "c15-interp", case["s"], shape, new, case["dtype"])
    out = []
    differ = shape != new

    # ---- identity: lo -> hi -> lo on an arbitrary (not band-limited) array
    lo = tuple(min(a, b) for a, b in zip(shape, new))
    hi = tuple(max(a, b) for a, b in zip(shape, new))
    x = r.normal(size=batch + lo)
    if not real:
        x = x + 1j * r.normal(size=batch + lo)
    x = x.astype(dt)
    x0 = x.copy()
    up = fft_interpolate(x, hi)
    back = fft_interpolate(up, lo)
    ok, det = rel_close(back, x0, 1e-4)
    ok = ok and up.shape == batch + hi
    out.append(Res("C15/fft_interpolate/updown-identity", ok,
                   f"{case['dtype']} {lo}->{hi}->{lo} batch={batch}: {det}; up.shape={up.shape}", lo != hi))

    # ---- 'values' keeps the mean of each member (arbitrary array, actual direction of the case)
    y = r.normal(size=batch + shape) + 0.7
    if not real:
        y = y + 1j * (r.normal(size=batch + shape) - 0.3)
    y = y.astype(dt)
    yv = fft_interpolate(y, new, normalization="values")
    m_in = y.mean(axis=ax)
    okshape = yv.shape == batch + new
    if okshape:
        m_out = yv.mean(axis=ax)
        err = float(np.max(np.abs(m_out - m_in))) if np.size(m_in) else 0.0
        scale = float(np.max(np.abs(y)))
        ok = err <= 1e-4 * scale
        det = f"max|mean_out-mean_in|={err:.3e} scale={scale:.3e} (mean_in={np.ravel(m_in)[:2]}, mean_out={np.ravel(m_out)[:2]})"
    else:
        ok, det = False, f"shape {yv.shape} != {batch + new}"
    out.append(Res("C15/fft_interpolate/values-mean", ok, f"{case['dtype']} {shape}->{new} batch={batch}: {det}", differ))

    # ---- band-limited arrays: content under 'values', total reciprocal-space intensity under 'intensity'
    old_f, new_f, b = _bandlimited(r, shape, new, batch, real)
    z = old_f.astype(dt)
    zv = fft_interpolate(z, new, normalization="values")
    ok, det = rel_close(zv, new_f, 1e-4) if zv.shape == new_f.shape else (False, f"shape {zv.shape} != {new_f.shape}")
    nt = differ and _not_const(old_f)
    out.append(Res("C15/fft_interpolate/bandlimited-content", ok,
                   f"{case['dtype']} {shape}->{new} batch={batch} band={b}: {det}", nt))
    zi = fft_interpolate(z, new, normalization="intensity")
    i_in = (np.abs(np.fft.fftn(z.astype(np.complex128), axes=ax)) ** 2).sum(axis=ax)
    if zi.shape == batch + new:
        i_out = (np.abs(np.fft.fftn(np.asarray(zi).astype(np.complex128), axes=ax)) ** 2).sum(axis=ax)
        ok, det = rel_close(i_out, i_in, 2e-4)
    else:
        ok, det = False, f"shape {zi.shape} != {batch + new}"
    out.append(Res("C15/fft_interpolate/intensity-total", ok,
                   f"{case['dtype']} {shape}->{new} batch={batch} band={b}: sum|F|^2 {det}", differ and bool(np.any(i_in > 0))))
    return out


def _run_shift(case):
    from abtem.core.fft import fft_shift, fft_shift_kernel

    dt = np.dtype(case["dtype"])
    shape, batch, npos = tuple(case["shape"]), tuple(case["batch"]), case["npos"]
    r = rng_for(0, "c15-shift-run", case["s"], shape)
    # with several simultaneous positions the array gets a broadcast axis in front of the grid axes
    full = batch + ((1,) if npos else ()) + shape
    x = (r.normal(size=full) + 1j * r.normal(size=full)).astype(dt)
    x0 = x.copy()

    def pos(lst, integer=False):
        a = np.array(lst, dtype=int if (integer and case["int_as_int"]) else float)
        return a if npos else a[0]

    def rolled(arr, plist):
        res = []
        for pv in (plist if npos else plist[:1]):
            res.append(np.roll(arr[..., 0, :, :] if npos else arr, (int(pv[0]), int(pv[1])), axis=(-2, -1)))
        return np.stack(res, axis=-3) if npos else res[0]

    out = []
    p_int = case["p_int"]
    nz = any(any(v != 0 for v in pv) for pv in p_int)
    y = fft_shift(x, pos(p_int, True))
    ref = rolled(x0, p_int)
    ok, det = rel_close(y, ref, 1e-4)
    out.append(Res("C15/fft_shift/integer-roll", ok,
                   f"{case['dtype']} grid={shape} batch={batch} p={p_int[:max(npos, 1)]}: {det}", nz))

    # composition with arbitrary fractional shifts (the composed run needs the same broadcast layout)
    p, q = case["p"], case["q"]
    pq = [[a + b for a, b in zip(u, v)] for u, v in zip(p, q)]
    if npos:
        # shift member j by p_j then by q_j: feed the (already expanded) result back with one position each
        first = fft_shift(x, pos(p))
        second = np.stack([fft_shift(first[..., j, :, :], np.array(q[j], float)) for j in range(npos)], axis=-3)
    else:
        second = fft_shift(fft_shift(x, pos(p)), pos(q))
    direct = fft_shift(x, pos(pq))
    ok, det = rel_close(second, direct, 1e-4)
    out.append(Res("C15/fft_shift/compose", ok, f"{case['dtype']} grid={shape} batch={batch} p={p} q={q}: {det}", True))

    # two fractional shifts adding up to whole pixels must be a roll
    h, tot = case["h"], case["tot"]
    h2 = [[t - a for a, t in zip(u, v)] for u, v in zip(h, tot)]
    if npos:
        first = fft_shift(x, pos(h))
        second = np.stack([fft_shift(first[..., j, :, :], np.array(h2[j], float)) for j in range(npos)], axis=-3)
    else:
        second = fft_shift(fft_shift(x, pos(h)), pos(h2))
    ok, det = rel_close(second, rolled(x0, tot), 1e-4)
    out.append(Res("C15/fft_shift/compose-to-roll", ok,
                   f"{case['dtype']} grid={shape} batch={batch} h={h} then {h2} (total {tot}): {det}", True))

    # kernels: product law, unit kernel at zero shift, 1-D kernel
    kp, kq, kpq = (fft_shift_kernel(np.array(v, float), shape) for v in (p, q, pq))
    ok, det = rel_close(kp * kq, kpq, 1e-4)
    out.append(Res("C15/fft_shift_kernel/compose", ok and kp.shape == (len(p),) + shape,
                   f"grid={shape} p={p} q={q}: {det}; kernel shape {kp.shape}", True))
    k0 = fft_shift_kernel(np.zeros(2), shape)
    ok, det = rel_close(k0, np.ones(shape), 1e-6)
    out.append(Res("C15/fft_shift_kernel/zero-is-identity", ok, det, True))
    n1 = shape[0]
    k1 = fft_shift_kernel(np.array([[float(p_int[0][0])]]), (n1,))
    v = (r.normal(size=n1) + 1j * r.normal(size=n1))
    ok, det = rel_close(np.fft.ifft(np.fft.fft(v) * k1[0]), np.roll(v, int(p_int[0][0])), 1e-4)
    out.append(Res("C15/fft_shift_kernel/integer-roll-1d", ok, f"n={n1} p={p_int[0][0]}: {det}", p_int[0][0] % n1 != 0))
    return out


def _run_waves(case):
    import dask.array as da

    from abtem.core.axes import ParameterAxis, ThicknessAxis
    from abtem.waves import Waves

    g, ext, ens = tuple(case["gpts"]), tuple(case["extent"]), tuple(case["ens"])
    r = rng_for(0, "c15-waves-run", case["s"], g)
    axes_md = [ParameterAxis(label="a", values=tuple(float(i) for i in range(ens[0])))] if len(ens) >= 1 else []
    if len(ens) == 2:
        axes_md.append(ThicknessAxis(values=tuple(float(i + 1) for i in range(ens[1]))))

    def make(arr):
        arr = arr.astype(np.complex64)
        if case["lazy"]:
            ch = tuple(1 if case["chunk1"] else -1 for _ in ens) + (-1, -1)
            arr = da.from_array(arr, chunks=ch)
        return Waves(arr, energy=case["energy"], extent=ext, ensemble_axes_metadata=[a.copy() for a in axes_md])

    def call(w):
        if case["mode"] == "gpts":
            return w.downsample(gpts=tuple(case["new_gpts"]), normalization=case["normalization"])
        if case["mode"] == "angle":
            a = case["angle_fraction"] * min(w.angular_sampling[0] * (g[0] // 2), w.angular_sampling[1] * (g[1] // 2))
            return w.downsample(max_angle=float(a), normalization=case["normalization"])
        return w.downsample(max_angle=case["mode"], normalization=case["normalization"])

    # first call on a dummy wave only to learn the grid abTEM picks for this mode (input generation, not the oracle)
    probe = call(make(np.ones(ens + g)))
    new = tuple(int(n) for n in probe.gpts)
    old_f, new_f, b = _bandlimited(r, g, new, ens, real=False)
    w = make(old_f)
    dsw = call(w)
    res = dsw.compute(scheduler="synchronous") if case["lazy"] else dsw
    arr = np.asarray(res.array)
    out = []
    tag = (f"gpts {g}->{new} mode={case['mode']} ens={ens} lazy={case['lazy']} chunk1={case['chunk1']} "
           f"norm={case['normalization']} band={b}")
    nt = _not_const(old_f) and new != g
    okshape = arr.shape == ens + new and tuple(res.gpts) == new
    if case["normalization"] == "values":
        ok, det = rel_close(arr, new_f, 1e-4) if okshape else (False, f"shape {arr.shape} != {ens + new}")
        out.append(Res("C15/Waves.downsample/bandlimited-content", ok, f"{tag}: {det}", nt))
    # reciprocal-space content: coefficients at every retained frequency are those of the input
    if okshape:
        f_in = np.fft.fft2(old_f)
        f_out = np.fft.fft2(arr.astype(np.complex128))
        if case["normalization"] == "values":
            f_out = f_out / (new[0] * new[1]) * (g[0] * g[1])
        exp = np.zeros(ens + new, dtype=np.complex128)
        for k0 in range(-b[0], b[0] + 1):
            for k1 in range(-b[1], b[1] + 1):
                exp[..., k0 % new[0], k1 % new[1]] = f_in[..., k0 % g[0], k1 % g[1]]
        ok, det = rel_close(f_out, exp, 1e-4)
    else:
        ok, det = False, f"shape {arr.shape} != {ens + new}"
    out.append(Res("C15/Waves.downsample/bandlimited-coefficients", ok, f"{tag}: {det}", nt))
    if okshape and case["mode"] == "cutoff":
        # a wave that has been down-sampled to its band limit already: doing it again keeps the grid and the content
        again = call(res)
        again = again.compute(scheduler="synchronous") if getattr(again, "is_lazy", False) else again
        arr2 = np.asarray(again.array)
        same_grid = tuple(int(n) for n in again.gpts) == new and arr2.shape == arr.shape
        ok2, det2 = rel_close(arr2, arr, 1e-4) if same_grid else (False, f"grid {tuple(again.gpts)} after the second call, {new} after the first")
        out.append(Res("C15/Waves.downsample/second-call-keeps-grid-and-content", ok2, f"{tag}: {det2}", nt))
    e_new = tuple(res.extent)
    ok = all(abs(a - b_) <= 1e-6 * abs(b_) for a, b_ in zip(e_new, ext))
    out.append(Res("C15/Waves.downsample/extent", ok, f"{tag}: extent {e_new} vs {ext}", True))
    return out


def run_case(case):
    if case["kind"] == "interp":
        return _run_interp(case)
    if case["kind"] == "shift":
        return _run_shift(case)
    return _run_waves(case)
