"""C27 — structure factors respect crystal symmetry (bounded run-time contract on the real code).

Contract on abtem.bloch.StructureFactor(.build) / calculate_structure_factors / get_reflection_condition /
make_hkl_grid / StructureFactorArray.get_potential_3d for a real crystal (atoms, cell, centering, g_max, thermal
sigmas, occupancies):

    friedel                   the reflection set is inversion symmetric and F(-h) == conj(F(h))
    forbidden-zero            every reflection that abTEM treats as forbidden for the centering in force (given, or
                              auto-detected) has zero structure factor in the crystal at hand, i.e. nothing non-zero is
                              dropped; reference: the real calculate_structure_factors on the complete (P) grid
    reflection-condition      get_reflection_condition(hkl, X) is the parity rule of the International Tables for
                              X in P, I, F, A, B, C  (A: k+l, B: h+l, C: h+k even; I: h+k+l even; F: unmixed parity)
    centred-crystal-zero      for a crystal built with the textbook centring translations of X, the structure factors
                              on the complete grid vanish at the reflections forbidden by X
    potential-real            the inverse Fourier transform of the 3-D structure-factor array has a negligible imaginary
                              part, and get_potential_3d returns finite real values
    potential-periodic        the reconstructed potential is the Fourier series sum_h F_h exp(2 pi i h.s) with integer h:
                              it agrees with an independent NumPy evaluation of that series at grid points and the
                              series takes the same value at s and s + lattice vector
    translation-invariant     translating all atoms by a lattice vector leaves reflections and structure factors unchanged

Oracles: algebraic laws of the statement, International Tables parity rules, an independent NumPy Fourier sum.
"""

import itertools

import numpy as np

from vlib.hx import Res, covering, rng_for

PROPERTY = "C27"
CELLS = ["cubic", "tetragonal", "orthorhombic", "hexagonal", "triclinic"]
CENTRINGS = ["P", "I", "F", "A", "B", "C", "half_x", "half_y", "half_z"]
TRANSL = {
    "P": [[0, 0, 0]],
    "I": [[0, 0, 0], [.5, .5, .5]],
    "F": [[0, 0, 0], [0, .5, .5], [.5, 0, .5], [.5, .5, 0]],
    "A": [[0, 0, 0], [0, .5, .5]],
    "B": [[0, 0, 0], [.5, 0, .5]],
    "C": [[0, 0, 0], [.5, .5, 0]],
    # primitive crystals that merely have a half-cell translation along one axis
    "half_x": [[0, 0, 0], [.5, 0, 0]],
    "half_y": [[0, 0, 0], [0, .5, 0]],
    "half_z": [[0, 0, 0], [0, 0, .5]],
}
RULE = ("pairwise covering array over cell {cubic, tetragonal, orthorhombic, hexagonal, triclinic} x crystal centring "
        "{P, I, F, A, B, C built with the textbook translations, and primitive crystals with a half-cell translation along "
        "x, y or z} x centering argument {auto, the textbook symbol, P} x g_max x thermal sigma {0, scalar, per element, "
        "per atom, anisotropic} x occupancy {1, scalar, per element} x cutoff x parametrization x lazy/eager build x basis "
        "size {1,2} (seeded random fractional positions and lattice translation), plus the exhaustive list of the six "
        "centring symbols for the reflection-condition table. Centred crystals are only built on orthogonal cells. "
        "Non-trivial: more than one reflection with non-zero structure factor. Distinct = distinct case dict.")
BOUNDS = {
    "cells": CELLS, "centrings": CENTRINGS, "centering_arg": ["auto", "symbol", "P"], "g_max": [1.2, 2.0, 2.7],
    "sigma": ["zero", "scalar", "element", "atom", "aniso", "element_zero", "atom_zero", "aniso_zero"], "occupancy": ["one", "scalar", "element"],
    "cutoff": ["taper", "hard"], "parametrization": ["lobato", "kirkland"], "lazy": [False, True], "basis": [1, 2],
    "translation_max": 3, "extra_random_cases": {"quick": 25, "thorough": 400},
}
EXHAUSTIVE = False
ASSUMPTIONS = [
    "float32 pipeline: 'zero' / 'equal' means <= 2e-4 * max|F| (phases 2 pi h.x are evaluated in float32; translations "
    "are limited to 3 lattice vectors per axis so the phase argument stays below ~1e2)",
    "imaginary part of the reconstructed potential <= 2e-4 * max|V|",
    "the reference for 'structure factor of a dropped reflection' is the real calculate_structure_factors on the P grid",
    "International Tables reflection conditions for lattice centrings are the oracle of the reflection-condition clause",
]
CONTRACTS = ["abtem/bloch/dynamical.py:StructureFactor.__init__", "abtem/bloch/dynamical.py:StructureFactor.build",
             "abtem/bloch/dynamical.py:calculate_structure_factors", "abtem/bloch/dynamical.py:calculate_scattering_factors",
             "abtem/bloch/dynamical.py:structure_factor_to_potential", "abtem/bloch/utils.py:make_hkl_grid",
             "abtem/bloch/utils.py:get_reflection_condition", "abtem/bloch/utils.py:auto_detect_centering"]

OB_FRIEDEL = "C27/structure-factor/friedel-symmetry"
OB_FORBID = "C27/structure-factor/forbidden-reflections-are-zero"
OB_TABLE = "C27/get_reflection_condition/international-tables-parity"
OB_CENTRED = "C27/structure-factor/centred-crystal-extinctions"
OB_REAL = "C27/potential/real"
OB_PERIODIC = "C27/potential/cell-periodic-fourier-series"
OB_TRANSL = "C27/structure-factor/lattice-translation-invariant"

RTOL = 2e-4


def cases(tier, seed):
    # the finite table of centring symbols (both letter cases)
    for sym in ["P", "I", "F", "A", "B", "C", "p", "i", "f", "a", "b", "c"]:
        yield dict(kind="table", symbol=sym)
    axes = dict(cell=CELLS, centring=CENTRINGS, centering_arg=BOUNDS["centering_arg"], g_max=BOUNDS["g_max"],
                sigma=BOUNDS["sigma"], occupancy=BOUNDS["occupancy"], cutoff=BOUNDS["cutoff"],
                parametrization=BOUNDS["parametrization"], lazy=BOUNDS["lazy"], basis=BOUNDS["basis"])
    rows = covering(axes, seed=seed + 27, extra_random=BOUNDS["extra_random_cases"][tier])
    seen = set()
    for k, row in enumerate(rows):
        c = dict(row)
        if c["centring"] != "P" and c["cell"] in ("hexagonal", "triclinic"):
            c["cell"] = ["cubic", "tetragonal", "orthorhombic"][k % 3]
        key = str(sorted(c.items()))
        if key in seen:
            continue
        seen.add(key)
        c["kind"] = "crystal"
        c["data_seed"] = k
        yield c
    # oblique cells over a finer sweep of g_max: the number of grid points per axis follows ceil(g_max / dk), so both
    # parities of that count and every fractional part of g_max / dk have to occur for the inversion symmetry clause
    sweep = [1.0, 1.3, 1.55, 1.8, 2.15, 2.5, 3.0] if tier == "quick" else [round(0.9 + 0.11 * j, 3) for j in range(26)]
    for k, g in enumerate(sweep):
        for cell in ("hexagonal", "triclinic"):
            yield dict(kind="crystal", cell=cell, centring="P", centering_arg="auto", g_max=g, sigma=["zero", "scalar"][k % 2],
                       occupancy="one", cutoff=["taper", "hard"][k % 2], parametrization="lobato", lazy=False, basis=1 + k % 2,
                       data_seed=700 + k)
    # every centring once with auto detection and once with its symbol, smallest g_max
    for k, cen in enumerate(CENTRINGS):
        for arg in ("auto", "symbol"):
            yield dict(kind="crystal", cell="orthorhombic", centring=cen, centering_arg=arg, g_max=1.2, sigma="scalar",
                       occupancy="one", cutoff="taper", parametrization="lobato", lazy=False, basis=1, data_seed=500 + k)


# ------------------------------------------------------------------------------------------------


def _textbook_allowed(hkl, sym):
    h, k, l = hkl[:, 0], hkl[:, 1], hkl[:, 2]
    s = sym.upper()
    if s == "P":
        return np.ones(len(hkl), bool)
    if s == "I":
        return (h + k + l) % 2 == 0
    if s == "F":
        return ((h % 2) == (k % 2)) & ((k % 2) == (l % 2))
    if s == "A":
        return (k + l) % 2 == 0
    if s == "B":
        return (h + l) % 2 == 0
    if s == "C":
        return (h + k) % 2 == 0
    raise ValueError(sym)


def _cell(kind, r):
    a = float(r.uniform(3.0, 4.2))
    if kind == "cubic":
        return np.diag([a, a, a])
    if kind == "tetragonal":
        return np.diag([a, a, a * float(r.uniform(1.2, 1.5))])
    if kind == "orthorhombic":
        return np.diag([a, a * float(r.uniform(1.1, 1.3)), a * float(r.uniform(1.35, 1.6))])
    if kind == "hexagonal":
        return np.array([[a, 0, 0], [-a / 2, a * np.sqrt(3) / 2, 0], [0, 0, a * 1.6]])
    if kind == "triclinic":
        return np.array([[a, 0, 0], [0.3 * a, 1.1 * a, 0], [0.2 * a, -0.25 * a, 1.3 * a]])
    raise ValueError(kind)


def _crystal(case):
    from ase import Atoms

    r = rng_for(case["data_seed"], "C27", case["cell"], case["centring"])
    cell = _cell(case["cell"], r)
    nb = case["basis"]
    base = r.uniform(0.05, 0.95, (nb, 3))
    syms = [["Si"], ["Cu", "O"]][nb - 1]
    tr = np.array(TRANSL[case["centring"]], float)
    frac = np.concatenate([(base + t) % 1.0 for t in tr])
    symbols = [s for _ in tr for s in syms]
    atoms = Atoms(symbols, cell=cell, pbc=True)
    atoms.set_scaled_positions(frac)
    return atoms, r


def _props(case, atoms, r):
    elems = sorted(set(atoms.get_chemical_symbols()))
    s = case["sigma"]
    # per-element values keep the centring translations a symmetry of the crystal
    per_el = {e: float(np.round(0.05 + 0.04 * i, 3)) for i, e in enumerate(elems)}
    if s == "zero":
        sigma = 0.0
    elif s == "scalar":
        sigma = 0.09
    elif s == "element":
        sigma = per_el
    elif s == "atom":
        sigma = [per_el[e] for e in atoms.get_chemical_symbols()]
    elif s == "aniso":
        sigma = {e: (per_el[e], per_el[e] * 0.5, per_el[e] * 1.5) for e in elems}
    elif s in ("element_zero", "atom_zero", "aniso_zero"):
        # a static sub-lattice next to a vibrating one: the first element (in sorted order) does not vibrate at all
        mixed = {e: (0.0 if i == 0 and len(elems) > 1 else per_el[e]) for i, e in enumerate(elems)}
        if s == "element_zero":
            sigma = mixed
        elif s == "atom_zero":
            sigma = [mixed[e] for e in atoms.get_chemical_symbols()]
        else:
            sigma = {e: (mixed[e], mixed[e] * 0.5, mixed[e] * 1.5) for e in elems}
    else:
        raise ValueError(s)
    o = case["occupancy"]
    if o == "one":
        occ = 1.0
    elif o == "scalar":
        occ = 0.6
    else:
        occ = {e: float(np.round(1.0 - 0.3 * i, 2)) for i, e in enumerate(elems)}
    return sigma, occ


def _arr(sfa):
    a = sfa.array
    if hasattr(a, "compute"):
        a = a.compute(scheduler="synchronous")
    return np.asarray(a).astype(np.complex128)


def _index(hkl):
    return {tuple(int(x) for x in h): i for i, h in enumerate(hkl)}


def run_case(case):
    import warnings

    warnings.filterwarnings("ignore")
    from abtem.bloch.utils import get_reflection_condition

    if case["kind"] == "table":
        rng = np.arange(-4, 5)
        hkl = np.array(list(itertools.product(rng, rng, rng)), dtype=int)
        got = np.asarray(get_reflection_condition(hkl, case["symbol"]))
        exp = _textbook_allowed(hkl, case["symbol"])
        ok = got.shape == exp.shape and got.dtype == bool and bool(np.array_equal(got, exp))
        det = ""
        if not ok:
            if got.shape != exp.shape:
                det = f"mask shape {got.shape}, expected {exp.shape}"
            else:
                i = int(np.where(got.astype(bool) != exp)[0][0])
                det = f"hkl={hkl[i].tolist()}: allowed={bool(got[i])}, International Tables say {bool(exp[i])}"
        return [Res(OB_TABLE, ok, det or f"{len(hkl)} reflections, {int(exp.sum())} allowed", True)]

    from abtem.bloch import StructureFactor

    atoms, r = _crystal(case)
    sigma, occ = _props(case, atoms, r)
    cen = case["centring"]
    arg = case["centering_arg"]
    symbol = cen if cen in "PIFABC" else "P"
    centering = {"auto": "auto", "symbol": symbol, "P": "P"}[arg]
    kw = dict(g_max=case["g_max"], thermal_sigma=sigma, occupancy=occ, cutoff=case["cutoff"],
              parametrization=case["parametrization"])
    out = []

    # reference: the complete grid (primitive centering keeps every reflection)
    sf_p = StructureFactor(atoms, centering="P", **kw)
    F_p = _arr(sf_p.build(lazy=False))
    hkl_p = np.asarray(sf_p.hkl)
    idx_p = _index(hkl_p)
    scale = float(np.abs(F_p).max())
    tol = RTOL * scale
    nt = int((np.abs(F_p) > tol).sum()) > 1

    # the structure factor as requested
    sf = StructureFactor(atoms, centering=centering, **kw)
    sfa = sf.build(lazy=case["lazy"])
    F = _arr(sfa)
    hkl = np.asarray(sf.hkl)
    idx = _index(hkl)
    used = sf.centering

    # --- Friedel
    miss = [h for h in idx if tuple(-x for x in h) not in idx]
    if miss:
        out.append(Res(OB_FRIEDEL, False, f"reflection {miss[0]} is present but {tuple(-x for x in miss[0])} is not "
                       f"({len(miss)} unpaired of {len(hkl)})", nt))
    else:
        minus = np.array([idx[tuple(-x for x in h)] for h in map(tuple, hkl.tolist())])
        d = np.abs(F[minus] - np.conj(F))
        i = int(np.argmax(d))
        out.append(Res(OB_FRIEDEL, float(d.max()) <= tol, f"max |F(-h)-conj F(h)| = {float(d.max()):.3e} at h={hkl[i].tolist()} "
                       f"(F(h)={F[i]!r}, F(-h)={F[minus[i]]!r}), tolerance {tol:.3e}, {len(hkl)} reflections, centering {used}", nt))

    # --- forbidden reflections (dropped by abTEM for the centering in force) have zero structure factor
    dropped = [h for h in idx_p if h not in idx]
    extra = [h for h in idx if h not in idx_p]
    if extra:
        out.append(Res(OB_FORBID, False, f"reflection {extra[0]} is not on the complete grid for g_max={case['g_max']}", nt))
    else:
        big = [(abs(F_p[idx_p[h]]), h) for h in dropped if abs(F_p[idx_p[h]]) > tol]
        big.sort(reverse=True)
        det = (f"centering in force {used!r} (argument {centering!r}, crystal built as {cen}); {len(dropped)} of {len(hkl_p)} "
               f"reflections dropped")
        if big:
            det += (f"; {len(big)} dropped reflections have NON-ZERO structure factor, e.g. hkl={list(big[0][1])} |F|={big[0][0]:.4e} "
                    f"(max|F|={scale:.4e})")
        out.append(Res(OB_FORBID, not big, det, nt and len(dropped) > 0))
        # values kept must be the values of the complete grid
        keep = np.array([idx_p[h] for h in map(tuple, hkl.tolist())])
        dk = float(np.abs(F - F_p[keep]).max()) if len(keep) else 0.0
        if dk > tol:
            out.append(Res(OB_FORBID, False, f"kept reflections differ from the complete-grid values by {dk:.3e}", nt))

    # --- crystal built with textbook centring translations: extinctions on the complete grid
    if cen in "IFABC":
        forb = ~_textbook_allowed(hkl_p, cen)
        m = float(np.abs(F_p[forb]).max()) if forb.any() else 0.0
        i = int(np.argmax(np.abs(F_p) * forb))
        out.append(Res(OB_CENTRED, m <= tol, f"{cen}-centred crystal: max |F| over {int(forb.sum())} forbidden reflections = "
                       f"{m:.3e} at hkl={hkl_p[i].tolist()} (tolerance {tol:.3e})", nt and bool(forb.any())))

    # --- potential: real, and the cell-periodic Fourier series of the structure factors
    from abtem.core.constants import kappa

    F3 = sfa.to_3d_array()
    if hasattr(F3, "compute"):
        F3 = F3.compute(scheduler="synchronous")
    F3 = np.asarray(F3)
    gpts = F3.shape
    v = np.fft.ifftn(F3.astype(np.complex128)) * np.prod(gpts) / kappa
    vmax = float(np.abs(v.real).max())
    im = float(np.abs(v.imag).max())
    pot = sfa.get_potential_3d()
    if hasattr(pot, "compute"):
        pot = pot.compute(scheduler="synchronous")
    pot = np.asarray(pot)
    okr = im <= RTOL * vmax and np.isrealobj(pot) and bool(np.all(np.isfinite(pot))) and pot.shape == gpts
    out.append(Res(OB_REAL, okr, f"max |Im V| = {im:.3e} vs max |Re V| = {vmax:.3e} (ratio {im / max(vmax, 1e-300):.2e}); "
                   f"get_potential_3d dtype {pot.dtype}, shape {pot.shape}, grid {gpts}", nt))

    # independent Fourier series on a sample of grid points
    npts = 60
    n = np.stack([r.integers(0, g, npts) for g in gpts], axis=1)
    s = n / np.array(gpts, float)
    hk = hkl.astype(np.float64)
    okint = bool(np.issubdtype(hkl.dtype, np.integer) or np.all(hkl == np.rint(hkl)))
    series = lambda pts: (np.exp(2j * np.pi * (pts @ hk.T)) @ F) / kappa  # noqa: E731
    ref = series(s)
    got = pot[n[:, 0], n[:, 1], n[:, 2]].astype(np.float64)
    # get_potential_3d subtracts its minimum: compare up to one additive constant
    const = float(np.median(got - ref.real))
    d = np.abs(got - ref.real - const)
    vs = max(float(np.abs(ref.real - ref.real.mean()).max()), 1e-30)
    ok1 = float(d.max()) <= 5e-4 * max(vs, float(np.abs(ref).max()))
    m = r.integers(-3, 4, (npts, 3)).astype(float)
    s_off = r.uniform(0, 1, (npts, 3))
    dper = float(np.abs(series(s_off) - series(s_off + m)).max())
    ok2 = okint and dper <= 1e-6 * max(float(np.abs(ref).max()), 1e-30)
    out.append(Res(OB_PERIODIC, ok1 and ok2, f"grid vs independent Fourier series: max dev {float(d.max()):.3e} (variation {vs:.3e}); "
                   f"series(s) vs series(s + lattice vector): {dper:.3e}; Miller indices integer: {okint}", nt))

    # --- translation by a lattice vector
    tm = BOUNDS["translation_max"]
    mvec = r.integers(-tm, tm + 1, 3)
    if not mvec.any():
        mvec[int(r.integers(0, 3))] = 2
    moved = atoms.copy()
    moved.positions += mvec @ np.asarray(atoms.cell)
    sf_t = StructureFactor(moved, centering=centering, **kw)
    F_t = _arr(sf_t.build(lazy=case["lazy"]))
    hkl_t = np.asarray(sf_t.hkl)
    if hkl_t.shape != hkl.shape or not np.array_equal(hkl_t, hkl):
        out.append(Res(OB_TRANSL, False, f"translation by lattice vector {mvec.tolist()} changed the reflection set: {len(hkl)} -> "
                       f"{len(hkl_t)} reflections, centering {used!r} -> {sf_t.centering!r}", nt))
    else:
        d = np.abs(F_t - F)
        i = int(np.argmax(d))
        out.append(Res(OB_TRANSL, float(d.max()) <= tol, f"translation by lattice vector {mvec.tolist()}: max |dF| = {float(d.max()):.3e} "
                       f"at hkl={hkl[i].tolist()} (tolerance {tol:.3e}, max|F| {scale:.3e})", nt))
    return out
