"""C28 — ptychographic operators honour their mathematical contracts (bounded stand-in: run-time contract).

Contract on the real static operator methods of abtem/reconstruct.py (Regularized-, MixedState-, Simultaneous- and
Multislice-PtychographicOperator: _overlap_projection, _fourier_projection, _update_function,
_calculate_scan_positions_in_pixels) and on RegularizedPtychographicOperator.preprocess/reconstruct:

  fourier projection  m = Pi_F(psi; a):   |FFT m| == a   (mixed state: sqrt(sum_k |FFT m_k|^2) == a),
                                          arg FFT m == arg FFT psi wherever both are non-zero,
                                          Pi_F(Pi_F(psi; a); a) == Pi_F(psi; a)
  r-PIE update with the true object and probe (a := |FFT(O_window * P)| of the very same object and probe):
                                          objects and probes unchanged, error increment == 0
  positions           J explicit positions [Angstrom] -> J positions [pixel], k-th output belongs to the k-th input
                      (differences between outputs == differences between inputs / sampling, rotated when asked)
  overlap projection  psi == O[window centred on round(position)] * (returned probe)       (docstring formula)
  reconstruct         starting from the true object and probe and exact data, every iteration keeps both and
                      reports zero error (multi-step history through the real loop)

Oracle: NumPy (np.fft, np.roll windows, differences) and the algebraic laws of the statement.
"""

import math

from vlib.hx import Res, covering, rng_for

PROPERTY = "C28"
RULE = ("pairwise covering array over {operator family (regularized, mixed-state K=1..3, simultaneous, multislice "
        "T=1), window shape (even/odd, non-square), object larger than / equal to the window, dtype (complex64/128), "
        "exit-wave kind (random, smooth probe-like, constant = single Fourier coefficient, real), amplitude kind "
        "(random, with zeros as in padded patterns, own amplitude, scaled), position kind (integer, fractional, "
        "half-integer, wrapping over the object edge, negative), alpha/beta/step sizes, fix_probe, position "
        "correction on/off} x seeded values; explicit scan positions: J in 1..7 incl. duplicates, unsorted, collinear, "
        "with/without rotation and padding, through the static method and through preprocess(); "
        "reconstruct(): 1-3 iterations from the truth on raster scans; dedicated 2-slice multislice cases. "
        "non-trivial = arrays not identically zero / J >= 2; distinct = distinct case dicts")
BOUNDS = {"window": "<= 16 x 16", "object": "<= 40 x 40", "J": "<= 7", "K": "<= 3", "iterations": "<= 3",
          "extra_random": {"quick": 30, "thorough": 1200}, "position_cases": {"quick": 40, "thorough": 600},
          "reconstruct_cases": {"quick": 10, "thorough": 80}}
EXHAUSTIVE = False
ASSUMPTIONS = [
    "complex128 data: absolute tolerance 1e-9 x scale; complex64 data: 2e-4 x scale (phase compared as unit phasors, "
    "only where |FFT psi| and the amplitude exceed 1e-3 x their maximum)",
    "zero error: error increment <= 1e-12 (complex128) / 1e-8 (complex64); the value of a non-zero error is not checked",
    "objects have |O| in [0.5, 1.5] (weak/strong phase objects with mild absorption), probes are non-zero",
    "positions: output k corresponds to input k up to one common translation; rotation = the rotation of the "
    "statement's raster (x' = x cos t + y sin t, y' = -x sin t + y cos t)",
    "window convention of the overlap projection: rows (round(cx) - nx//2 + arange(nx)) mod P  (docstring: window "
    "centred at the position)",
    "reconstruct(): even window, scan steps that are whole pixels (no sub-pixel probe shifts), fix_com=False",
]
CONTRACTS = [
    "abtem/reconstruct.py:RegularizedPtychographicOperator._fourier_projection",
    "abtem/reconstruct.py:RegularizedPtychographicOperator._update_function",
    "abtem/reconstruct.py:RegularizedPtychographicOperator._overlap_projection",
    "abtem/reconstruct.py:RegularizedPtychographicOperator._position_correction",
    "abtem/reconstruct.py:RegularizedPtychographicOperator.preprocess",
    "abtem/reconstruct.py:RegularizedPtychographicOperator.reconstruct",
    "abtem/reconstruct.py:MixedStatePtychographicOperator._fourier_projection",
    "abtem/reconstruct.py:MixedStatePtychographicOperator._update_function",
    "abtem/reconstruct.py:MixedStatePtychographicOperator._overlap_projection",
    "abtem/reconstruct.py:SimultaneousPtychographicOperator._fourier_projection",
    "abtem/reconstruct.py:SimultaneousPtychographicOperator._update_function",
    "abtem/reconstruct.py:SimultaneousPtychographicOperator._overlap_projection",
    "abtem/reconstruct.py:MultislicePtychographicOperator._fourier_projection",
    "abtem/reconstruct.py:MultislicePtychographicOperator._update_function",
    "abtem/reconstruct.py:MultislicePtychographicOperator._overlap_projection",
    "abtem/reconstruct.py:AbstractPtychographicOperator._calculate_scan_positions_in_pixels",
    "abtem/reconstruct.py:_wrapped_indices_2D_window",
]

FAMILIES = ["regularized", "mixed1", "mixed2", "mixed3", "simultaneous", "multislice1"]
WINDOWS = [[8, 8], [12, 10], [9, 11], [7, 7], [16, 6]]
OBJECT_PAD = [[0, 0], [5, 8], [13, 2], [1, 0]]
DTYPES = ["complex128", "complex64"]
PSI_KINDS = ["random", "smooth", "constant", "real"]
AMP_KINDS = ["random", "zeros", "own", "scaled"]
POS_KINDS = ["integer", "fractional", "half", "wrap", "negative"]
REG = ["default", "small", "mixed"]
FLAGS = ["plain", "fix_probe", "position_correction"]


def cases(tier, seed):
    axes = {"family": FAMILIES, "window": WINDOWS, "object_pad": OBJECT_PAD, "dtype": DTYPES, "psi": PSI_KINDS,
            "amp": AMP_KINDS, "pos": POS_KINDS, "reg": REG, "flags": FLAGS}
    for i, row in enumerate(covering(axes, seed=seed, extra_random=BOUNDS["extra_random"][tier])):
        r = rng_for(seed, "c28-op", i)
        c = dict(kind="operator", data_seed=int(r.integers(1, 2 ** 31)), **row)
        c["alpha"], c["beta"], c["object_step_size"], c["probe_step_size"] = {
            "default": (1.0, 1.0, 1.0, 1.0),
            "small": (0.05, 0.01, 0.5, 0.25),
            "mixed": tuple(float(x) for x in r.uniform(0.05, 1.0, 4)),
        }[row["reg"]]
        nx, ny = row["window"]
        px, py = nx + row["object_pad"][0], ny + row["object_pad"][1]
        u = r.uniform(0, 1, 4)
        if row["pos"] == "integer":
            pos = [float(int(u[0] * px)), float(int(u[1] * py))]
        elif row["pos"] == "fractional":
            pos = [float(u[0] * px), float(u[1] * py)]
        elif row["pos"] == "half":
            pos = [int(u[0] * px) + 0.5, int(u[1] * py) + 0.5]
        elif row["pos"] == "wrap":
            pos = [float(px - 1 - u[0]), float(u[1])]
        else:
            pos = [float(-u[0] * nx), float(-u[1] * ny - 1)]
        c["position"] = pos
        c["old_position"] = [float(u[2] * px), float(u[3] * py)]
        yield c

    # explicit scan positions
    n = BOUNDS["position_cases"][tier]
    for i in range(n):
        r = rng_for(seed, "c28-pos", i)
        j = [1, 2, 3, 4, 5, 6, 7][i % 7]
        kind = ["random", "unsorted_grid", "duplicates", "collinear_x", "collinear_diag"][(i // 7) % 5]
        if kind == "random":
            pos = r.uniform(-5, 20, (j, 2))
        elif kind == "unsorted_grid":
            g = [[float(a), float(b)] for a in (0.0, 1.5, 3.0) for b in (0.0, 2.0, 4.0)]
            pos = [g[k] for k in r.permutation(len(g))[:j]]
        elif kind == "duplicates":
            base = r.uniform(0, 10, (max(1, j // 2), 2))
            pos = [base[k % len(base)] for k in range(j)]
        elif kind == "collinear_x":
            pos = [[float(x), 3.0] for x in r.uniform(0, 10, j)]
        else:
            pos = [[float(x), float(2 * x + 1)] for x in r.uniform(0, 10, j)]
        pos = [[float(a), float(b)] for a, b in pos]
        yield dict(kind="positions", positions=pos, sampling=[float(r.uniform(0.1, 0.5)), float(r.uniform(0.1, 0.5))],
                   roi=[int(r.choice([8, 9, 12])), int(r.choice([8, 10, 11]))],
                   rotation=[None, 0.0, float(r.uniform(-3, 3))][i % 3],
                   padding=[None, [float(r.uniform(0, 10)), float(r.uniform(0, 10))]][(i // 3) % 2],
                   via=["static", "preprocess"][(i // 2) % 2],
                   # explicit positions next to a known raster shape (4-D data with refined positions): still J pairs in order
                   layout=["flat", "grid", "flat", "grid", "grid"][i % 5])

    # full reconstruction loop from the truth
    for i in range(BOUNDS["reconstruct_cases"][tier]):
        r = rng_for(seed, "c28-rec", i)
        yield dict(kind="reconstruct", data_seed=int(r.integers(1, 2 ** 31)),
                   window=[[8, 8], [12, 10], [10, 16]][i % 3], scan=[[2, 2], [3, 2], [1, 4], [2, 3]][i % 4],
                   step_px=[int(r.integers(1, 5)), int(r.integers(1, 5))], iterations=1 + i % 3,
                   energy=float(r.choice([60e3, 100e3, 300e3])), sampling=float(r.uniform(0.15, 0.4)),
                   alpha=float(r.uniform(0.05, 1.0)), beta=float(r.uniform(0.05, 1.0)),
                   position_correction=bool(i % 5 == 4), random_seed=int(r.integers(0, 1000)))

    # multislice operator with more than one slice
    for i in range(2 if tier == "quick" else 6):
        r = rng_for(seed, "c28-ms", i)
        yield dict(kind="operator", family="multislice2" if i % 2 == 0 else "multislice3", window=WINDOWS[i % 5],
                   object_pad=OBJECT_PAD[i % 4], dtype=DTYPES[i % 2], psi="random", amp="random", pos="fractional",
                   reg="default", flags="plain", data_seed=int(r.integers(1, 2 ** 31)), alpha=1.0, beta=1.0,
                   object_step_size=1.0, probe_step_size=1.0, position=[3.3, 4.6], old_position=[1.2, 0.4])


# ------------------------------------------------------------------------------------------------------------------

def _tol(dtype):
    return 1e-9 if dtype == "complex128" else 2e-4


def _rand_c(r, shape, dtype):
    import numpy as np

    return (r.normal(size=shape) + 1j * r.normal(size=shape)).astype(dtype)


def _smooth(r, shape, dtype):
    """band-limited probe-like wave: a small disc in Fourier space with random phases."""
    import numpy as np

    kx = np.fft.fftfreq(shape[-2])[:, None]
    ky = np.fft.fftfreq(shape[-1])[None, :]
    f = ((kx ** 2 + ky ** 2) < 0.3 ** 2) * np.exp(1j * r.uniform(-3, 3, shape))
    return np.fft.ifft2(f).astype(dtype) * shape[-1] * shape[-2] / 10.0


def _psi(kind, r, shape, dtype):
    import numpy as np

    if kind == "random":
        return _rand_c(r, shape, dtype)
    if kind == "smooth":
        return _smooth(r, shape, dtype)
    if kind == "constant":
        return np.full(shape, 0.7 - 0.4j, dtype=dtype)
    if kind == "real":
        return r.normal(size=shape).astype(dtype)
    raise ValueError(kind)


def _amp(kind, r, shape, dtype, own):
    import numpy as np

    rd = np.float64 if dtype == "complex128" else np.float32
    if kind == "random":
        return np.abs(r.normal(size=shape)).astype(rd) + rd(0.01)
    if kind == "zeros":
        a = np.abs(r.normal(size=shape)).astype(rd)
        a[: shape[0] // 3] = 0
        a[:, -(shape[1] // 4):] = 0
        return a
    if kind == "own":
        return own.astype(rd)
    if kind == "scaled":
        return (own * 2.5).astype(rd)
    raise ValueError(kind)


def _objects(r, shape, dtype):
    import numpy as np

    return ((1.0 + 0.5 * r.uniform(-1, 1, shape)) * np.exp(1j * r.normal(size=shape))).astype(dtype)


def _window(objects, position, wshape):
    """oracle window: wshape pixels whose pixel wshape//2 sits on round(position), periodic."""
    import numpy as np

    cx, cy = (int(v) for v in np.round(np.asarray(position, float)))
    ix = (cx - wshape[0] // 2 + np.arange(wshape[0])) % objects.shape[-2]
    iy = (cy - wshape[1] // 2 + np.arange(wshape[1])) % objects.shape[-1]
    return objects[..., ix[:, None], iy[None, :]]


def _err(a, b):
    import numpy as np

    a, b = np.asarray(a), np.asarray(b)
    if a.shape != b.shape:
        return float("inf"), f"shape {a.shape} vs {b.shape}"
    if not (np.all(np.isfinite(a)) and np.all(np.isfinite(b))):
        return float("inf"), f"non-finite values ({int(np.sum(~np.isfinite(a)))} in result)"
    scale = max(float(np.abs(b).max()), 1e-30)
    e = float(np.abs(a - b).max()) / scale
    return e, f"max rel err {e:.3e} (scale {scale:.3e})"


def _family(case):
    import numpy as np
    from abtem import reconstruct as R

    fam = case["family"]
    if fam == "regularized":
        return R.RegularizedPtychographicOperator, 1, {}
    if fam.startswith("mixed"):
        return R.MixedStatePtychographicOperator, int(fam[-1]), {}
    if fam == "simultaneous":
        return R.SimultaneousPtychographicOperator, 2, {}
    if fam.startswith("multislice"):
        from abtem.multislice import FresnelPropagator
        t = int(fam[-1])
        kw = dict(propagator=FresnelPropagator(), slice_thicknesses=np.full(t, 2.0), sampling=(0.2, 0.25),
                  wavelength=0.037)
        return R.MultislicePtychographicOperator, t, kw
    raise ValueError(fam)


def _as_list(fam, x):
    """the arrays the clause speaks about, as a list of 2-D arrays (one per state / channel / last slice)."""
    if fam == "simultaneous":
        return [x[0], x[1]]
    if fam.startswith("mixed"):
        return [x[k] for k in range(x.shape[0])]
    if fam.startswith("multislice"):
        return [x[-1]]
    return [x]


def _run_operator(case):
    import numpy as np
    import scipy.ndimage

    fam = case["family"]
    cls, mult, kw = _family(case)
    dtype = case["dtype"]
    tol = _tol(dtype)
    r = np.random.default_rng(case["data_seed"])
    w = tuple(case["window"])
    oshape = (w[0] + case["object_pad"][0], w[1] + case["object_pad"][1])
    out = []

    # ---------------- fourier projection on arbitrary exit waves / amplitudes ----------------
    if fam == "simultaneous":
        psi = (_psi(case["psi"], r, w, dtype), _psi("random", r, w, dtype))
        own = [np.abs(np.fft.fft2(p)) for p in psi]
        amp = tuple(_amp(case["amp"], r, w, dtype, o) for o in own)
    elif fam.startswith("mixed") or fam.startswith("multislice"):
        psi = np.stack([_psi(case["psi"] if k == mult - 1 else "random", r, w, dtype) for k in range(mult)])
        if fam.startswith("mixed"):
            own = np.sqrt(np.sum(np.abs(np.fft.fft2(psi, axes=(-2, -1))) ** 2, axis=0))
        else:
            own = np.abs(np.fft.fft2(psi[-1]))
        amp = _amp(case["amp"], r, w, dtype, own)
    else:
        psi = _psi(case["psi"], r, w, dtype)
        amp = _amp(case["amp"], r, w, dtype, np.abs(np.fft.fft2(psi)))

    copy = (lambda x: tuple(a.copy() for a in x)) if fam == "simultaneous" else (lambda x: x.copy())
    m, sse = cls._fourier_projection(copy(psi), copy(amp), 0.0, xp=np)
    m_list, psi_list = _as_list(fam, m), _as_list(fam, psi)
    amp_list = [amp[0], amp[1]] if fam == "simultaneous" else [amp]

    fm = [np.fft.fft2(np.asarray(x).astype(np.complex128)) for x in m_list]
    fpsi = [np.fft.fft2(np.asarray(x).astype(np.complex128)) for x in psi_list]
    if fam.startswith("mixed"):
        got_amp = [np.sqrt(sum(np.abs(f) ** 2 for f in fm))]
    else:
        got_amp = [np.abs(f) for f in fm]
    errs = [_err(g, a.astype(np.float64)) for g, a in zip(got_amp, amp_list)]
    worst = max(errs, key=lambda e: e[0])
    nt = any(np.any(a != 0) for a in amp_list)
    out.append(Res("C28/fourier_projection/amplitude-equals-measured", worst[0] <= tol,
                   f"{fam} psi={case['psi']} amp={case['amp']} {dtype} window {w}: {worst[1]}", nt))

    # phase kept where defined
    perr, ncmp = 0.0, 0
    for k, (f1, f0) in enumerate(zip(fm, fpsi)):
        a = amp_list[0] if len(amp_list) == 1 else amp_list[k]
        mask = (np.abs(f0) > 1e-3 * np.abs(f0).max()) & (a > 1e-3 * max(float(a.max()), 1e-30)) & np.isfinite(f1)
        nonfinite = not np.all(np.isfinite(f1))
        if nonfinite:
            perr = float("inf")
        if mask.any():
            d = np.abs(f1[mask] / np.maximum(np.abs(f1[mask]), 1e-300) - f0[mask] / np.abs(f0[mask]))
            perr = max(perr, float(d.max()))
            ncmp += int(mask.sum())
    out.append(Res("C28/fourier_projection/phase-kept", perr <= max(tol, 1e-7) * 10,
                   f"{fam} psi={case['psi']} amp={case['amp']} {dtype}: max |phasor difference| {perr:.3e} over {ncmp} "
                   f"coefficients", ncmp > 0))

    # idempotence
    m2, _ = cls._fourier_projection(copy(m), copy(amp), 0.0, xp=np)
    errs = [_err(a, b) for a, b in zip(_as_list(fam, m2), m_list)]
    worst = max(errs, key=lambda e: e[0])
    out.append(Res("C28/fourier_projection/idempotent", worst[0] <= tol * 10,
                   f"{fam} psi={case['psi']} amp={case['amp']} {dtype}: Pi(Pi(psi)) vs Pi(psi): {worst[1]}", nt))

    # ---------------- true object and probe: overlap -> fourier -> update ----------------
    pos, old = np.array(case["position"], float), np.array(case["old_position"], float)
    if fam == "simultaneous":
        objects = (_objects(r, oshape, dtype), _objects(r, oshape, dtype))
        probes = (_smooth(r, w, dtype) + 0.05, _smooth(r, w, dtype) + 0.05)
    elif fam.startswith("multislice"):
        objects = np.stack([_objects(r, oshape, dtype) for _ in range(mult)])
        probes = np.stack([_smooth(r, w, dtype) + 0.05] + [np.zeros(w, dtype) for _ in range(mult - 1)])
    elif fam.startswith("mixed"):
        objects = _objects(r, oshape, dtype)
        probes = np.stack([_smooth(r, w, dtype) + 0.05 for _ in range(mult)])
    else:
        objects = _objects(r, oshape, dtype)
        probes = _smooth(r, w, dtype) + 0.05

    objects0 = copy(objects)
    probes1, ew = cls._overlap_projection(copy(objects), copy(probes), pos, old, xp=np, **kw)

    # overlap projection == object window x probe
    if fam == "simultaneous":
        wv, wm = _window(objects0[0], pos, w), _window(objects0[1], pos, w)
        expected = [wv * wm * probes1[0], wv * np.conj(wm) * probes1[1]]
        got = [ew[0], ew[1]]
    elif fam.startswith("multislice"):
        expected = [_window(objects0[s], pos, w) * probes1[s] for s in range(mult)]
        got = [ew[s] for s in range(mult)]
    elif fam.startswith("mixed"):
        expected = [_window(objects0, pos, w) * probes1[k] for k in range(mult)]
        got = [ew[k] for k in range(mult)]
    else:
        expected, got = [_window(objects0, pos, w) * probes1], [ew]
    errs = [_err(g, e) for g, e in zip(got, expected)]
    worst = max(errs, key=lambda e: e[0])
    out.append(Res("C28/overlap_projection/object-window-times-probe", worst[0] <= tol,
                   f"{fam} position {case['position']} window {w} object {oshape}: {worst[1]}", True))

    # data of the true object and probe
    if fam == "simultaneous":
        amp_true = tuple(np.abs(np.fft.fft2(e)) for e in ew)
    elif fam.startswith("mixed"):
        amp_true = np.sqrt(np.sum(np.abs(np.fft.fft2(ew, axes=(-2, -1))) ** 2, axis=0))
    elif fam.startswith("multislice"):
        amp_true = np.abs(np.fft.fft2(ew[-1]))
    else:
        amp_true = np.abs(np.fft.fft2(ew))
    sse_in = 0.125
    mw, sse_out = cls._fourier_projection(copy(ew), copy(amp_true), sse_in, xp=np)
    zero_tol = 1e-12 if dtype == "complex128" else 1e-8
    inc = float(np.real(sse_out)) - sse_in
    out.append(Res("C28/update/true-object-probe-zero-error", abs(inc) <= zero_tol and math.isfinite(inc),
                   f"{fam} {dtype} position {case['position']}: error increment {inc:.3e} (expected 0)", True))

    params = dict(alpha=case["alpha"], beta=case["beta"], object_step_size=case["object_step_size"],
                  probe_step_size=case["probe_step_size"], position_step_size=1.0)
    ukw = dict(kw)
    if case["flags"] == "fix_probe":
        ukw["fix_probe"] = True
    if case["flags"] == "position_correction":
        ukw["position_correction"] = cls._position_correction
        ukw["sobel"] = scipy.ndimage.sobel
    objects_in, probes_in = copy(objects0), copy(probes1)
    o2, p2, pos2 = cls._update_function(objects_in, probes_in, pos.copy(), copy(ew), mw, copy(amp_true),
                                        reconstruction_parameters=params, xp=np, **ukw)
    o_list = [o2[0], o2[1]] if fam == "simultaneous" else [o2]
    o_ref = [objects0[0], objects0[1]] if fam == "simultaneous" else [objects0]
    p_list = [p2[0], p2[1]] if fam == "simultaneous" else [p2]
    p_ref = [probes1[0], probes1[1]] if fam == "simultaneous" else [probes1]
    eo = max((_err(a, b) for a, b in zip(o_list, o_ref)), key=lambda e: e[0])
    ep = max((_err(a, b) for a, b in zip(p_list, p_ref)), key=lambda e: e[0])
    out.append(Res("C28/update/true-object-probe-unchanged", eo[0] <= tol and ep[0] <= tol,
                   f"{fam} {dtype} flags={case['flags']} alpha={case['alpha']:.3g} beta={case['beta']:.3g} position "
                   f"{case['position']}: object change {eo[1]}; probe change {ep[1]}", True))
    return out


# ---- explicit scan positions --------------------------------------------------------------------------------------

def _run_positions(case):
    import numpy as np
    from abtem.reconstruct import RegularizedPtychographicOperator as Op

    pos = np.array(case["positions"], float).reshape(-1, 2)
    j = len(pos)
    sampling = tuple(case["sampling"])
    roi = tuple(case["roi"])
    grid = None
    if case.get("layout") == "grid":
        a = next(d for d in (3, 2, 1) if j % d == 0)
        grid = (a, j // a) if (j + len(case["positions"])) % 4 else (j // a, a)
    if case["via"] == "static":
        ep = dict(grid_scan_shape=grid, scan_step_sizes=None if grid is None else (0.7, 0.9), rotation_angle=case["rotation"],
                  object_px_padding=case["padding"])
        got, _ = Op._calculate_scan_positions_in_pixels(pos.copy(), sampling, roi, ep)
    else:
        energy = 100e3
        lam = 0.037013
        ang = tuple(lam * 1e3 / s / n for s, n in zip(sampling, roi))      # so that op.sampling == sampling
        dps = np.ones(((j,) if grid is None else grid) + roi, dtype=np.float32)
        kw = {}
        if case["rotation"] is not None:
            kw["rotation_angle"] = case["rotation"]
        if case["padding"] is not None:
            kw["object_px_padding"] = tuple(case["padding"])
        op = Op(dps, energy=energy, semiangle_cutoff=20.0, positions=pos.copy(), angular_sampling=ang, **kw)
        op.preprocess()
        got = np.asarray(op._positions_px)
        sampling = tuple(op.sampling)
    got = np.asarray(got)
    name = "C28/positions/J-explicit-positions-give-J-pixel-positions-in-order"
    if got.shape != (j, 2):
        return [Res(name, False, f"{j} explicit positions -> array of shape {got.shape} (expected ({j}, 2)) "
                                 f"via={case['via']}", j >= 1)]
    d_in = (pos - pos[0]) / np.array(sampling)
    t = case["rotation"]
    if t:
        d_in = np.stack([d_in[:, 0] * np.cos(t) + d_in[:, 1] * np.sin(t),
                         -d_in[:, 0] * np.sin(t) + d_in[:, 1] * np.cos(t)], -1)
    d_out = got - got[0]
    e = float(np.abs(d_out - d_in).max())
    return [Res(name, e <= 1e-6 * max(1.0, float(np.abs(d_in).max())),
                f"J={j} via={case['via']} rotation={t}: max |(out_k-out_0) - (in_k-in_0)/sampling| = {e:.3e} px", j >= 2)]


# ---- full loop ----------------------------------------------------------------------------------------------------

def _run_reconstruct(case):
    import numpy as np
    from abtem.reconstruct import RegularizedPtychographicOperator as Op

    r = np.random.default_rng(case["data_seed"])
    w = tuple(case["window"])
    scan = tuple(case["scan"])
    energy = case["energy"]
    e = energy / 1e3
    lam = 12.398420 / math.sqrt(e * (2 * 510.99895 + e))
    s = case["sampling"]
    ang = tuple(lam * 1e3 / s / n for n in w)
    steps = tuple(k * s for k in case["step_px"])

    def make(dps, objects=None, probes=None):
        return Op(dps, energy=energy, semiangle_cutoff=20.0, objects=objects, probes=probes, angular_sampling=ang,
                  scan_step_sizes=steps)

    op0 = make(np.ones(scan + w, dtype=np.float32)).preprocess()     # geometry the operator assumes
    pos_px = np.asarray(op0._positions_px, float)
    oshape = tuple(op0._objects.shape)
    name = "C28/reconstruct/true-object-probe-fixed-point"
    if pos_px.shape != (scan[0] * scan[1], 2):
        return [Res(name, False, f"raster {scan}: {pos_px.shape} pixel positions", True)]
    frac = np.abs(pos_px - np.round(pos_px)).max()
    if frac > 1e-6:
        return [Res(name, True, f"precondition (whole-pixel positions) not met: {frac}", False)]

    obj = _objects(r, oshape, np.complex64)
    probe = (_smooth(r, w, np.complex64) + 0.05).astype(np.complex64)
    dps = np.empty((len(pos_px),) + w, np.float32)
    for k, p in enumerate(pos_px):
        psi = _window(obj, p, w) * probe
        dps[k] = np.fft.fftshift(np.abs(np.fft.fft2(psi)) ** 2)
    op = make(dps.reshape(scan + w), objects=obj.copy(), probes=probe.copy()).preprocess()
    kw = dict(alpha=case["alpha"], beta=case["beta"])
    if case["position_correction"]:
        kw["pre_position_correction_update_steps"] = 1
    objs, prbs, poss, sse = op.reconstruct(max_iterations=case["iterations"], return_iterations=True, fix_com=False,
                                           random_seed=case["random_seed"], **kw)
    oa, pa = np.asarray(objs.array), np.asarray(prbs.array)
    if case["iterations"] == 1 and oa.ndim == 2:
        oa, pa = oa[None], pa[None]
    parts = []
    ok = True
    for it in range(case["iterations"]):
        eo, ep = _err(oa[it], obj), _err(pa[it], probe)
        es = float(np.real(sse[it]))
        good = eo[0] <= 2e-4 and ep[0] <= 2e-4 and abs(es) <= 1e-8
        ok = ok and good
        parts.append(f"iteration {it}: object {eo[1]}, probe {ep[1]}, error {es:.3e}")
    return [Res(name, ok, f"raster {scan} step {case['step_px']} px window {w} object {oshape} "
                          f"position_correction={case['position_correction']}: " + "; ".join(parts), True)]


def run_case(case):
    import warnings

    with warnings.catch_warnings():
        warnings.simplefilter("ignore")
        if case["kind"] == "positions":
            return _run_positions(case)
        if case["kind"] == "reconstruct":
            return _run_reconstruct(case)
        return _run_operator(case)
