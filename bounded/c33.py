"""C33 — unit conversions compose and invert (bounded stand-in: run-time contract on the real functions).

Contract on abtem.core.units.get_conversion_factor and abtem.core.axes.LinearAxis.convert_units:
  for all a, b, c in one category:  F(b|a)·F(c|b) == F(c|a),  F(b|a)·F(a|b) == 1,
  and the same on converted axes (sampling, offset), receiver unchanged.
Oracle: the algebraic laws of the statement themselves (composition, inverse). The absolute values of the
factors are NOT part of C33 and are not checked (observation: the angular table maps mrad->rad to 1e3, i.e.
it is inverted with respect to the real-space table; this does not affect composition or inversion).
"""

import itertools
import math

from vlib.hx import Res, rng_for

PROPERTY = "C33"
RULE = ("exhaustive over all ordered unit triples inside each category advertised by "
        "abtem.core.units._unit_categories (real_space, reciprocal_space, angular) x seeded samplings/offsets; "
        "a case is non-trivial when a != b or b != c; distinct = distinct (a,b,c,sampling,offset)")
BOUNDS = {"categories": ["real_space", "reciprocal_space", "angular"], "values_per_triple": {"quick": 2, "thorough": 8}}
EXHAUSTIVE = False
ASSUMPTIONS = ["float comparison with rel_tol 1e-9"]

def cases(tier, seed):
    from abtem.core import units as U

    nvals = BOUNDS["values_per_triple"][tier]
    for cat in BOUNDS["categories"]:
        names = list(U._unit_categories[cat])
        for a, b, c in itertools.product(names, repeat=3):
            r = rng_for(seed, cat, a, b, c)
            for k in range(nvals):
                s = float(10 ** r.uniform(-3, 3))
                o = float(r.uniform(-50, 50))
                yield dict(category=cat, a=a, b=b, c=c, sampling=s, offset=o)


def _close(x, y):
    return math.isclose(x, y, rel_tol=1e-9, abs_tol=1e-300)


def run_case(case):
    from abtem.core.axes import LinearAxis
    from abtem.core.units import get_conversion_factor as F

    a, b, c = case["a"], case["b"], case["c"]
    s, o = case["sampling"], case["offset"]
    nt = not (a == b == c)
    out = []
    fab, fbc, fac, fba = F(b, old_units=a), F(c, old_units=b), F(c, old_units=a), F(a, old_units=b)
    out.append(Res("C33/get_conversion_factor/compose", _close(fab * fbc, fac),
                   f"F({b}|{a})*F({c}|{b})={fab * fbc!r} but F({c}|{a})={fac!r}", nt))
    out.append(Res("C33/get_conversion_factor/inverse", _close(fab * fba, 1.0),
                   f"F({b}|{a})*F({a}|{b})={fab * fba!r}", nt))
    ax = LinearAxis(label="x", sampling=s, offset=o, units=a)
    ab = ax.convert_units(b)
    abc = ab.convert_units(c)
    ac = ax.convert_units(c)
    aba = ab.convert_units(a)
    out.append(Res("C33/LinearAxis.convert_units/frame", ax.sampling == s and ax.offset == o and ax.units == a,
                   f"receiver changed: {ax.sampling},{ax.offset},{ax.units}", nt))
    out.append(Res("C33/LinearAxis.convert_units/compose",
                   _close(abc.sampling, ac.sampling) and _close(abc.offset, ac.offset),
                   f"{a}->{b}->{c}: ({abc.sampling!r},{abc.offset!r}) vs direct ({ac.sampling!r},{ac.offset!r})", nt))
    out.append(Res("C33/LinearAxis.convert_units/inverse", _close(aba.sampling, s) and _close(aba.offset, o),
                   f"{a}->{b}->{a}: ({aba.sampling!r},{aba.offset!r}) vs ({s!r},{o!r})", nt))
    return out
