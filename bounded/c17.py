"""C17 — simulation grids stay consistent through any history of edits (bounded run-time contract).

Contract on the REAL abtem.core.grid.Grid (constructor, extent/gpts/sampling setters, reciprocal_space_sampling,
match), evaluated after EVERY step of a history of assignments:

  invariant     fully defined  =>  extent[i] == (gpts[i] - endpoint[i]) * sampling[i]      for every dimension i
  reciprocal    fully defined  =>  reciprocal_space_sampling[i] == 1 / (gpts[i] * sampling[i])
  locked        lock_X and X was defined before the step  =>  X is unchanged by the step (whether it raised or not)
  raise-or-ok   a step either raises (RuntimeError/ValueError) or returns with the invariant intact
                (a torn state after a raise is caught by `invariant`, which is evaluated after every step)

Oracle: the equations of the statement, computed here in Python floats from the values the grid reports.
The harness does not model which quantity a setter re-derives (that is abTEM's choice, not part of C17).

A case is ONE history (so the replay file is a minimal reproduction):
  dict(dims, endpoint=[..], locks=[lock_extent, lock_gpts, lock_sampling], init={extent,gpts,sampling or None},
       history=[[op, value], ...])           op in extent|gpts|sampling|match ; value scalar or per-dimension list
       (for op == "match" the value is a dict(extent, gpts, sampling, endpoint) describing the other grid)
"""

import itertools
import math

from vlib.hx import Res, rng_for

PROPERTY = "C17"

# value grid: binary-exact numbers, so that exact-ratio cases (10/0.5, 8/0.25, 12/0.5 ...) are exact in floats and the
# non-integer ratios (10/0.75, 9/0.5 with endpoint ...) exercise the ceil() branch.  gpts >= 2 keeps gpts-endpoint >= 1.
_EXT = [8.0, 10.0, [9.0, 12.0]]
_GPT = [16, 20, [12, 25]]
_SMP = [0.5, 0.25, [0.75, 0.5]]
_EXT_T = _EXT + [[10.0, 6.0], 7.5]
_GPT_T = _GPT + [[20, 24], 7]
_SMP_T = _SMP + [[0.2, 0.3], 0.625]

_LOCKS = [list(l) for l in itertools.product([False, True], repeat=3)]   # (lock_extent, lock_gpts, lock_sampling)
_ENDPOINTS = [[False, False], [True, True], [False, True]]
_INITS = [
    dict(extent=[10.0, 8.0], gpts=[20, 16], sampling=None),
    dict(extent=None, gpts=[20, 12], sampling=[0.5, 0.25]),
    dict(extent=[10.0, 12.0], gpts=None, sampling=[0.5, 0.75]),
    dict(extent=None, gpts=None, sampling=None),
]
_INITS_T = _INITS + [
    dict(extent=[10.0, 10.0], gpts=None, sampling=None),
    dict(extent=None, gpts=[20, 24], sampling=None),
    dict(extent=None, gpts=None, sampling=[0.5, 0.3]),
]
_OTHERS = [
    dict(extent=[8.0, 12.0], gpts=[16, 24], sampling=None, endpoint=[False, False]),
    dict(extent=[10.0, 8.0], gpts=None, sampling=None, endpoint=[False, False]),
    dict(extent=None, gpts=[20, 16], sampling=None, endpoint=[False, False]),
    dict(extent=None, gpts=None, sampling=None, endpoint=[False, False]),
]

RULE = ("exhaustive enumeration of assignment histories on the real Grid class: every sequence of length 1..L of "
        "(setter, value) with setter in {extent,gpts,sampling} and value from a small per-quantity value grid "
        "(scalars and non-square pairs), for each of the 8 lock combinations x 3 endpoint patterns (FF,TT,FT) x "
        "initial grids (extent+gpts, gpts+sampling, extent+sampling, undefined; thorough adds the three "
        "singly-defined ones); plus histories containing Grid.match against defined/partly defined/undefined "
        "grids; plus 1-D and 3-D grids. Contract clauses are evaluated after every step. Non-trivial: at least one "
        "step changed the reported state or raised. Distinct = distinct (locks, endpoint, init, history).")
BOUNDS = {
    "quick": {"history_length": 3, "values_per_setter": 3, "locks": 8, "endpoint_patterns": 3, "inits": 4,
              "match_histories": "length 2 (setter, match) and (match, setter), 6 of the 9 setter ops",
              "dims": {"2": "length 3", "1 and 3": "length 2"}},
    "thorough": {"history_length": 4, "values_per_setter": 3, "locks": 8, "endpoint_patterns": 3, "inits": 7,
                 "extra": "length 3 with 5 values per setter; match histories of length 3",
                 "dims": {"2": "length 4", "1 and 3": "length 3"}},
    "domain": "extent > 0, sampling > 0, gpts >= 2 (so gpts - endpoint >= 1), dimensions 1..3",
}
EXHAUSTIVE = True
ASSUMPTIONS = [
    "float comparisons with rel_tol 1e-9 (extent/sampling/reciprocal); gpts compared exactly",
    "a step 'raises' iff it raises RuntimeError or ValueError; any other exception type propagates (C17/no-exception)",
    "domain: positive extents/samplings, gpts >= 2; value grid is binary-exact so exact-ratio cases do not depend on "
    "floating-point rounding of ceil(extent/sampling)",
    "histories longer than 1 (quick) / 2 (thorough) are sharded: one driver case per (locks, endpoint, init, first step(s)) carries "
    "expand=k and expand_ops and runs all continuations of k more steps in-process; the detail of a failing clause "
    "names the shortest failing history of that shard",
]
CONTRACTS = ["abtem/core/grid.py:Grid.__init__", "abtem/core/grid.py:Grid.extent", "abtem/core/grid.py:Grid.gpts",
             "abtem/core/grid.py:Grid.sampling", "abtem/core/grid.py:Grid.reciprocal_space_sampling",
             "abtem/core/grid.py:Grid.match"]

_OB_INV = "C17/Grid/invariant-extent-eq-gpts-x-sampling"
_OB_REC = "C17/Grid/reciprocal-sampling"
_OB_LOCK = "C17/Grid/locked-unchanged"
_OB_ROK = "C17/Grid/raises-or-consistent"
_OB_INIT = "C17/Grid.__init__/invariant"
_OB_MATCH = "C17/Grid.match/other-grid-invariant"


def _ops(ext, gpt, smp):
    return [["extent", v] for v in ext] + [["gpts", v] for v in gpt] + [["sampling", v] for v in smp]


def _proj(v, dims):
    """Restrict a 2-D value to `dims` dimensions (scalars stay scalars)."""
    if v is None or not isinstance(v, list):
        return v
    if dims <= len(v):
        return v[:dims]
    return v + [v[-1]] * (dims - len(v))


def cases(tier, seed):
    quick = tier == "quick"
    ops = _ops(_EXT, _GPT, _SMP)
    inits = _INITS if quick else _INITS_T
    base = []
    for locks in _LOCKS:
        for ep in _ENDPOINTS:
            for init in inits:
                base.append(dict(dims=2, endpoint=ep, locks=locks, init=init))
    # --- explicit histories of length 1 (thorough: and 2): one case per history, so the replay file of a clause that
    #     already fails on a short history is a minimal reproduction (longer ones are covered by the shards below,
    #     which check every prefix) --------------------------------------------------------------------------------
    for n in ((1,) if quick else (1, 2)):
        for b in base:
            for h in itertools.product(ops, repeat=n):
                yield dict(b, history=[list(x) for x in h])
    # --- length 3 (quick) / 4 (thorough), sharded by the first step(s); all continuations are expanded in-process ------
    for b in base:
        if quick:
            for o in ops:
                yield dict(b, history=[o], expand=2, expand_ops=ops)
        else:
            for h in itertools.product(ops, repeat=2):
                yield dict(b, history=[list(x) for x in h], expand=2, expand_ops=ops)
    # --- histories with match ---------------------------------------------------------------------------------------
    mops = [["match", o] for o in _OTHERS]
    for b in base:
        for m in mops:
            yield dict(b, history=[m])
            for o in (ops[::3] + ops[1::3]) if quick else ops:
                yield dict(b, history=[o, m])
                yield dict(b, history=[m, o])
            if not quick:
                yield dict(b, history=[m], expand=2, expand_ops=ops)
                for o in ops:
                    yield dict(b, history=[o, m], expand=1, expand_ops=ops)
    # --- other dimensionalities (length 2 quick / 3 thorough) --------------------------------------------------------
    for dims in (1, 3):
        pops = [[o, _proj(v, dims)] for o, v in ops]
        for locks in _LOCKS:
            for epi, ep in enumerate([[False] * dims, [True] * dims, [False, True, False][:dims]]):
                if dims == 1 and epi == 2:
                    continue
                for init in inits:
                    i2 = {k: _proj(v, dims) for k, v in init.items()}
                    for o in pops:
                        yield dict(dims=dims, endpoint=ep, locks=locks, init=i2, history=[o],
                                   expand=1 if quick else 2, expand_ops=pops)
    if quick:
        return
    # --- thorough: wider value grid (5 values per setter) at length 3 ---------------------------------------------------
    ops5 = _ops(_EXT_T, _GPT_T, _SMP_T)
    for b in base:
        for o in ops5:
            yield dict(b, history=[o], expand=2, expand_ops=ops5)


# ---------------------------------------------------------------------------------------------------------------------


def _state(g):
    return (g.extent, g.gpts, g.sampling)


def _feq(a, b):
    return math.isclose(a, b, rel_tol=1e-9, abs_tol=1e-300)


def _same(q, a, b):
    if a is None or b is None:
        return a is b
    if len(a) != len(b):
        return False
    if q == 1:
        return all(int(x) == int(y) for x, y in zip(a, b))
    return all(_feq(x, y) for x, y in zip(a, b))


def _inv_violation(g):
    """None if the invariant holds (or the grid is not fully defined), else a text."""
    e, n, d = _state(g)
    if e is None or n is None or d is None:
        return None
    for i, (ei, ni, di, pi) in enumerate(zip(e, n, d, g.endpoint)):
        want = (ni - 1) * di if pi else ni * di
        if not _feq(ei, want):
            return (f"dim {i}: extent={ei!r} but (gpts{'-1' if pi else ''})*sampling={want!r} "
                    f"(gpts={ni}, sampling={di!r}, endpoint={pi})")
    return None


def _rec_violation(g):
    e, n, d = _state(g)
    if e is None or n is None or d is None:
        return None
    k = g.reciprocal_space_sampling
    if len(k) != len(n):
        return f"length {len(k)} != {len(n)}"
    for i, (ki, ni, di) in enumerate(zip(k, n, d)):
        if not _feq(ki, 1.0 / (ni * di)):
            return f"dim {i}: reciprocal_space_sampling={ki!r} but 1/(gpts*sampling)={1.0 / (ni * di)!r}"
    return None


def _mk(Grid, spec, dims, endpoint, locks=(False, False, False)):
    def tup(v):
        return None if v is None else (tuple(v) if isinstance(v, list) else v)

    return Grid(extent=tup(spec.get("extent")), gpts=tup(spec.get("gpts")), sampling=tup(spec.get("sampling")),
                dimensions=dims, endpoint=tuple(endpoint), lock_extent=locks[0], lock_gpts=locks[1],
                lock_sampling=locks[2])


class _Acc:
    """Collects, per obligation, (#evaluated, #nontrivial, first failure text)."""

    def __init__(self):
        self.n = {}
        self.fail = {}

    def add(self, ob, ok, detail, steps=0):
        self.n[ob] = self.n.get(ob, 0) + 1
        if not ok and (ob not in self.fail or steps < self.fail[ob][0]):
            self.fail[ob] = (steps, detail)


def _run_history(Grid, case, history, acc):
    """Replay one history on a fresh grid; evaluate all clauses after every step. Returns True if non-trivial."""
    dims, ep, locks = case["dims"], case["endpoint"], case["locks"]
    names = ("extent", "gpts", "sampling")
    g = _mk(Grid, case["init"], dims, ep, locks)
    tag = f"locks(extent,gpts,sampling)={locks} endpoint={ep} init={case['init']}"
    v = _inv_violation(g)
    acc.add(_OB_INIT, v is None, f"{tag}: after construction {v}; state={_state(g)}")
    v = _rec_violation(g)
    acc.add(_OB_REC, v is None, f"{tag}: after construction {v}")
    nontrivial = False
    for k, (op, val) in enumerate(history):
        before = _state(g)
        raised = None
        other = None
        try:
            if op == "match":
                other = _mk(Grid, val, dims, _proj(val.get("endpoint", ep), dims))
                g.match(other)
            else:
                setattr(g, op, tuple(val) if isinstance(val, list) else val)
        except (RuntimeError, ValueError) as e:  # the deliberate refusals of the setters
            raised = f"{type(e).__name__}: {e}"
        after = _state(g)
        nontrivial = nontrivial or raised is not None or after != before
        where = (f"{tag}; history={history[:k + 1]} (step {k + 1}: {op}={val}{' RAISED ' + raised if raised else ''}); "
                 f"before (extent,gpts,sampling)={before} after={after}")
        # locked quantities never change
        for q, (nm, lk) in enumerate(zip(names, locks)):
            if lk and before[q] is not None:
                acc.add(_OB_LOCK, _same(q, before[q], after[q]),
                        f"locked {nm} changed {before[q]} -> {after[q]}: {where}", k + 1)
        # invariant after every step of the sequence (raised or not)
        v = _inv_violation(g)
        acc.add(_OB_INV, v is None, f"{v}: {where}", k + 1)
        # either raises or leaves the grid consistent
        acc.add(_OB_ROK, raised is not None or v is None, f"returned normally but {v}: {where}", k + 1)
        v = _rec_violation(g)
        acc.add(_OB_REC, v is None, f"{v}: {where}", k + 1)
        if other is not None:
            v = _inv_violation(other)
            acc.add(_OB_MATCH, v is None, f"other grid after match: {v}; other={_state(other)}: {where}", k + 1)
    return nontrivial


def run_case(case):
    from abtem.core.grid import Grid

    acc = _Acc()
    base = [list(x) for x in case["history"]]
    nt = False
    expand = int(case.get("expand", 0))
    if expand:
        ops = case["expand_ops"]
        # all continuations of exactly `expand` more steps; every prefix is checked on the way and the shortest
        # failing prefix of each clause is the one reported
        for tail in itertools.product(ops, repeat=expand):
            nt = _run_history(Grid, case, base + [list(x) for x in tail], acc) or nt
    else:
        nt = _run_history(Grid, case, base, acc)
    out = []
    for ob, n in acc.n.items():
        if ob in acc.fail:
            out.append(Res(ob, False, acc.fail[ob][1], nt))
        else:
            out.append(Res(ob, True, f"{n} evaluations", nt))
    return out
