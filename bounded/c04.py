"""C04 — Fourier-space multislice never creates intensity; vacuum propagation preserves / is reversible.

Bounded run-time contract on the real functions
  abtem.multislice.conventional_multislice_step / FresnelPropagator.propagate / FresnelPropagator.get_array,
  abtem.potentials.iam.PotentialArray.transmission_function, TransmissionFunction.transmit,
  abtem.antialias.AntialiasAperture.bandlimit and the public pipeline Waves/PlaneWave/Probe.multislice.

Clauses of the statement and their obligations
  (a) "multislice through any real potential never increases the total intensity, whatever slicing, tilt, order"
        C04/step/nonincrease-potential      chain of conventional_multislice_step over PotentialArray slices
                                            (the path abTEM uses: T = exp(i sigma V) is band-limited AFTER exponentiation)
        C04/step/nonincrease-transmission   the same chain over un-band-limited TransmissionFunction slices (|T| == 1)
        C04/pipeline/nonincrease            public API, thickness series (exit_planes=1): I(plane k+1) <= I(plane k)
  (b) "vacuum propagation preserves the intensity of a wave band-limited inside the antialiasing aperture"
        C04/vacuum/intensity-preserved
  (c) "propagating by -dz undoes propagating by dz for such a wave"
        C04/vacuum/reversible
  mechanism side conditions (anchors): C04/kernel/modulus (|propagator kernel| <= 1, == 1 inside cutoff-taper, also with
        tilt / order 2) and C04/transmission/unit-modulus (|exp(i sigma V)| == 1 for real V).

Oracle: the statement itself — sum |psi|^2 (accumulated in float64 from the returned arrays) before/after each step, and
array equality after the dz / -dz round trip. No abTEM logic is re-implemented; band-limited test waves are synthesised
with NumPy from the documented aperture radius (config antialias.cutoff / antialias.taper).
"""

import math

import numpy as np

from vlib.hx import Res, rng_for, tiny_atoms

PROPERTY = "C04"
RULE = ("three case families. 'steps': pairwise covering array over {grid parity/shape, (an)isotropic sampling, potential "
        "kind (zero, const, white random, smooth random, +/- gaussian blobs, Nyquist checker, sharp phase step), phase "
        "scale sigma*V in {0.1,1,pi,10} rad (both signs), wave kind (white, band-limited, localized packet next to the "
        "potential edge, plane, delta), ensemble layout (none, batch axis, tilt axis, two axis-aligned tilt axes), base "
        "tilt, order 1/2, conjugate, transpose, slice type} x seeded energies 20-300 keV, 1-5 slice thicknesses 0.2-4 A; "
        "'vacuum': covering array over {grid, sampling, band fraction, order, in_place, tilt layout, propagator reuse} x "
        "seeded dz (both signs), energy; 'pipeline': PlaneWave / Probe / Waves .multislice with thickness series over "
        "atoms potentials (finite/infinite projection, slice thicknesses) and custom PotentialArray, lazy and eager, "
        "tilts, orders. Non-trivial = incident intensity > 0; distinct = distinct case dicts")
BOUNDS = {
    "gpts": [[16, 16], [15, 15], [16, 15], [9, 32], [31, 12], [24, 17], [8, 8], [21, 20]],
    "sampling_A": [0.04, 0.25], "anisotropy_factor": [1.3, 2.5], "energy_eV": [2e4, 3e5], "slice_thickness_A": [0.2, 4.0], "slices": [1, 5],
    "tilt_mrad": [-60, 60], "orders": [1, 2], "phase_scale_rad": [0.1, 1.0, math.pi, 10.0],
    "random_per_family": {"quick": {"steps": 40, "vacuum": 16, "pipeline": 0}, "thorough": {"steps": 900, "vacuum": 300, "pipeline": 40}},
}
EXHAUSTIVE = False
ASSUMPTIONS = [
    "float32 pipeline: an intensity 'increase' is reported only above a relative 1e-5 per step (observed float32 noise of "
    "one FFT convolution on these sizes is <= 3e-7)",
    "vacuum preservation: |I_after/I_before - 1| <= 2e-5; round trip: max|psi'' - psi| <= 2e-5 * max|psi|",
    "unit modulus / kernel modulus: tolerance 2e-6 (float32 sin/cos)",
    "intensities are accumulated in float64 from the complex arrays abTEM returns",
    "'band-limited inside the antialiasing aperture' is taken as Fourier support in r <= f*(cutoff - taper), f <= 0.98, "
    "cutoff = antialias.cutoff/(2*max(sampling)), taper = antialias.taper/max(sampling)",
]
CONTRACTS = [
    "abtem/multislice.py:conventional_multislice_step", "abtem/multislice.py:FresnelPropagator.propagate",
    "abtem/multislice.py:FresnelPropagator.get_array", "abtem/multislice.py:_fresnel_propagator_array",
    "abtem/multislice.py:_apply_tilt_to_fresnel_propagator_array", "abtem/antialias.py:AntialiasAperture.bandlimit",
    "abtem/antialias.py:antialias_aperture", "abtem/potentials/iam.py:PotentialArray.transmission_function",
    "abtem/potentials/iam.py:TransmissionFunction.transmit", "abtem/multislice.py:multislice_and_detect",
]

RTOL_INC = 1e-5
RTOL_VAC = 2e-5
TOL_MOD = 2e-6

_GPTS = [tuple(g) for g in BOUNDS["gpts"]]
_POT_KINDS = ["zero", "const", "random", "smooth", "blobs", "checker", "step"]
_WAVE_KINDS = ["white", "bandlimited", "localized", "plane", "delta"]
_ENS = ["none", "batch", "tilt", "tilt_xy"]


def _f(x, nd=6):
    return float(round(float(x), nd))


# --------------------------------------------------------------------------------------------- cases


def cases(tier, seed):
    from vlib.hx import covering

    nrand = BOUNDS["random_per_family"][tier]

    # ---- family 'steps'
    axes = dict(
        gpts=list(range(len(_GPTS))), aniso=[False, True], pot=_POT_KINDS, phase=[0.1, 1.0, math.pi, 10.0, -math.pi],
        wave=_WAVE_KINDS, ens=_ENS, base_tilt=[False, True], order=[1, 2], conjugate=[False, True],
        transpose=[False, True], slice_type=["potential", "transmission"],
    )
    rows = covering(axes, seed=seed + 1, extra_random=nrand["steps"])
    # always include the adversarial corner named in the design caveat: sharp phase step x localized wave
    for g in (0, 1, 4):
        for sl in ("potential", "transmission"):
            rows.append(dict(gpts=g, aniso=False, pot="step", phase=math.pi, wave="localized", ens="none",
                             base_tilt=False, order=1, conjugate=False, transpose=False, slice_type=sl))
    for i, row in enumerate(rows):
        r = rng_for(seed, "steps", i)
        s0 = _f(r.uniform(0.04, 0.25), 4)
        samp = [s0, _f(s0 * r.uniform(1.3, 2.5), 4)] if row["aniso"] else [s0, s0]
        if row["aniso"] and r.random() < 0.5:
            samp = samp[::-1]
        nsl = int(r.integers(1, 6))
        c = dict(mode="steps", gpts=list(_GPTS[row["gpts"]]), sampling=samp,
                 energy=_f(10 ** r.uniform(math.log10(2e4), math.log10(3e5)), 1),
                 thickness=[_f(r.uniform(0.2, 4.0), 3) for _ in range(nsl)],
                 pot=row["pot"], phase=_f(row["phase"]), wave=row["wave"], ens=row["ens"],
                 base_tilt=[_f(r.uniform(-60, 60), 2), _f(r.uniform(-60, 60), 2)] if row["base_tilt"] else [0.0, 0.0],
                 order=row["order"], conjugate=row["conjugate"], transpose=row["transpose"],
                 slice_type=row["slice_type"], seed=int(r.integers(1 << 30)))
        yield c

    # ---- family 'vacuum'
    axes = dict(gpts=list(range(len(_GPTS))), aniso=[False, True], frac=[0.3, 0.8, 0.98], order=[1, 2],
                in_place=[False, True], ens=_ENS, base_tilt=[False, True], reuse=[False, True])
    rows = covering(axes, seed=seed + 2, extra_random=nrand["vacuum"])
    for i, row in enumerate(rows):
        r = rng_for(seed, "vacuum", i)
        s0 = _f(r.uniform(0.04, 0.25), 4)
        samp = [s0, _f(s0 * r.uniform(1.3, 2.5), 4)] if row["aniso"] else [s0, s0]
        if row["aniso"] and r.random() < 0.5:
            samp = samp[::-1]
        yield dict(mode="vacuum", gpts=list(_GPTS[row["gpts"]]), sampling=samp,
                   energy=_f(10 ** r.uniform(math.log10(2e4), math.log10(3e5)), 1),
                   dz=_f(r.uniform(0.2, 6.0) * (1 if r.random() < 0.75 else -1), 3), frac=row["frac"],
                   order=row["order"], in_place=row["in_place"], ens=row["ens"],
                   base_tilt=[_f(r.uniform(-60, 60), 2), _f(r.uniform(-60, 60), 2)] if row["base_tilt"] else [0.0, 0.0],
                   reuse=row["reuse"], seed=int(r.integers(1 << 30)))

    # ---- family 'pipeline'
    axes = dict(source=["planewave", "probe", "waves"], potential=["atoms_finite", "atoms_infinite", "array"],
                gpts=[0, 2, 5, 6], lazy=[False, True], order=[1, 2], tilt=["none", "base", "ensemble"],
                structure=["si", "two", "random"], flags=["plain", "conjugate", "transpose"])
    rows = covering(axes, seed=seed + 3, extra_random=nrand["pipeline"])
    for i, row in enumerate(rows):
        r = rng_for(seed, "pipeline", i)
        yield dict(mode="pipeline", source=row["source"], potential=row["potential"], gpts=list(_GPTS[row["gpts"]]),
                   lazy=row["lazy"], order=row["order"], tilt=row["tilt"], structure=row["structure"], flags=row["flags"],
                   energy=_f(10 ** r.uniform(math.log10(2e4), math.log10(3e5)), 1),
                   slice_thickness=_f(r.uniform(0.4, 2.0), 3), size=_f(r.uniform(3.0, 6.0), 3),
                   height=_f(r.uniform(2.0, 5.0), 3), tilt_values=[_f(r.uniform(-40, 40), 2) for _ in range(4)],
                   seed=int(r.integers(1 << 30)))


# --------------------------------------------------------------------------------------------- builders


def _intensity(a):
    a = np.asarray(a)
    return (np.abs(a.astype(np.complex128)) ** 2).sum(axis=(-2, -1))


def _aperture_radius(samp):
    import abtem

    cutoff = abtem.config.get("antialias.cutoff") / max(samp) / 2
    taper = abtem.config.get("antialias.taper") / max(samp)
    return cutoff, taper


def _kgrid(gpts, samp):
    kx = np.fft.fftfreq(gpts[0], samp[0])
    ky = np.fft.fftfreq(gpts[1], samp[1])
    return kx[:, None], ky[None, :]


def _bandlimited(shape, samp, frac, rng):
    kx, ky = _kgrid(shape[-2:], samp)
    cutoff, taper = _aperture_radius(samp)
    mask = np.sqrt(kx ** 2 + ky ** 2) <= frac * (cutoff - taper)
    F = (rng.normal(size=shape) + 1j * rng.normal(size=shape)) * mask
    return np.fft.ifft2(F) * math.sqrt(shape[-1] * shape[-2]), int(mask.sum())


def _ensemble(ens, rng):
    """leading shape + axes metadata for the chosen ensemble layout"""
    from abtem.core.axes import AxisAlignedTiltAxis, OrdinalAxis, TiltAxis

    if ens == "none":
        return (), []
    if ens == "batch":
        return (3,), [OrdinalAxis(values=(0, 1, 2))]
    if ens == "tilt":
        vals = tuple((float(rng.uniform(-50, 50)), float(rng.uniform(-50, 50))) for _ in range(2))
        return (2,), [TiltAxis(values=vals)]
    vx = tuple(float(v) for v in rng.uniform(-50, 50, 2))
    vy = tuple(float(v) for v in rng.uniform(-50, 50, 3))
    return (2, 3), [AxisAlignedTiltAxis(values=vx, direction="x"), AxisAlignedTiltAxis(values=vy, direction="y")]


def _wave(kind, shape, samp, rng, edge=None):
    nx, ny = shape[-2:]
    lead = shape[:-2]
    if kind == "white":
        a = rng.normal(size=shape) + 1j * rng.normal(size=shape)
    elif kind == "bandlimited":
        a, _ = _bandlimited(shape, samp, float(rng.uniform(0.2, 0.98)), rng)
    elif kind == "plane":
        # a discrete plane wave whose frequency lies inside the (circular) antialiasing aperture
        cutoff, taper = _aperture_radius(samp)
        cand = [(m, n) for m in range(-3, 4) for n in range(-3, 4)
                if math.hypot(m / (nx * samp[0]), n / (ny * samp[1])) <= 0.98 * (cutoff - taper)]
        m, n = cand[int(rng.integers(len(cand)))]
        x, y = np.arange(nx)[:, None], np.arange(ny)[None, :]
        a = np.broadcast_to(np.exp(2j * np.pi * (m * x / nx + n * y / ny)), shape).copy()
    elif kind == "delta":
        a = np.zeros(shape, complex)
        a[..., int(rng.integers(nx)), int(rng.integers(ny))] = 1.0
    else:  # localized packet centred close to the potential edge (or anywhere), then band-limited with NumPy
        axis, pos = edge if edge is not None else (0, float(rng.uniform(0, nx)))
        n_ax = (nx, ny)[axis]
        c = pos + float(rng.uniform(-2.5, 2.5))
        wd = float(rng.choice([0.8, 1.5, 3.0]))
        t = np.arange(n_ax)
        d = (t - c + n_ax / 2) % n_ax - n_ax / 2
        g = np.exp(-d ** 2 / (2 * wd ** 2))
        a2 = g[:, None] * np.ones(ny)[None, :] if axis == 0 else np.ones(nx)[:, None] * g[None, :]
        kx, ky = _kgrid((nx, ny), samp)
        cutoff, taper = _aperture_radius(samp)
        mask = np.sqrt(kx ** 2 + ky ** 2) <= 0.98 * (cutoff - taper)
        a2 = np.fft.ifft2(np.fft.fft2(a2) * mask)
        a = np.broadcast_to(a2, shape) * (1 + 0.1 * rng.normal(size=lead + (1, 1)))
    return np.ascontiguousarray(a).astype(np.complex64)


def _potential_array(kind, nsl, gpts, samp, phase, sigma, rng):
    """real potential values (V*A) such that sigma*V is of the order of `phase` radians; returns (array, edge)"""
    nx, ny = gpts
    amp = phase / sigma
    edge = None
    if kind == "zero":
        v = np.zeros((nsl, nx, ny))
    elif kind == "const":
        v = np.ones((nsl, nx, ny)) * amp * rng.uniform(0.2, 1.0, (nsl, 1, 1))
    elif kind == "random":
        v = rng.uniform(-1, 1, (nsl, nx, ny)) * amp
    elif kind == "smooth":
        F = rng.normal(size=(nsl, nx, ny)) + 1j * rng.normal(size=(nsl, nx, ny))
        kx, ky = np.fft.fftfreq(nx)[:, None], np.fft.fftfreq(ny)[None, :]
        v = np.fft.ifft2(F * np.exp(-(kx ** 2 + ky ** 2) / (2 * 0.08 ** 2))).real
        v = v / np.abs(v).max() * amp
    elif kind == "blobs":
        v = np.zeros((nsl, nx, ny))
        x, y = np.arange(nx)[:, None], np.arange(ny)[None, :]
        for s in range(nsl):
            for _ in range(int(rng.integers(1, 4))):
                cx, cy, w = rng.uniform(0, nx), rng.uniform(0, ny), rng.uniform(0.6, 2.5)
                dx = (x - cx + nx / 2) % nx - nx / 2
                dy = (y - cy + ny / 2) % ny - ny / 2
                v[s] += rng.choice([-1.0, 1.0]) * amp * np.exp(-(dx ** 2 + dy ** 2) / (2 * w ** 2))
    elif kind == "checker":
        x, y = np.arange(nx)[:, None], np.arange(ny)[None, :]
        v = np.broadcast_to(((-1.0) ** (x + y)) * amp, (nsl, nx, ny)).copy()
    else:  # sharp phase step across one axis
        axis = int(rng.integers(2))
        n_ax = (nx, ny)[axis]
        lo = int(rng.integers(0, n_ax))
        width = int(rng.integers(max(2, n_ax // 4), max(3, 3 * n_ax // 4)))
        idx = (np.arange(n_ax) - lo) % n_ax < width
        v = np.zeros((nsl, nx, ny))
        if axis == 0:
            v[:, idx, :] = amp
        else:
            v[:, :, idx] = amp
        edge = (axis, float(lo) - 0.5 if rng.random() < 0.5 else float((lo + width) % n_ax) - 0.5)
    return v.astype(np.float32), edge


# --------------------------------------------------------------------------------------------- run


def _run_steps(case):
    import abtem
    from abtem.antialias import AntialiasAperture
    from abtem.core.energy import energy2sigma
    from abtem.multislice import FresnelPropagator, conventional_multislice_step
    from abtem.potentials.iam import PotentialArray

    rng = rng_for(case["seed"], "steps")
    gpts, samp, energy = tuple(case["gpts"]), tuple(case["sampling"]), case["energy"]
    sigma = float(energy2sigma(energy))
    thick = list(case["thickness"])
    v, edge = _potential_array(case["pot"], len(thick), gpts, samp, case["phase"], sigma, rng)
    lead, axes_md = _ensemble(case["ens"], rng)
    arr = _wave(case["wave"], lead + gpts, samp, rng, edge=edge)
    md = {}
    if tuple(case["base_tilt"]) != (0.0, 0.0):
        md = {"base_tilt_x": case["base_tilt"][0], "base_tilt_y": case["base_tilt"][1]}
    waves = abtem.Waves(arr.copy(), energy=energy, sampling=samp, ensemble_axes_metadata=axes_md, metadata=md)
    pot = PotentialArray(v.copy(), slice_thickness=thick, sampling=samp)
    out = []

    # mechanism: |exp(i sigma V)| == 1 for real V
    tf = pot.transmission_function(energy)
    dev = float(np.abs(np.abs(np.asarray(tf.array).astype(np.complex128)) - 1).max())
    out.append(Res("C04/transmission/unit-modulus", dev <= TOL_MOD,
                   f"max||T|-1|={dev:.3e} (tol {TOL_MOD}) for real V in [{v.min():.3g},{v.max():.3g}], sigma={sigma:.3e}",
                   bool(np.any(v != 0))))

    source = tf if case["slice_type"] == "transmission" else pot
    ob = "C04/step/nonincrease-" + case["slice_type"]
    propagator, aperture = FresnelPropagator(), AntialiasAperture()
    i_prev = _intensity(waves.array)
    i0 = i_prev.copy()
    worst, worst_at, trace = -np.inf, None, []
    for k, sl in enumerate(source.generate_slices()):
        waves = conventional_multislice_step(waves, sl, propagator, aperture, conjugate=case["conjugate"],
                                             transpose=case["transpose"], order=case["order"])
        i_new = _intensity(waves.array)
        ratio = np.where(i_prev > 0, i_new / np.where(i_prev > 0, i_prev, 1), np.where(i_new > 0, np.inf, 1.0))
        trace.append(float(np.max(ratio)))
        if float(np.max(ratio)) > worst:
            worst, worst_at = float(np.max(ratio)), k
        i_prev = i_new
    finite = bool(np.all(np.isfinite(i_prev)))
    ok = finite and worst <= 1 + RTOL_INC
    out.append(Res(ob, ok,
                   f"largest I_after/I_before over {len(thick)} steps = {worst:.7f} at slice {worst_at} "
                   f"(allowed <= 1+{RTOL_INC}); per-step max ratios {['%.6f' % t for t in trace]}; finite={finite}",
                   bool(np.all(i0 > 0))))
    # vacuum through the full step: zero potential and a band-limited incident wave -> preserved
    if case["pot"] in ("zero", "const") and case["wave"] in ("bandlimited", "plane", "localized"):
        tot = _intensity(waves.array) / i0
        dv = float(np.abs(tot - 1).max())
        out.append(Res("C04/vacuum/intensity-preserved", dv <= RTOL_VAC * len(thick),
                       f"multislice through {case['pot']} potential, band-limited wave: max|I_out/I_in-1|={dv:.3e} "
                       f"(tol {RTOL_VAC * len(thick):.1e})", True))
    return out


def _run_vacuum(case):
    import abtem
    from abtem.multislice import FresnelPropagator

    rng = rng_for(case["seed"], "vacuum")
    gpts, samp, energy, dz = tuple(case["gpts"]), tuple(case["sampling"]), case["energy"], case["dz"]
    lead, axes_md = _ensemble(case["ens"], rng)
    arr, nmodes = _bandlimited(lead + gpts, samp, case["frac"], rng)
    arr = arr.astype(np.complex64)
    md = {}
    if tuple(case["base_tilt"]) != (0.0, 0.0):
        md = {"base_tilt_x": case["base_tilt"][0], "base_tilt_y": case["base_tilt"][1]}
    w0 = abtem.Waves(arr.copy(), energy=energy, sampling=samp, ensemble_axes_metadata=axes_md, metadata=md)
    nt = nmodes > 0 and bool(np.any(arr != 0))
    out = []

    p = FresnelPropagator()
    # mechanism: modulus of the kernel actually used
    ker = np.asarray(p.get_array(w0, dz, order=case["order"]))
    mod = np.abs(ker.astype(np.complex128))
    kx, ky = _kgrid(gpts, samp)
    cutoff, taper = _aperture_radius(samp)
    inside = np.broadcast_to(np.sqrt(kx ** 2 + ky ** 2) <= (cutoff - taper) * (1 - 1e-6), mod.shape)
    over = float(mod.max() - 1)
    dev_in = float(np.abs(mod[inside] - 1).max()) if inside.any() else 0.0
    out.append(Res("C04/kernel/modulus", over <= TOL_MOD and dev_in <= TOL_MOD,
                   f"max|K|-1={over:.3e}, max||K|-1| inside cutoff-taper={dev_in:.3e} (tol {TOL_MOD}); kernel shape {ker.shape}",
                   True))

    i0 = _intensity(arr)
    w1 = p.propagate(w0 if not case["in_place"] else w0.copy(), dz, in_place=case["in_place"], order=case["order"])
    a1 = np.array(w1.array)
    dv = float(np.abs(_intensity(a1) / i0 - 1).max()) if nt else 0.0
    out.append(Res("C04/vacuum/intensity-preserved", dv <= RTOL_VAC,
                   f"propagate(dz={dz}) of a wave with {nmodes} modes inside {case['frac']}*(cutoff-taper): "
                   f"max|I_after/I_before-1|={dv:.3e} (tol {RTOL_VAC})", nt))
    if not case["in_place"]:
        same = bool(np.array_equal(np.asarray(w0.array), arr))
        out.append(Res("C04/vacuum/frame-input-unchanged", same, "in_place=False modified the incident array", nt))

    p2 = p if case["reuse"] else FresnelPropagator()
    w2 = p2.propagate(w1, -dz, in_place=case["in_place"], order=case["order"])
    a2 = np.asarray(w2.array)
    scale = float(np.abs(arr).max()) or 1.0
    err = float(np.abs(a2.astype(np.complex128) - arr.astype(np.complex128)).max()) / scale
    out.append(Res("C04/vacuum/reversible", err <= RTOL_VAC,
                   f"propagate({dz}) then propagate({-dz}) ({'same' if case['reuse'] else 'fresh'} propagator, order "
                   f"{case['order']}): max|psi''-psi|/max|psi|={err:.3e} (tol {RTOL_VAC})", nt))
    if case["reuse"]:
        # the same propagator object applied to a *different* wave of the same shape (what an eager run over several
        # frozen-phonon configurations, or a caller re-using a propagator, does): clause (b) holds for that wave too, and
        # the result is the one a fresh propagator gives
        arr_b, nm_b = _bandlimited(lead + gpts, samp, case["frac"], rng_for(case["seed"], "vacuum-second"))
        arr_b = (3.0 * arr_b).astype(np.complex64)
        wb = abtem.Waves(arr_b.copy(), energy=energy, sampling=samp, ensemble_axes_metadata=axes_md, metadata=md)
        wb1 = p.propagate(wb, dz, in_place=case["in_place"], order=case["order"])
        ab1 = np.array(wb1.array)
        ntb = nm_b > 0 and bool(np.any(arr_b != 0))
        dvb = float(np.abs(_intensity(ab1) / _intensity(arr_b) - 1).max()) if ntb else 0.0
        wf = abtem.Waves(arr_b.copy(), energy=energy, sampling=samp, ensemble_axes_metadata=axes_md, metadata=md)
        af = np.asarray(FresnelPropagator().propagate(wf, dz, in_place=False, order=case["order"]).array)
        errb = float(np.abs(ab1.astype(np.complex128) - af.astype(np.complex128)).max()) / (float(np.abs(arr_b).max()) or 1.0)
        # ... and the SAME wave object after its grid was edited in place (sampling changed): the kernel must follow the
        # grid the wave has now
        samp2 = (samp[0] * 1.25, samp[1] * 0.8)
        arr_c, nm_c = _bandlimited(lead + gpts, samp2, case["frac"], rng_for(case["seed"], "vacuum-regrid"))
        arr_c = arr_c.astype(np.complex64)
        wc = abtem.Waves(arr_c.copy(), energy=energy, sampling=samp, ensemble_axes_metadata=axes_md, metadata=md)
        p3 = FresnelPropagator()
        _ = p3.get_array(wc, dz, order=case["order"])                        # first use: kernel cached for this very object
        wc.sampling = samp2                                                  # in-place edit of the grid
        wc1 = p3.propagate(wc, dz, in_place=False, order=case["order"])
        wref = abtem.Waves(arr_c.copy(), energy=energy, sampling=samp2, ensemble_axes_metadata=axes_md, metadata=md)
        aref = np.asarray(FresnelPropagator().propagate(wref, dz, in_place=False, order=case["order"]).array)
        ac1 = np.asarray(wc1.array)
        ntc = nm_c > 0 and bool(np.any(arr_c != 0))
        dvc = float(np.abs(_intensity(ac1) / _intensity(arr_c) - 1).max()) if ntc else 0.0
        errc = float(np.abs(ac1.astype(np.complex128) - aref.astype(np.complex128)).max()) / (float(np.abs(arr_c).max()) or 1.0)
        out.append(Res("C04/vacuum/reused-propagator-regridded-wave", dvc <= RTOL_VAC and errc <= RTOL_VAC,
                       f"wave re-sampled in place {samp} -> {samp2} and propagated through the propagator that had seen it before: "
                       f"max|I_after/I_before-1|={dvc:.3e}, max|psi_reused-psi_fresh|/max|psi|={errc:.3e} (tol {RTOL_VAC})", ntc))
        out.append(Res("C04/vacuum/reused-propagator-second-wave", dvb <= RTOL_VAC and errb <= RTOL_VAC,
                       f"second wave through the already used propagator (in_place={case['in_place']}): "
                       f"max|I_after/I_before-1|={dvb:.3e}, max|psi_reused-psi_fresh|/max|psi|={errb:.3e} (tol {RTOL_VAC})", ntb))
    return out


def _run_pipeline(case):
    import abtem
    from abtem.multislice import FourierMultislice
    from abtem.potentials.iam import PotentialArray

    rng = rng_for(case["seed"], "pipeline")
    gpts, energy = tuple(case["gpts"]), case["energy"]
    size, height = case["size"], case["height"]
    if case["potential"] == "array":
        nsl = max(2, int(round(height / case["slice_thickness"])))
        samp = (size / gpts[0], size / gpts[1])
        from abtem.core.energy import energy2sigma

        kind = ["random", "smooth", "blobs", "step"][int(rng.integers(4))]
        v, _ = _potential_array(kind, nsl, gpts, samp, float(rng.choice([1.0, math.pi])), float(energy2sigma(energy)), rng)
        thick = [float(t) for t in rng.uniform(0.3, 2.0, nsl)]
        potential = PotentialArray(v, slice_thickness=thick, sampling=samp, exit_planes=1)
    else:
        atoms = tiny_atoms(case["structure"], size=size, height=height, seed=case["seed"] % 1000)
        potential = abtem.Potential(atoms, gpts=gpts, slice_thickness=case["slice_thickness"], exit_planes=1,
                                    projection="finite" if case["potential"] == "atoms_finite" else "infinite")
    alg = FourierMultislice(order=case["order"], conjugate=case["flags"] == "conjugate",
                            transpose=case["flags"] == "transpose")
    tv = case["tilt_values"]
    if case["tilt"] == "none":
        tilt = (0.0, 0.0)
    elif case["tilt"] == "base":
        tilt = (tv[0], tv[1])
    else:
        tilt = (abtem.distributions.from_values([tv[0], tv[2]]), tv[1])

    if case["source"] == "planewave":
        res = abtem.PlaneWave(energy=energy, tilt=tilt).multislice(potential, lazy=case["lazy"], algorithm=alg)
    elif case["source"] == "probe":
        probe = abtem.Probe(energy=energy, semiangle_cutoff=float(rng.uniform(15, 40)), tilt=tilt)
        pos = rng.uniform(0, size, (3, 2))
        res = probe.multislice(potential, scan=abtem.CustomScan(pos), lazy=case["lazy"], algorithm=alg, max_batch=2)
    else:
        samp = potential.sampling
        arr = _wave(["white", "bandlimited", "localized"][int(rng.integers(3))], (2,) + gpts, samp, rng)
        from abtem.core.axes import OrdinalAxis

        md = {"base_tilt_x": tv[0], "base_tilt_y": tv[1]} if case["tilt"] != "none" else {}
        w = abtem.Waves(arr, energy=energy, sampling=samp, ensemble_axes_metadata=[OrdinalAxis(values=(0, 1))], metadata=md)
        if case["lazy"]:
            w = w.ensure_lazy(chunks=(1, -1, -1))
        res = w.multislice(potential, algorithm=alg)
    if getattr(res, "is_lazy", False):
        res = res.compute(scheduler="synchronous", progress_bar=False)
    a = np.asarray(res.array)
    nplanes = len(potential.exit_planes)
    # locate the exit-plane axis from the metadata
    from abtem.core.axes import ThicknessAxis

    ax = [i for i, m in enumerate(res.ensemble_axes_metadata) if isinstance(m, ThicknessAxis)]
    if len(ax) != 1 or a.shape[ax[0]] != nplanes:
        return [Res("C04/pipeline/nonincrease", False,
                    f"could not find a thickness axis of length {nplanes} in result axes {res.ensemble_axes_metadata}", True)]
    inten = np.moveaxis(_intensity(a), ax[0], -1)  # (..., planes)
    ratio = inten[..., 1:] / inten[..., :-1]
    worst = float(ratio.max())
    finite = bool(np.all(np.isfinite(inten)))
    return [Res("C04/pipeline/nonincrease", finite and worst <= 1 + RTOL_INC,
                f"{nplanes} planes, result shape {a.shape}: largest I(k+1)/I(k) = {worst:.7f} (allowed <= 1+{RTOL_INC}); "
                f"first member series {['%.6g' % t for t in inten.reshape(-1, nplanes)[0][:8]]}",
                bool(np.all(inten[..., 0] > 0)))]


def run_case(case):
    if case["mode"] == "steps":
        return _run_steps(case)
    if case["mode"] == "vacuum":
        return _run_vacuum(case)
    return _run_pipeline(case)
