"""C14 — diffraction-pattern geometry is self-consistent (bounded run-time contract on the real functions).

Clauses and obligations
  * a pattern cropped to a maximum angle equals the centred crop of the uncropped pattern
        C14/diffraction_patterns/cropped-equals-centered-crop     Waves.diffraction_patterns(max_angle=number|keyword)
        C14/diffraction_patterns/cropped-coordinates-match-full   same pixels carry the same coordinates (1/Å and mrad)
        C14/DiffractionPatterns.crop/equals-centered-crop         DiffractionPatterns.crop(max_angle|max_frequency|gpts)
        C14/DiffractionPatterns.crop/unshifted-equals-centered-crop   the same on fftshift=False patterns (expected:
                                                                  the inverse shift of the centred crop)
  * the fftshift=False pattern is the inverse shift of the fftshift=True pattern
        C14/diffraction_patterns/unshifted-is-ifftshift-of-shifted
  * angle-limited patterns have the requested parity
        C14/diffraction_patterns/requested-parity
  * block_direct zeroes exactly the pixels within the effective blocking radius and leaves all others unchanged
        C14/block_direct/zeroes-exactly-pixels-within-radius            (fftshift=True patterns)
        C14/block_direct/other-pixels-unchanged
        C14/block_direct/unshifted-zeroes-exactly-pixels-within-radius  (fftshift=False patterns: pixel (i,j) carries the
        C14/block_direct/unshifted-other-pixels-unchanged                frequency np.fft.fftfreq assigns to it)

Oracles: NumPy slicing of the 'full' pattern around its zero-frequency pixel (index n//2 of a shifted axis),
np.fft.ifftshift, integer parity, and an own float64 scattering-angle grid (np.fft.fftfreq * wavelength) for the blocking
disc. "Effective radius" = the radius argument (or metadata['semiangle_cutoff'], or one pixel, as documented), plus one
pixel of the coarser axis when the documented margin applies.
"""

import math

import numpy as np

from vlib.hx import Res, close, covering, rng_for

PROPERTY = "C14"
RULE = ("pairwise covering array over (grid shape/parity, ensemble layout, lazy, wave kind, energy) with seeded extents; "
        "inside a case: every max_angle keyword and 3 seeded numeric angles x every parity x both fftshift values, "
        "3 crop modes x both fftshift values, and a set of block radii (explicit fractional, pixel-aligned, default, "
        "margin on/off) on shifted and unshifted patterns; non-trivial = the cropped shape is a proper sub-grid / the "
        "blocking disc holds at least one and not all pixels; distinct = distinct case dict")
BOUNDS = {
    "gpts": "8..32 per axis; (odd,odd), (even,even), mixed; square and non-square",
    "extent_A": [8.0, 40.0],
    "energy_eV": [40e3, 60e3, 80e3, 100e3, 200e3, 300e3],
    "max_angle": ["cutoff", "valid", "full", "3 numbers in (0, 0.9*min(full angle)]"],
    "parity": ["odd", "even", "same"],
    "ensemble": ["none", "3", "2x3", "probe at scan 2x2 (semiangle_cutoff metadata)"],
    "block_radius": "explicit in (0, 0.6*max angle), pixel-aligned k*sampling, None; margin None/True/False",
}
EXHAUSTIVE = False
ASSUMPTIONS = [
    "cropped vs full values compared with rtol 1e-5 (+1e-7*max) (two FFT calls); shifts, parities, shapes exact",
    "coordinates compared with rtol 1e-6 (float32 angular coordinates: 2e-6)",
    "block_direct: pixels within 1e-5*(1+R) mrad of the effective radius may fall on either side; unblocked pixels "
    "must be bit-identical; margin = max(angular sampling)",
    "numeric max_angle values whose parity-adjusted size exceeds the wave grid are outside the statement (no crop) "
    "and are skipped",
]
CONTRACTS = [
    "abtem/waves.py:Waves.diffraction_patterns",
    "abtem/waves.py:BaseWaves._gpts_within_angle",
    "abtem/core/fft.py:fft_crop",
    "abtem/measurements.py:DiffractionPatterns.crop",
    "abtem/measurements.py:DiffractionPatterns.block_direct",
    "abtem/measurements.py:DiffractionPatterns.angular_coordinates",
]

_GPTS = [(16, 16), (17, 17), (16, 21), (23, 18), (32, 27), (25, 32), (12, 30), (31, 31), (9, 14)]
_ENS = ["none", "e3", "e2x3", "probe"]


def _wavelength(energy):
    h, m, e, c = 6.62607015e-34, 9.1093837015e-31, 1.602176634e-19, 299792458.0
    return h * c / math.sqrt(energy * e * (2 * m * c ** 2 + energy * e)) * 1e10


def cases(tier, seed):
    reps = 1 if tier == "quick" else 10
    for rep in range(reps):
        arr = covering(dict(gpts=_GPTS, ens=_ENS, lazy=[False, True], energy=BOUNDS["energy_eV"]),
                       seed=seed * 131 + rep, extra_random=8)
        for i, c in enumerate(arr):
            r = rng_for(seed, "c14", rep, i)
            base = float(r.uniform(8.0, 40.0))
            asp = float(r.uniform(0.7, 1.4)) if r.random() < 0.7 else 1.0
            yield dict(gpts=list(c["gpts"]), extent=[round(base, 4), round(base * asp, 4)], energy=float(c["energy"]),
                       ens=c["ens"], lazy=bool(c["lazy"]), seed=int(r.integers(1 << 30)),
                       angle_fracs=[round(float(x), 4) for x in r.uniform(0.08, 0.9, 3)],
                       radius_fracs=[round(float(x), 4) for x in r.uniform(0.05, 0.6, 2)])


def _build(case):
    import dask.array as da

    import abtem
    from abtem.core.axes import OrdinalAxis
    from abtem.waves import Waves

    r = np.random.default_rng(case["seed"])
    g, ext, en = tuple(case["gpts"]), tuple(case["extent"]), case["energy"]
    if case["ens"] == "probe":
        lam = _wavelength(en)
        full = min(g[0] // 2 * lam * 1e3 / ext[0], g[1] // 2 * lam * 1e3 / ext[1])
        probe = abtem.Probe(energy=en, semiangle_cutoff=round(0.3 * full, 3), extent=ext, gpts=g, defocus=30.0)
        scan = abtem.GridScan(start=(0, 0), end=(0.5 * ext[0], 0.5 * ext[1]), gpts=(2, 2), endpoint=False)
        w = probe.build(scan, lazy=case["lazy"])
        # add a weak random background so that no pixel is exactly zero
        w = w.compute(scheduler="synchronous") if case["lazy"] else w
        a = w.array + (1e-3 * (r.normal(size=w.shape) + 1j * r.normal(size=w.shape))).astype(np.complex64)
        if case["lazy"]:
            a = da.from_array(a, chunks=(1, 1, -1, -1))
        kw = w._copy_kwargs(exclude=("array",))
        kw["array"] = a
        return Waves(**kw)
    es = {"none": (), "e3": (3,), "e2x3": (2, 3)}[case["ens"]]
    a = (r.normal(size=es + g) + 1j * r.normal(size=es + g)).astype(np.complex64)
    if case["lazy"]:
        a = da.from_array(a, chunks=tuple(1 if i == 0 else -1 for i in range(len(es))) + (-1, -1))
    md = [OrdinalAxis(label=f"a{i}", values=tuple(range(n))) for i, n in enumerate(es)]
    return Waves(a, energy=en, extent=ext, ensemble_axes_metadata=md)


def _np(x):
    arr = x.array
    if hasattr(arr, "compute"):
        arr = arr.compute(scheduler="synchronous")
    return np.asarray(arr)


def _center_crop(shifted, n, m):
    N, M = shifted.shape[-2:]
    i0, j0 = N // 2 - n // 2, M // 2 - m // 2
    return shifted[..., i0:i0 + n, j0:j0 + m], (i0, j0)


def _vclose(a, b):
    scale = float(np.abs(b).max()) if b.size else 0.0
    return close(a, b, rtol=1e-5, atol=1e-7 * max(scale, 1e-30))


def run_case(case):
    import warnings

    warnings.filterwarnings("ignore")
    w = _build(case)
    g = tuple(case["gpts"])
    lam = _wavelength(case["energy"])
    samp = (lam * 1e3 / case["extent"][0], lam * 1e3 / case["extent"][1])  # own angular sampling [mrad]
    fullmax = min(g[0] // 2 * samp[0], g[1] // 2 * samp[1])
    full_dp = w.diffraction_patterns(max_angle="full", parity="same", fftshift=True)
    full = _np(full_dp)
    N, M = full.shape[-2:]
    out = []

    # ------------------------------------------------------------------ crop / shift / parity ----
    crop_bad, coord_bad, shift_bad, par_bad = [], [], [], []
    n_crop = n_shift = n_par = 0
    proper = False
    angles = ["cutoff", "valid", "full"] + [round(f * fullmax, 4) for f in case["angle_fracs"]]
    fx, fy = (np.asarray(c, float) for c in full_dp.coordinates)
    ax, ay = (np.asarray(c, float) for c in full_dp.angular_coordinates)
    for ma in angles:
        for par in ("odd", "even", "same"):
            dp = w.diffraction_patterns(max_angle=ma, parity=par, fftshift=True)
            n, m = dp.shape[-2:]
            tag = f"max_angle={ma!r} parity={par} grid {g} -> {(n, m)}"
            # requested parity (keyword 'full' means: not angle limited)
            if ma != "full":
                n_par += 1
                want = {"odd": (1, 1), "even": (0, 0), "same": (g[0] % 2, g[1] % 2)}[par]
                if (n % 2, m % 2) != want:
                    par_bad.append(f"{tag}: parities {(n % 2, m % 2)} != requested {want}")
            if n > N or m > M:
                continue  # larger than the wave grid: not a crop (outside the statement)
            proper = proper or (n < N or m < M)
            c = _np(dp)
            ref, (i0, j0) = _center_crop(full, n, m)
            n_crop += 1
            ok, d = _vclose(c, ref)
            if not ok:
                crop_bad.append(f"{tag}: {d}")
            cx, cy = (np.asarray(v, float) for v in dp.coordinates)
            okc = np.allclose(cx, fx[i0:i0 + n], rtol=1e-6, atol=1e-9) and np.allclose(cy, fy[j0:j0 + m], rtol=1e-6, atol=1e-9)
            bx, by = (np.asarray(v, float) for v in dp.angular_coordinates)
            oka = np.allclose(bx, ax[i0:i0 + n], rtol=2e-6, atol=1e-5) and np.allclose(by, ay[j0:j0 + m], rtol=2e-6, atol=1e-5)
            zero_ok = abs(cx[n // 2]) < 1e-9 and abs(cy[m // 2]) < 1e-9
            if not (okc and oka and zero_ok):
                coord_bad.append(f"{tag}: coordinates x[:2]={cx[:2]} vs full slice {fx[i0:i0 + 2]}; angular x[:2]={bx[:2]} vs "
                                 f"{ax[i0:i0 + 2]}; coordinate of the centre pixel ({cx[n // 2]:.3g},{cy[m // 2]:.3g})")
            un = w.diffraction_patterns(max_angle=ma, parity=par, fftshift=False)
            n_shift += 1
            u = _np(un)
            oks, ds = _vclose(u, np.fft.ifftshift(c, axes=(-2, -1)))
            if not (oks and un.fftshift is False and dp.fftshift is True):
                shift_bad.append(f"{tag}: {ds}; flags shifted={dp.fftshift} unshifted={un.fftshift}")
    out.append(Res("C14/diffraction_patterns/cropped-equals-centered-crop", not crop_bad,
                   f"{len(crop_bad)}/{n_crop} differ; " + " | ".join(crop_bad[:2]), proper))
    out.append(Res("C14/diffraction_patterns/cropped-coordinates-match-full", not coord_bad,
                   f"{len(coord_bad)}/{n_crop} differ; " + " | ".join(coord_bad[:2]), proper))
    out.append(Res("C14/diffraction_patterns/unshifted-is-ifftshift-of-shifted", not shift_bad,
                   f"{len(shift_bad)}/{n_shift} differ; " + " | ".join(shift_bad[:2]), True))
    out.append(Res("C14/diffraction_patterns/requested-parity", not par_bad,
                   f"{len(par_bad)}/{n_par} differ; " + " | ".join(par_bad[:2]), True))

    # ------------------------------------------------------------------ DiffractionPatterns.crop --
    bad, nc, proper = {True: [], False: []}, {True: 0, False: 0}, False
    f0 = case["angle_fracs"][0]
    k_odd = (max(3, int(0.5 * N) | 1), max(3, int(0.6 * M) | 1))
    k_mixed = (max(2, (N // 2) & ~1), max(3, (M // 2) | 1))
    recip = (1.0 / case["extent"][0], 1.0 / case["extent"][1])
    modes = [dict(max_angle=round(f0 * fullmax, 4)), dict(max_frequency=round(f0 * min(N // 2 * recip[0], M // 2 * recip[1]), 5)),
             dict(gpts=k_odd), dict(gpts=k_mixed)]
    for fs in (True, False):
        src = w.diffraction_patterns(max_angle="full", parity="same", fftshift=fs)
        for kw in modes:
            cr = src.crop(**kw)
            c = _np(cr)
            n, m = c.shape[-2:]
            tag = f"crop({kw}) of fftshift={fs} pattern {(N, M)} -> {(n, m)}"
            if "gpts" in kw and (n, m) != tuple(kw["gpts"]):
                bad[fs].append(f"{tag}: shape differs from the requested gpts")
                continue
            if n > N or m > M:
                continue
            proper = proper or (n < N or m < M)
            ref, _ = _center_crop(full, n, m)
            if not cr.fftshift:
                ref = np.fft.ifftshift(ref, axes=(-2, -1))
            nc[fs] += 1
            ok, d = _vclose(c, ref)
            if not ok or cr.fftshift != fs:
                bad[fs].append(f"{tag}: {d}; fftshift flag of the result {cr.fftshift}")
    out.append(Res("C14/DiffractionPatterns.crop/equals-centered-crop", not bad[True],
                   f"{len(bad[True])}/{nc[True]} differ; " + " | ".join(bad[True][:2]), proper))
    out.append(Res("C14/DiffractionPatterns.crop/unshifted-equals-centered-crop", not bad[False],
                   f"{len(bad[False])}/{nc[False]} differ; " + " | ".join(bad[False][:2]), proper))

    # ------------------------------------------------------------------ block_direct --------------
    zero_bads, keep_bads, nbs, nt = {True: [], False: []}, {True: [], False: []}, {True: 0, False: 0}, False
    has_sa = "semiangle_cutoff" in w.metadata
    radii = [(round(f * fullmax, 4), mg) for f, mg in zip(case["radius_fracs"], (None, True))]
    radii += [(2 * max(samp), False), (None, None), (None, False), (round(case["radius_fracs"][0] * fullmax, 4), False)]
    sources = [("full", "same"), ("cutoff", "odd"), ("valid", "even")]
    for fs in (True, False):
        zero_bad, keep_bad = zero_bads[fs], keep_bads[fs]
        for ma, par in sources:
            src = w.diffraction_patterns(max_angle=ma, parity=par, fftshift=fs)
            s = _np(src)
            n, m = s.shape[-2:]
            if n > N or m > M:
                continue
            kx = np.fft.fftfreq(n, d=1.0 / n) * samp[0]  # exact integer multiples of the angular sampling
            ky = np.fft.fftfreq(m, d=1.0 / m) * samp[1]
            if fs:
                kx, ky = np.fft.fftshift(kx), np.fft.fftshift(ky)
            alpha = np.sqrt(kx[:, None] ** 2 + ky[None] ** 2)
            for radius, margin in radii:
                b = _np(src.block_direct(radius=radius, margin=margin))
                eff = radius if radius is not None else (w.metadata["semiangle_cutoff"] if has_sa else max(samp) * 1.0001)
                if margin or (margin is None and has_sa):
                    eff = eff + max(samp)
                amb = np.abs(alpha - eff) < 1e-5 * (1 + eff)
                inside = (alpha <= eff) & ~amb
                outside = (alpha > eff) & ~amb
                nbs[fs] += 1
                nt = nt or (inside.any() and outside.any())
                tag = (f"block_direct(radius={radius}, margin={margin}) on max_angle={ma!r} parity={par} fftshift={fs} "
                       f"pattern {(n, m)}, effective radius {eff:.5g} mrad, sampling {samp[0]:.4g}x{samp[1]:.4g}")
                zmask = np.all(b.reshape((-1, n, m)) == 0, axis=0)
                wrong_zero = np.argwhere(zmask & outside)
                not_zero = np.argwhere(~zmask & inside)
                if len(wrong_zero) or len(not_zero):
                    zero_bad.append(f"{tag}: {len(not_zero)} pixels inside the disc not zeroed (first {not_zero[:3].tolist()}), "
                                    f"{len(wrong_zero)} pixels outside zeroed (first {wrong_zero[:3].tolist()}); "
                                    f"zeroed set {np.argwhere(zmask)[:6].tolist()}, disc {np.argwhere(inside)[:6].tolist()}")
                keep = outside & ~zmask
                if not np.array_equal(b[..., keep], s[..., keep]):
                    keep_bad.append(f"{tag}: {int((b[..., keep] != s[..., keep]).sum())} unblocked values changed")
                elif len(wrong_zero):
                    keep_bad.append(f"{tag}: {len(wrong_zero)} pixels outside the disc were set to zero")
    for fs, pre in ((True, ""), (False, "unshifted-")):
        out.append(Res(f"C14/block_direct/{pre}zeroes-exactly-pixels-within-radius", not zero_bads[fs],
                       f"{len(zero_bads[fs])}/{nbs[fs]} differ; " + " | ".join(zero_bads[fs][:2]), nt))
        out.append(Res(f"C14/block_direct/{pre}other-pixels-unchanged", not keep_bads[fs],
                       f"{len(keep_bads[fs])}/{nbs[fs]} differ; " + " | ".join(keep_bads[fs][:2]), nt))
    return out
