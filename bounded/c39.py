"""C39 — beam tilt acts as a lateral shift per propagation distance (bounded stand-in: run-time contract).

Contracts (relational post-conditions on the real functions):
  FresnelPropagator.propagate / _apply_tilt_to_fresnel_propagator_array
      propagate(psi, dz | tilt (tx, ty))  ==  shift( propagate(psi, dz | no tilt),  (dz*tan tx, dz*tan ty) )
      for tilt carried as base_tilt metadata, as per-axis tilt ensemble axes and as a (tx, ty)-pair ensemble axis, for a
      sequence of steps through ONE propagator object (tilt / distance changed between steps: cache must follow).
  PlaneWave/Probe(tilt).multislice(vacuum) == untilted run shifted by depth*tan(t) at every exit plane;
      a tilted PlaneWave keeps |psi| == 1 at every pixel and every exit plane.
  Tilt forms: tilt=(dist_x, dist_y) member [i, j]  ==  tilt=N x 2 pair array member k=(i, j)  ==  scalar tilt (x_i, y_j),
      after multislice through a real potential (they must "act the same").
Oracle: the shift is done by the NumPy float64 DFT shift theorem on the *untilted* abTEM result (the statement's
relation); the unit modulus is |psi| == 1; the forms are compared with each other.  Shift direction: positive tilt moves
the wave towards +x / +y (x = first array axis).
"""

import math

import numpy as np

from vlib.hx import Res, covering, rng_for, tiny_atoms

PROPERTY = "C39"
RULE = ("covering arrays over (grid parity/shape, energy, wave kind, tilt carrier, sign pattern, #steps, in_place, "
        "order, leading stack axis) with seeded tilts in [-150, 150] mrad (mostly <= 40) and distances in [-20, 40] A; "
        "vacuum multislice: builder x grid x tilt signs x slice sequences x exit planes x lazy; forms: builder x axis "
        "lengths x lazy/max_batch. non-trivial = the shift changes the wave by more than 100x the tolerance")
BOUNDS = {"grids": [[16, 16], [15, 15], [15, 20], [24, 9], [18, 32]], "energy_eV": [3e4, 3e5], "tilt_mrad": [-150, 150],
          "distance_A": [-20, 40], "steps": [1, 4], "slices": [1, 6]}
EXHAUSTIVE = False
ASSUMPTIONS = [
    "float32 pipeline: max abs deviation <= 1e-5 * max|psi| counts as equal (observed ~3e-7); |psi|-1 <= 2e-6",
    "DFT shift theorem (NumPy, float64) is the meaning of 'shifting a periodic wave by a non-integer number of pixels'; "
    "the propagator's anti-aliasing aperture removes the Nyquist row/column, so the fractional shift is unambiguous",
    "vacuum = PotentialArray of zeros (transmission function identically one)",
]
CONTRACTS = ["abtem/multislice.py:_apply_tilt_to_fresnel_propagator_array", "abtem/multislice.py:FresnelPropagator.get_array",
             "abtem/multislice.py:FresnelPropagator._calculate_array", "abtem/multislice.py:FresnelPropagator.propagate",
             "abtem/tilt.py:BeamTilt", "abtem/tilt.py:BeamTilt2D", "abtem/core/axes.py:AxisAlignedTiltAxis.tilt",
             "abtem/core/axes.py:TiltAxis.tilt", "abtem/waves.py:PlaneWave.multislice", "abtem/waves.py:Probe.multislice"]

GRIDS = [((16, 16), (8.0, 8.0)), ((15, 15), (6.0, 6.0)), ((15, 20), (6.0, 9.0)), ((24, 9), (9.6, 4.5)),
         ((18, 32), (7.2, 9.6))]
SIGNS = [(1, 1), (-1, 1), (1, -1), (-1, -1), (1, 0), (0, -1)]
TOL = 1e-5


def _tilt(r, sign, big=False):
    hi = 150.0 if big else 40.0
    return [float(sign[0] * r.uniform(1.0, hi)), float(sign[1] * r.uniform(1.0, hi))]


def _prop_case(sel, r):
    gpts, extent = GRIDS[sel["grid"]]
    nsteps = [1, 2, 4][sel["steps"]]
    carrier = ["metadata", "axes2d", "pairs", "xaxis", "yaxis"][sel["carrier"]]
    big = r.random() < 0.25
    steps = []
    same_dz = r.random() < 0.5  # same distance, different tilt: a propagator cache keyed without the tilt would be stale
    for _ in range(nsteps):
        dz = float(r.uniform(0.5, 40.0)) if r.random() < 0.8 else float(-r.uniform(0.5, 20.0))
        if same_dz and steps:
            dz = steps[0][0]
        sign = SIGNS[sel["sign"]] if (carrier != "metadata" or r.random() < 0.6) else SIGNS[int(r.integers(len(SIGNS)))]
        steps.append([dz] + _tilt(r, sign, big))
    case = dict(family="propagate", gpts=list(gpts), extent=list(extent), energy=float(r.uniform(3e4, 3e5)),
                wave=["random", "bandlimited", "probe"][sel["wave"]], carrier=carrier, steps=steps,
                in_place=bool(sel["in_place"]), order=1 + sel["order"], stack=[0, 2, 3][sel["stack"]],
                wave_seed=int(r.integers(1 << 30)))
    # the non-tilt (stack) axis in FRONT of the tilt axes, as a CTF ensemble applied after a tilt ensemble produces it
    case["stack_first"] = bool(carrier != "metadata" and case["stack"] and r.random() < 0.5)
    if carrier != "metadata":
        nx, ny = int(r.integers(1, 4)), int(r.integers(2, 4))
        s = SIGNS[sel["sign"]]
        case["tx"] = [float(s[0] * r.uniform(1, 40)) if i else float(r.uniform(-150 if big else -40, 40)) for i in range(nx)]
        case["ty"] = [float((s[1] or 1) * r.uniform(1, 40)) if i else 0.0 for i in range(ny)]
    return case


def cases(tier, seed):
    nseeds, nrand = (2, 30) if tier == "quick" else (12, 600)
    axes = dict(grid=list(range(len(GRIDS))), wave=[0, 1, 2], carrier=[0, 0, 1, 2, 3, 4], sign=list(range(len(SIGNS))),
                steps=[0, 1, 2], in_place=[0, 1], order=[0, 1], stack=[0, 1, 2])
    k = 0
    for s in range(nseeds):
        for sel in covering(axes, seed=seed * 131 + s, extra_random=nrand if s == 0 else 0):
            yield _prop_case(sel, rng_for(seed, "C39", "prop", k))
            k += 1
    # vacuum multislice
    vaxes = dict(grid=list(range(len(GRIDS))), builder=[0, 1], sign=list(range(len(SIGNS))), nsl=[1, 2, 4, 6],
                 exitp=[0, 1, 2], lazy=[0, 1], norm=[0, 1])
    k = 0
    for s in range(nseeds):
        for sel in covering(vaxes, seed=seed * 17 + s, extra_random=nrand // 2 if s == 0 else 0):
            r = rng_for(seed, "C39", "vac", k)
            k += 1
            gpts, extent = GRIDS[sel["grid"]]
            thick = [float(r.uniform(0.5, 6.0)) for _ in range(sel["nsl"])]
            if r.random() < 0.4:
                thick = [thick[0]] * sel["nsl"]
            yield dict(family="vacuum", builder=["planewave", "probe"][sel["builder"]], gpts=list(gpts), extent=list(extent),
                       energy=float(r.uniform(3e4, 3e5)), tilt=_tilt(r, SIGNS[sel["sign"]], big=r.random() < 0.25),
                       thickness=thick, exit_planes=[None, 1, 2][sel["exitp"]], lazy=bool(sel["lazy"]),
                       normalize=bool(sel["norm"]), defocus=float(r.uniform(-100, 100)),
                       position=[float(r.uniform(0, extent[0])), float(r.uniform(0, extent[1]))])
    # tilt forms through a real potential
    faxes = dict(builder=[0, 1], nx=[1, 2, 3], ny=[1, 2, 3], lazy=[0, 1, 2, 3], kind=["si", "two", "random"], grid=[0, 2, 3])
    k = 0
    for s in range(nseeds):
        for sel in covering(faxes, seed=seed * 29 + s, extra_random=nrand // 3 if s == 0 else 0):
            r = rng_for(seed, "C39", "forms", k)
            k += 1
            gpts, extent = GRIDS[sel["grid"]]
            yield dict(family="forms", builder=["planewave", "probe"][sel["builder"]], gpts=list(gpts), extent=list(extent),
                       energy=float(r.uniform(6e4, 3e5)), atoms=sel["kind"], atoms_seed=int(r.integers(1000)),
                       height=float(r.uniform(4.0, 12.0)), slice_thickness=float(r.uniform(1.0, 3.0)),
                       tx=[float(r.uniform(-40, 40)) for _ in range(sel["nx"])],
                       ty=[float(r.uniform(-40, 40)) for _ in range(sel["ny"])],
                       lazy=[[False, "auto"], [True, "auto"], [True, 1], [True, 2]][sel["lazy"]],
                       position=[float(r.uniform(0, extent[0])), float(r.uniform(0, extent[1]))])


# ------------------------------------------------------------------------------------------------------------


def _fshift(psi, xy, extent):
    nx, ny = psi.shape[-2:]
    kx = np.fft.fftfreq(nx, d=extent[0] / nx)
    ky = np.fft.fftfreq(ny, d=extent[1] / ny)
    ramp = np.exp(-2j * np.pi * (kx[:, None] * xy[0] + ky[None, :] * xy[1]))
    return np.fft.ifft2(np.fft.fft2(np.asarray(psi).astype(np.complex128), axes=(-2, -1)) * ramp, axes=(-2, -1))


def _make_wave_array(case):
    import abtem

    gpts, extent = tuple(case["gpts"]), tuple(case["extent"])
    r = np.random.default_rng(case["wave_seed"])
    n = max(case["stack"], 1)
    if case["wave"] == "probe":
        pos = [(float(r.uniform(0, extent[0])), float(r.uniform(0, extent[1]))) for _ in range(n)]
        a = abtem.Probe(semiangle_cutoff=20.0, extent=extent, gpts=gpts, energy=case["energy"], defocus=60.0,
                        C30=3e4).build(scan=pos, lazy=False).array
        a = np.asarray(a).reshape((n,) + gpts) * math.sqrt(gpts[0] * gpts[1])
    else:
        a = r.normal(size=(n,) + gpts) + 1j * r.normal(size=(n,) + gpts)
        if case["wave"] == "bandlimited":
            kx = np.fft.fftfreq(gpts[0])[:, None]
            ky = np.fft.fftfreq(gpts[1])[None, :]
            a = np.fft.ifft2(np.fft.fft2(a) * (np.sqrt(kx**2 + ky**2) < 0.3))
    a = a.astype(np.complex64)
    return a if case["stack"] else a[0]


def _run_propagate(case):
    import abtem
    from abtem.core.axes import OrdinalAxis
    from abtem.multislice import FresnelPropagator
    from abtem.tilt import BeamTilt, BeamTilt2D

    gpts, extent, energy = tuple(case["gpts"]), tuple(case["extent"]), case["energy"]
    arr = _make_wave_array(case)
    stack_axes = [OrdinalAxis(label="stack", values=tuple(range(case["stack"])))] if case["stack"] else []

    def fresh(meta):
        return abtem.Waves(arr.copy(), energy=energy, extent=extent, ensemble_axes_metadata=list(stack_axes), metadata=dict(meta))

    carrier = case["carrier"]
    untilted = fresh({})
    if carrier == "metadata":
        tilted = fresh({"base_tilt_x": case["steps"][0][1], "base_tilt_y": case["steps"][0][2]})
        members = None
    else:
        meta = {}
        tx, ty = case["tx"], case["ty"]
        if carrier == "axes2d":
            tr = BeamTilt2D(tilt_x=np.array(tx), tilt_y=np.array(ty))
            members = [((i, j), (tx[i], ty[j])) for i in range(len(tx)) for j in range(len(ty))]
        elif carrier == "xaxis":
            tr = BeamTilt2D(tilt_x=np.array(tx), tilt_y=ty[-1])
            members = [((i,), (tx[i], ty[-1])) for i in range(len(tx))]
        elif carrier == "yaxis":
            tr = BeamTilt2D(tilt_x=tx[0], tilt_y=np.array(ty))
            members = [((j,), (tx[0], ty[j])) for j in range(len(ty))]
        else:
            pairs = [(x, y) for x in tx for y in ty]
            tr = BeamTilt(np.array(pairs))
            members = [((k,), p) for k, p in enumerate(pairs)]
        tilted = tr.apply(fresh(meta))
        # (a scalar component given to BeamTilt2D is carried as base tilt metadata in the other direction)
        if case.get("stack_first"):
            nt_axes = len(tilted.ensemble_axes_metadata) - len(stack_axes)
            t_axes = list(tilted.ensemble_axes_metadata)[:nt_axes]
            moved = np.moveaxis(np.asarray(tilted.array), nt_axes, 0).copy()
            tilted = abtem.Waves(moved, energy=energy, extent=extent, ensemble_axes_metadata=list(stack_axes) + t_axes,
                                 metadata=dict(tilted.metadata))
    prop_t, prop_0 = FresnelPropagator(), FresnelPropagator()
    worst, wdet, nontriv, ok_all = 0.0, "", False, True
    acc = np.zeros(2)
    acc_m = {idx: np.zeros(2) for idx, _ in members} if members else None
    for si, (dz, tx_, ty_) in enumerate(case["steps"]):
        if carrier == "metadata":
            tilted.metadata["base_tilt_x"], tilted.metadata["base_tilt_y"] = tx_, ty_
        tilted = prop_t.propagate(tilted, dz, in_place=case["in_place"], order=case["order"])
        untilted = prop_0.propagate(untilted, dz, in_place=case["in_place"], order=case["order"])
        u = np.asarray(untilted.array)
        t = np.asarray(tilted.array)
        if case.get("stack_first") and t.ndim == u.ndim + (2 if carrier == "axes2d" else 1):
            t = np.moveaxis(t, 0, t.ndim - u.ndim)  # back to (tilt axes..., stack, y, x) for the comparison below
        scale = float(np.abs(u).max())
        if carrier == "metadata":
            acc = acc + dz * np.tan(np.array([tx_, ty_]) * 1e-3)
            ref = _fshift(u, acc, extent)
            if t.shape != ref.shape:
                return [Res("C39/FresnelPropagator.propagate/tilt-equals-shift", False, f"shape {t.shape} vs {ref.shape}", True)]
            err = float(np.abs(t - ref).max())
            nontriv = nontriv or float(np.abs(ref - u).max()) > 100 * TOL * scale
            if err / scale >= worst:
                worst, wdet = err / scale, (f"step {si} (dz={dz}, tilt=({tx_},{ty_}) mrad, accumulated shift {tuple(acc)} A): "
                                           f"max|tilted - shift(untilted)| = {err:.3e}, max|psi| = {scale:.3e}")
        else:
            expect_shape = tuple(len(v) for v in ([case["tx"], case["ty"]] if carrier == "axes2d" else
                                                  [case["tx"]] if carrier == "xaxis" else [case["ty"]] if carrier == "yaxis"
                                                  else [members])) + u.shape
            if t.shape != expect_shape:
                return [Res("C39/FresnelPropagator.propagate/tilt-equals-shift", False,
                            f"tilt-ensemble shape {t.shape}, expected {expect_shape}", True)]
            for idx, tt in members:
                acc_m[idx] = acc_m[idx] + dz * np.tan(np.array(tt) * 1e-3)
                ref = _fshift(u, acc_m[idx], extent)
                err = float(np.abs(t[idx] - ref).max())
                nontriv = nontriv or float(np.abs(ref - u).max()) > 100 * TOL * scale
                if err / scale >= worst:
                    worst, wdet = err / scale, (f"step {si} (dz={dz}), member {idx} tilt {tt} mrad (accumulated shift "
                                               f"{tuple(acc_m[idx])} A): max|tilted - shift(untilted)| = {err:.3e}, max|psi| = {scale:.3e}")
    return [Res("C39/FresnelPropagator.propagate/tilt-equals-shift", worst <= TOL,
                f"{wdet}; relative {worst:.3e} (tol {TOL}); carrier {carrier}, {len(case['steps'])} step(s)", nontriv)]


def _run_vacuum(case):
    import abtem

    gpts, extent, energy = tuple(case["gpts"]), tuple(case["extent"]), case["energy"]
    thick = case["thickness"]
    pot = abtem.PotentialArray(np.zeros((len(thick),) + gpts, np.float32), slice_thickness=list(thick), extent=extent,
                               exit_planes=case["exit_planes"])
    tilt = tuple(case["tilt"])

    def run(t):
        if case["builder"] == "planewave":
            b = abtem.PlaneWave(energy=energy, tilt=t, normalize=case["normalize"])
            w = b.multislice(pot, lazy=case["lazy"])
        else:
            b = abtem.Probe(semiangle_cutoff=18.0, energy=energy, tilt=t, defocus=case["defocus"])
            w = b.multislice(pot, scan=[tuple(case["position"])], lazy=case["lazy"])
        if case["lazy"]:
            w = w.compute(scheduler="synchronous", progress_bar=False)
        return np.asarray(w.array)

    a, a0 = run(tilt), run((0.0, 0.0))
    ep = case["exit_planes"]
    cum = np.cumsum(thick)
    if ep is None or ep >= len(thick):
        depths = [float(cum[-1])]
    else:  # entrance plane, then every ep-th slice, then the last slice
        idx = list(range(ep - 1, len(thick), ep))
        if idx[-1] != len(thick) - 1:
            idx.append(len(thick) - 1)
        depths = [0.0] + [float(cum[i]) for i in idx]
    a = a.reshape((-1,) + gpts)
    a0 = a0.reshape((-1,) + gpts)
    out = []
    if a.shape[0] != len(depths) or a0.shape[0] != len(depths):
        return [Res("C39/multislice/vacuum-tilt-equals-shift", False,
                    f"{a.shape[0]} exit planes returned, harness expected depths {depths}", True)]
    worst, wdet, nontriv = 0.0, "", False
    for d, t_, u in zip(depths, a, a0):
        ref = _fshift(u, (d * math.tan(tilt[0] * 1e-3), d * math.tan(tilt[1] * 1e-3)), extent)
        scale = float(np.abs(u).max())
        err = float(np.abs(t_ - ref).max()) / scale
        nontriv = nontriv or float(np.abs(ref - u).max()) > 100 * TOL * scale
        if err >= worst:
            worst, wdet = err, f"depth {d:.4f} A, tilt {tilt} mrad: relative max|tilted - shift(untilted)| = {err:.3e}"
    out.append(Res("C39/multislice/vacuum-tilt-equals-shift", worst <= TOL, f"{wdet} (tol {TOL}); builder {case['builder']}",
                   nontriv and case["builder"] == "probe"))
    if case["builder"] == "planewave" and not case["normalize"]:
        dev = float(np.abs(np.abs(a.astype(np.complex128)) - 1.0).max())
        out.append(Res("C39/PlaneWave/tilted-unit-modulus-in-vacuum", dev <= 2e-6,
                       f"max||psi|-1| = {dev:.3e} over {len(depths)} exit plane(s), tilt {tilt} mrad, thickness {float(cum[-1]):.3f} A",
                       tilt != (0.0, 0.0)))
    return out


def _run_forms(case):
    import abtem

    gpts, extent, energy = tuple(case["gpts"]), tuple(case["extent"]), case["energy"]
    atoms = tiny_atoms(case["atoms"], size=1.0, height=case["height"], seed=case["atoms_seed"])
    # tiny_atoms gives a square cell of edge `size`; rescale to the requested rectangular extent
    pos = atoms.get_scaled_positions()
    atoms.set_cell([extent[0], extent[1], case["height"]])
    atoms.set_scaled_positions(pos)
    pot = abtem.Potential(atoms, gpts=gpts, slice_thickness=case["slice_thickness"])
    lazy, mb = case["lazy"]
    tx, ty = case["tx"], case["ty"]

    def run(tilt, lz=lazy):
        if case["builder"] == "planewave":
            w = abtem.PlaneWave(energy=energy, tilt=tilt).multislice(pot, lazy=lz, max_batch=mb)
        else:
            w = abtem.Probe(semiangle_cutoff=20.0, energy=energy, tilt=tilt, defocus=30.0).multislice(
                pot, scan=[tuple(case["position"])], lazy=lz, max_batch=mb)
        if lz:
            w = w.compute(scheduler="synchronous", progress_bar=False)
        return w

    w_axes = run((np.array(tx), np.array(ty)))
    pairs = [(x, y) for x in tx for y in ty]
    w_pairs = run(np.array(pairs))
    a_axes, a_pairs = np.asarray(w_axes.array), np.asarray(w_pairs.array)
    out = []
    if a_axes.shape != (len(tx), len(ty)) + gpts or a_pairs.shape != (len(pairs),) + gpts:
        return [Res("C39/tilt-forms/per-axis-equals-pairs", False,
                    f"shapes: per-axis {a_axes.shape}, pairs {a_pairs.shape}, expected {(len(tx), len(ty)) + gpts} / {(len(pairs),) + gpts}", True)]
    flat = a_axes.reshape((-1,) + gpts)
    scale = float(np.abs(a_pairs).max())
    err = float(np.abs(flat - a_pairs).max()) / scale
    spread = float(np.abs(a_pairs - a_pairs[0]).max()) / scale if len(pairs) > 1 else 0.0
    out.append(Res("C39/tilt-forms/per-axis-equals-pairs", err <= TOL,
                   f"relative max|psi[(i,j)] - psi_pairs[k]| = {err:.3e} (tol {TOL}); spread between members {spread:.3e}; tx {tx}, ty {ty}",
                   len(pairs) > 1 and spread > 100 * TOL))
    worst, wdet = 0.0, ""
    for k, p in enumerate(pairs):
        ref = np.asarray(run((float(p[0]), float(p[1])), lz=False).array)
        e = float(np.abs(a_pairs[k] - ref).max()) / scale
        if e >= worst:
            worst, wdet = e, f"member {k} tilt {p}: relative max|psi_pairs[k] - psi_scalar| = {e:.3e}"
    untilted = np.asarray(run((0.0, 0.0), lz=False).array)
    moved = float(np.abs(a_pairs - untilted).max()) / scale
    out.append(Res("C39/tilt-forms/ensemble-equals-scalar", worst <= TOL, f"{wdet} (tol {TOL}); effect of the tilt {moved:.3e}",
                   moved > 100 * TOL))
    return out


def run_case(case):
    import abtem

    abtem.config.set({"device": "cpu"})
    if case["family"] == "propagate":
        return _run_propagate(case)
    if case["family"] == "vacuum":
        return _run_vacuum(case)
    return _run_forms(case)
