"""C30 — saved results load back unchanged (bounded run-time contract on the real to_zarr / from_zarr).

Contract: for every array object X built here,  Y = abtem.from_zarr(X.to_zarr(url))  satisfies
    type(Y) is type(X),  Y.array == X.array (bitwise, incl. the NaN/inf pattern),  Y.dtype == X.dtype,
    Y.axes_metadata == X.axes_metadata (class and every dataclass field of every entry, ensemble and base axes),
    Y.metadata == X.metadata
for directory and zip stores, eager and lazy (several chunkings) objects, and lists of objects (ComputableList).
Oracle: the object that was written (the statement: "loads back unchanged"). zarr itself is trusted.

Every store is created under a fresh tempfile.mkdtemp() directory which is removed when the case ends.
"""

import math
import os
import shutil
import tempfile

import numpy as np

from vlib.hx import Res, covering, rng_for

PROPERTY = "C30"
TYPES = ["Images", "DiffractionPatterns", "PolarMeasurements", "RealSpaceLineProfiles", "ReciprocalSpaceLineProfiles",
         "MeasurementsEnsemble", "IndexedDiffractionPatterns", "Waves", "PotentialArray", "SMatrixArray"]
AXIS_KINDS = ["scan", "positions", "thickness", "parameter", "phonons", "tilt", "atilt", "strings", "unknown", "sample",
              "nonlinear", "wavevector", "intvalues", "realspace", "scan32", "param32", "prism", "linear", "mixedvalues"]
MD_KINDS = ["default", "empty", "scalars", "tuples", "lists", "nested", "npscalars", "ndarray", "unicode", "nonfinite",
            "abtem_like"]
DTYPES = ["float32", "float64", "complex64", "complex128", "int32"]
RULE = ("pairwise covering array over (object type x 19 ensemble-axis kinds (linear, ordinal with float/int/str/tuple "
        "values, NumPy-scalar fields, marker axes) x 0-3 ensemble axes x dtype x 11 metadata-content kinds x {directory, "
        "zip} x {eager, lazy one-member chunks, lazy single chunk} x compression level x non-finite array entries) plus "
        "seeded extras; special histories: an object with 11-12 axes, lists of 2-3 objects of different types in one "
        "store, overwriting an existing store with a different object, a second write/read generation (load, save "
        "again, load). Non-trivial: always (a store is written and read). Distinct = distinct case dict.")
BOUNDS = {"types": TYPES, "axis_kinds": AXIS_KINDS, "metadata_kinds": MD_KINDS, "dtypes": DTYPES, "ensemble_dims": [0, 3],
          "axis_length": [1, 4], "compression_level": [None, 0, 4, 9], "extra_random": {"quick": 40, "thorough": 1500},
          "metadata": "JSON-representable leaves (str, int, float incl. nan/inf, bool, None), tuples, lists, dicts with "
                      "string keys, NumPy scalars, 1-D ndarrays; not: complex numbers, non-string keys, the reserved keys "
                      "'type'/'axes'/'kwargs'/'data_origin'"}
EXHAUSTIVE = False
ASSUMPTIONS = [
    "array values compared with np.array_equal(equal_nan=True); dtype exactly",
    "axis fields and metadata are compared by value: NumPy scalars equal the Python numbers they encode, an ndarray equals "
    "the list of its elements (JSON has no array type), tuples and lists are distinguished, nan == nan",
    "float fields of axis metadata may differ by 1e-12 relative: objects rebuilt through their constructor (PotentialArray, "
    "SMatrixArray) recompute sampling = extent/gpts, which moves the last bit (observed 0.24 -> 0.24000000000000005); "
    "metadata dict values are compared exactly",
    "Waves/SMatrixArray use complex dtypes only (their constructors are for complex wave functions); the other types get "
    "all five dtypes",
    "zarr / zipfile I/O is trusted",
]
CONTRACTS = ["abtem/array.py:ComputableList.to_zarr", "abtem/array.py:ArrayObject.to_zarr", "abtem/array.py:from_zarr",
             "abtem/array.py:_from_zarr_canonical", "abtem/core/axes.py:axis_to_dict", "abtem/core/axes.py:axis_from_dict"]


def _ri(r, lo, hi):
    return int(r.integers(lo, hi + 1))


def cases(tier, seed):
    # the rare histories first, so that they are evaluated even if a loaded machine truncates the run
    gen = list(_cases(tier, seed))
    special = [c for c in gen if c["mode"] != "single" or len(c["kinds"]) >= 9]
    rest = [c for c in gen if not (c["mode"] != "single" or len(c["kinds"]) >= 9)]
    return special + rest


def _cases(tier, seed):
    r = rng_for(seed, "c30-cases")
    extra = BOUNDS["extra_random"][tier]
    axes = dict(type=TYPES, nd=[0, 1, 2, 3], k0=list(range(len(AXIS_KINDS))), kstep=[1, 5, 7], dtype=DTYPES, md=MD_KINDS,
                store=["dir", "zip"], lazy=["eager", "lazy1", "lazyall"], comp=["default", None, 0, 9], special=[False, True])
    s = 0
    for c in covering(axes, seed=seed + 1, extra_random=extra):
        nd = c["nd"]
        kinds = [AXIS_KINDS[(c["k0"] + j * c["kstep"]) % len(AXIS_KINDS)] for j in range(nd)]
        s += 1
        yield dict(mode="single", type=c["type"], kinds=kinds, shape=[_ri(r, 1, 4) for _ in range(nd)], dtype=c["dtype"],
                   md=c["md"], store=c["store"], lazy=c["lazy"], comp=c["comp"], special=c["special"], variant=s % 7, s=s)
    # every axis kind at least once on every position-independent path (from_array_and_metadata vs kwargs fallback)
    for j, k in enumerate(AXIS_KINDS):
        for t in ("Images", "PotentialArray"):
            s += 1
            yield dict(mode="single", type=t, kinds=[k, AXIS_KINDS[(j + 3) % len(AXIS_KINDS)]], shape=[_ri(r, 2, 4), _ri(r, 1, 3)],
                       dtype="float32", md=MD_KINDS[j % len(MD_KINDS)], store=["dir", "zip"][j % 2], lazy=["eager", "lazy1"][j % 2],
                       comp="default", special=False, variant=j % 7, s=s)
    # many axes: more than ten axis entries (axis_10, axis_11 ... must keep their order)
    for j in range(4 if tier == "quick" else 20):
        nd = 9 + j % 2
        s += 1
        yield dict(mode="single", type=["Images", "Waves", "PotentialArray", "RealSpaceLineProfiles"][j % 4],
                   kinds=[AXIS_KINDS[(j + 5 * i) % len(AXIS_KINDS)] for i in range(nd)],
                   shape=[2 if i in (j % nd, (j + 4) % nd) else 1 for i in range(nd)], dtype="complex64" if j % 4 == 1 else "float32",
                   md="tuples", store=["dir", "zip"][j % 2], lazy=["eager", "lazy1"][(j // 2) % 2], comp="default", special=False,
                   variant=j, s=s)
    # several objects in one store / overwrite / second generation
    n_hist = 12 if tier == "quick" else 120
    for j in range(n_hist):
        mode = ["multi", "overwrite", "regen"][j % 3]
        objs = []
        for i in range(_ri(r, 2, 3) if mode != "regen" else 1):
            nd = _ri(r, 0, 2)
            objs.append(dict(type=TYPES[(j + 3 * i) % len(TYPES)], kinds=[AXIS_KINDS[(j + i + 4 * q) % len(AXIS_KINDS)] for q in range(nd)],
                             shape=[_ri(r, 1, 3) for _ in range(nd)], dtype=DTYPES[(j + i) % 4], md=MD_KINDS[(j + 2 * i) % len(MD_KINDS)],
                             lazy=["eager", "lazy1", "lazyall"][(j + i) % 3], variant=(j + i) % 7))
        s += 1
        yield dict(mode=mode, objs=objs, store=["dir", "zip"][(j // 3) % 2], comp="default", s=s)


# ------------------------------------------------------------------------------------------------ run


def _metadata(kind, r):
    if kind == "default":
        return None
    if kind == "empty":
        return {}
    if kind == "scalars":
        return {"energy": 80e3, "count": 7, "name": "run-1", "flag": True, "off": False, "nothing": None, "neg": -1.5e-12,
                "big": 12345678901234567890, "label": "intensity", "units": "arb. unit"}
    if kind == "tuples":
        return {"energy": 100e3, "adjusted_antialias_cutoff_gpts": (8, 6), "nested": ((1, 2), (3.5, 4)), "mixed": (1, "a", 2.5, None, True),
                "empty_tuple": (), "one": (1,), "tuple_in_list": [(1, 2), (3,)], "list_in_tuple": ([1, 2], [3]),
                # containers behind a scalar first entry (a decoder must look at every element, not only the first)
                "scalar_then_tuples": ("rect", (0.0, 1.5), (2.0, 3.5)), "scalar_then_mixed": (1, [2, 3], {"k": (4,)}, (5, (6,)))}
    if kind == "lists":
        return {"energy": 100e3, "l": [1, 2, 3], "ll": [[1.5, 2], [3]], "empty": [], "strs": ["a", "b"]}
    if kind == "nested":
        return {"energy": 100e3, "d": {"a": 1, "t": (1, 2), "l": [1, (2, 3)], "dd": {"x": None, "y": (0.5,)}}, "empty_dict": {}}
    if kind == "npscalars":
        return {"energy": np.float64(200e3), "e32": np.float32(1.5), "i": np.int64(3), "i32": np.int32(-4), "b": np.bool_(True),
                "bf": np.bool_(False), "u": np.uint8(200), "in_tuple": (np.float32(0.25), np.int64(2)), "in_list": [np.float64(1.0)],
                "in_dict": {"v": np.int16(5)}}
    if kind == "ndarray":
        return {"energy": 100e3, "arr": np.arange(3.0), "iarr": np.array([1, 2], dtype=np.int64)}
    if kind == "unicode":
        return {"energy": 100e3, "label": "Å é ∑", "units": "Å⁻¹", "tex_label": "$\\alpha$", "quote": "a\"b'c\\d", "newline": "a\nb"}
    if kind == "nonfinite":
        return {"energy": 100e3, "nan": float("nan"), "inf": float("inf"), "ninf": float("-inf")}
    if kind == "abtem_like":
        return {"energy": 300e3, "label": "intensity", "units": "arb. unit", "normalization": "values", "base_tilt_x": 1.5,
                "base_tilt_y": -0.5, "adjusted_antialias_cutoff_gpts": (np.int64(8), np.int64(6)), "reciprocal_space": False,
                "C10": np.float32(-12.5), "name": "v0"}
    raise KeyError(kind)


def _eq(a, b, ulp=False):
    """Value equality: NumPy scalars ~ Python numbers, ndarray ~ list, tuple != list, nan == nan.
    ulp=True additionally lets floats differ by 1e-12 relative (used for axis fields only, see ASSUMPTIONS)."""
    if isinstance(a, np.ndarray):
        a = a.tolist()
    if isinstance(b, np.ndarray):
        b = b.tolist()
    if isinstance(a, np.generic):
        a = a.item()
    if isinstance(b, np.generic):
        b = b.item()
    if isinstance(a, dict) or isinstance(b, dict):
        return isinstance(a, dict) and isinstance(b, dict) and set(a) == set(b) and all(_eq(a[k], b[k], ulp) for k in a)
    if isinstance(a, (tuple, list)) or isinstance(b, (tuple, list)):
        return type(a) is type(b) and len(a) == len(b) and all(_eq(x, y, ulp) for x, y in zip(a, b))
    if isinstance(a, float) and isinstance(b, float) and math.isnan(a) and math.isnan(b):
        return True
    if isinstance(a, bool) != isinstance(b, bool):
        return False
    if ulp and isinstance(a, float) and isinstance(b, float) and math.isfinite(a) and math.isfinite(b):
        return abs(a - b) <= 1e-12 * max(abs(a), abs(b))
    return a == b


def _axis_dict(ax):
    import dataclasses

    d = {f.name: getattr(ax, f.name) for f in dataclasses.fields(ax)}
    d["__class__"] = type(ax).__name__
    return d


def _axis_eq(a, b):
    da_, db = _axis_dict(a), _axis_dict(b)
    if da_["__class__"] != db["__class__"] or set(da_) != set(db):
        return False
    for k in da_:
        x, y = da_[k], db[k]
        if not _eq(x, y, ulp=True):
            return False
    return True


def _build(spec, r, special=False):
    from bounded.c29 import COMPLEX_TYPES, BASE_SHAPES, make_object

    typ = spec["type"]
    dtype = spec["dtype"]
    if typ in COMPLEX_TYPES and not dtype.startswith("complex"):
        dtype = "complex64" if dtype in ("float32", "int32") else "complex128"
    shape = tuple(spec["shape"]) + BASE_SHAPES[typ]
    if dtype.startswith("complex"):
        a = (r.normal(size=shape) + 1j * r.normal(size=shape)).astype(dtype)
    elif dtype.startswith("int"):
        a = r.integers(-1000, 1000, size=shape).astype(dtype)
    else:
        a = r.normal(size=shape).astype(dtype)
    if special and a.size and not dtype.startswith("int"):
        flat = a.reshape(-1)
        flat[0] = np.nan
        flat[-1] = np.inf
        if a.size > 2:
            flat[a.size // 2] = -0.0
    lazy = spec["lazy"] != "eager"
    o, a, axes = make_object(typ, spec["kinds"], spec["shape"], r, lazy=lazy, chunk1=spec["lazy"] == "lazy1",
                             variant=spec["variant"], array=a, metadata=_metadata(spec["md"], r))
    return o, a


def _compare(prefix, x, a, y, tag):
    from bounded.c29 import to_numpy

    out = []
    out.append(Res(f"{prefix}/type", type(y) is type(x), f"{tag}: loaded {type(y).__name__}, wrote {type(x).__name__}", True))
    got = to_numpy(y)
    ok = got.shape == a.shape and np.array_equal(got, a, equal_nan=True)
    if ok and a.dtype.kind in "fc":
        ok = np.array_equal(np.signbit(got.real), np.signbit(a.real))
    out.append(Res(f"{prefix}/array-values", ok, f"{tag}: shape {got.shape} vs {a.shape}; "
                   f"{'equal' if ok else 'max|diff|=' + (str(np.nanmax(np.abs(got - a))) if got.shape == a.shape else 'n/a')}", True))
    out.append(Res(f"{prefix}/dtype", got.dtype == a.dtype and y.dtype == x.dtype,
                   f"{tag}: loaded array {got.dtype} (object reports {y.dtype}), wrote {a.dtype} (object reported {x.dtype})", True))
    ax_x, ax_y = list(x.axes_metadata), list(y.axes_metadata)
    ok = len(ax_x) == len(ax_y) and all(_axis_eq(p, q) for p, q in zip(ax_x, ax_y))
    det = "equal"
    if not ok:
        bad = [i for i, (p, q) in enumerate(zip(ax_x, ax_y)) if not _axis_eq(p, q)]
        det = f"{len(ax_y)} entries vs {len(ax_x)}; first difference at {bad[:1]}: " + (
            f"loaded {_axis_dict(ax_y[bad[0]])} wrote {_axis_dict(ax_x[bad[0]])}" if bad else "")
    out.append(Res(f"{prefix}/axes-metadata", ok, f"{tag}: {det}", True))
    mx, my = dict(x.metadata), dict(y.metadata)
    ok = _eq(mx, my)
    out.append(Res(f"{prefix}/metadata", ok, f"{tag}: loaded {my} wrote {mx}", True))
    return out


def _tag(case):
    return " ".join(f"{k}={case[k]}" for k in case if k != "s")


def _sweep_stale(max_age_s=900):
    """Remove stores left behind by workers that were killed mid-case (budget truncation); disk is limited."""
    import time

    root = tempfile.gettempdir()
    try:
        for name in os.listdir(root):
            if name.startswith("c30-"):
                path = os.path.join(root, name)
                if time.time() - os.path.getmtime(path) > max_age_s:
                    shutil.rmtree(path, ignore_errors=True)
    except OSError:
        pass


def run_case(case):
    import abtem
    from abtem.array import ComputableList

    r = rng_for(0, "c30", case["s"])
    _sweep_stale()
    tmp = tempfile.mkdtemp(prefix="c30-")
    try:
        url = os.path.join(tmp, "store.zip" if case["store"] == "zip" else "store.zarr")
        kw = {} if case["comp"] == "default" else dict(compression_level=case["comp"])
        tag = _tag(case)
        if case["mode"] == "single":
            x, a = _build(case, r, special=case["special"])
            x.to_zarr(url, **kw)
            y = abtem.from_zarr(url)
            if isinstance(y, list):
                return [Res("C30/roundtrip/type", False, f"{tag}: one object written, a list of {len(y)} loaded", True)]
            return _compare("C30/roundtrip", x, a, y, tag)
        built = [_build(spec, r) for spec in case["objs"]]
        if case["mode"] == "multi":
            ComputableList([x for x, _ in built]).to_zarr(url, **kw)
            ys = abtem.from_zarr(url)
            if not isinstance(ys, list) or len(ys) != len(built):
                return [Res("C30/roundtrip-list/count", False, f"{tag}: wrote {len(built)} objects, loaded {type(ys).__name__}"
                            f"{' of ' + str(len(ys)) if isinstance(ys, list) else ''}", True)]
            out = [Res("C30/roundtrip-list/count", True, "", True)]
            for i, ((x, a), y) in enumerate(zip(built, ys)):
                out += _compare("C30/roundtrip-list", x, a, y, f"{tag} [object {i}]")
            return out
        if case["mode"] == "overwrite":
            # the store already holds other objects; overwrite=True must leave exactly the last object written
            ComputableList([x for x, _ in built[:-1]]).to_zarr(url, **kw)
            x, a = built[-1]
            x.to_zarr(url, overwrite=True, **kw)
            y = abtem.from_zarr(url)
            if isinstance(y, list):
                return [Res("C30/roundtrip-overwrite/type", False, f"{tag}: after overwrite a list of {len(y)} objects is loaded", True)]
            return _compare("C30/roundtrip-overwrite", x, a, y, tag)
        # second generation: load, save the loaded (lazy, zarr-backed) object to the other kind of store, load again
        x, a = built[0]
        x.to_zarr(url, **kw)
        y1 = abtem.from_zarr(url)
        url2 = os.path.join(tmp, "second.zarr" if case["store"] == "zip" else "second.zip")
        y1.to_zarr(url2)
        y2 = abtem.from_zarr(url2)
        return _compare("C30/roundtrip-regen", x, a, y2, tag)
    finally:
        shutil.rmtree(tmp, ignore_errors=True)
