"""C09 — the independent-atom potential is additive and slicing conserves it (bounded run-time contract).

Clauses (oracle = the statement; every comparison is against an independently built potential or an exact count):

  additivity     V[A ∪ B (∪ C)] == V[A] + V[B] (+ V[C])   slice by slice, infinite and finite projection
  reslicing      infinite projection: Potential(...).build().project() is the same image for every slice-thickness
                 choice (scalars incl. non-dividing and > height, explicit sequences), and equals the one-slice potential
  one-slice      every atom is in exactly one slice: the slices of get_sliced_atoms() partition the atoms (multiset of
                 (Z, x, y) conserved, counts add up), each atom's slice window contains its z; the built slice k equals
                 the one-slice potential of exactly the atoms whose z lies in [limit_k, limit_k+1)
  boundary       an atom with z == lower limit of slice k (as reported by the object's slice_limits, and as k*height/n for
                 scalar thickness) is in slice k (the upper one), both in the index sets and in the built slices
  thickness-sum  the slice thicknesses of the Potential (scalar or sequence input) sum to the cell height; a sequence whose
                 sum is off by >= 1e-3 relative must be rejected (otherwise the thicknesses would not sum to the height)

The finite-projection builder spreads each atom over several slices by design (integration between slice limits), so the
"assignment" clauses are evaluated on the infinite-projection path (SliceIndexedAtoms, the one anchored in the property)
and, directly, on SlicedAtoms with z_padding=0 (half-open windows).
"""

import numpy as np

from vlib.hx import Res, covering, rng_for

PROPERTY = "C09"
RULE = ("seeded orthogonal structures (1-3 species incl. repeated species across subsets, 2-8 atoms, atoms at z=0, "
        "z=height, z=-1e-13, z=height-1e-11 and on interior slice boundaries) x covering array over {projection, "
        "parametrization, grid, slice spec}; subsets by seeded masks incl. an empty subset; slicings: scalars (dividing, "
        "non-dividing, > height, tiny) and seeded sequences. Non-trivial: reference potential non-zero and (>= 2 non-empty "
        "subsets | >= 2 different slicings | >= 1 boundary atom). Distinct = distinct case dict")
BOUNDS = {
    "cell": "orthogonal a,b in [3,5] A, height in [2,6] A", "atoms": "2..8, species H C O Si Cu Au",
    "gpts_pool": [[12, 12], [9, 14], [16, 10], [15, 15]],
    "projection": ["infinite", "finite"], "parametrization": ["lobato", "kirkland"],
    "scalar_thickness": "0.2 .. 3 x height (incl. height/k, height/k*(1+-1e-9))", "sequence_slices": "2..6",
    "cases": {"quick": {"additivity": 40, "reslice": 30, "assign": 40, "thickness": 60},
              "thorough": {"additivity": 300, "reslice": 250, "assign": 300, "thickness": 1500}},
}
EXHAUSTIVE = False
ASSUMPTIONS = [
    "C09: arrays compared with max|a-b| <= 1e-4 * max|b| (float32; observed 1e-7..1e-6)",
    "C09: thickness sums compared with relative tolerance 1e-9; sequences are generated to sum to the height to 1 ulp, or "
    "to miss it by >= 1e-3 relative (must be rejected); the band in between (abTEM accepts np.isclose, rtol 1e-5) is not "
    "part of the stated domain and is not sampled",
    "C09: 'on a slice boundary' = z equal to the limit the object itself reports (slice_limits) or k*height/n computed in "
    "float64 (<= 1 ulp from it)",
    "C09: atoms at z=height / tiny negative z are only required to be counted exactly once (periodic wrap), not to be "
    "in a particular slice",
]
CONTRACTS = [
    "abtem/slicing.py:_validate_slice_thickness", "abtem/slicing.py:SliceIndexedAtoms.__init__",
    "abtem/slicing.py:SliceIndexedAtoms.get_atoms_in_slices", "abtem/slicing.py:SlicedAtoms.get_atoms_in_slices",
    "abtem/potentials/iam.py:_FieldBuilderFromAtoms._prepare_atoms",
    "abtem/potentials/iam.py:_FieldBuilderFromAtoms.generate_slices", "abtem/potentials/iam.py:FieldArray.project",
]

_SPECIES = ["H", "C", "O", "Si", "Cu", "Au"]


def _cell(r):
    return [round(float(r.uniform(3, 5)), 3), round(float(r.uniform(3, 5)), 3), round(float(r.uniform(2, 6)), 3)]


def _atoms_dict(r, n, nspecies, cell):
    sp = [str(s) for s in r.choice(_SPECIES, nspecies, replace=False)]
    sym = [sp[int(k)] for k in r.integers(0, nspecies, n)]
    for k in range(min(nspecies, n)):
        sym[k] = sp[k]
    pos = r.uniform(0.03, 0.97, (n, 3)) * cell
    return dict(symbols=sym, positions=[[float(x) for x in p] for p in pos], cell=cell)


def _sequence(r, c, n):
    cuts = np.sort(r.uniform(0.08, 0.92, n - 1)) * c
    cuts = np.unique(np.round(cuts, 4))
    cuts = cuts[(cuts > 1e-3) & (cuts < c - 1e-3)]
    edges = np.concatenate(([0.0], cuts, [c]))
    t = [float(x) for x in np.diff(edges)]
    t[-1] = float(c - sum(t[:-1]))
    return t


def _slicing(r, c, kind):
    if kind == "sequence":
        return _sequence(r, c, int(r.integers(2, 7)))
    if kind == "divide":
        return float(c / int(r.integers(1, 7)))
    if kind == "big":
        return float(c * r.uniform(1.0, 3.0))
    if kind == "near":
        return float(c / int(r.integers(2, 6)) * (1 + (1e-9 if r.integers(2) else -1e-9)))
    return round(float(r.uniform(0.2, 1.0) * min(c, 2.5)), 3)            # "generic", non-dividing


_SL_KINDS = ["sequence", "divide", "generic", "big", "near"]


def cases(tier, seed):
    nb = BOUNDS["cases"][tier]
    axes = dict(projection=BOUNDS["projection"], parametrization=BOUNDS["parametrization"], gpts=BOUNDS["gpts_pool"],
                slicing=["sequence", "divide", "generic"], nspecies=[1, 2, 3], nsub=[2, 3], empty=[False, True])
    arr = covering(axes, seed=seed)
    i = 0
    while len(arr) < nb["additivity"]:
        rr = rng_for(seed, "x-add", i)
        arr.append({k: v[int(rr.integers(len(v)))] for k, v in axes.items()})
        i += 1
    for i, a in enumerate(arr):
        r = rng_for(seed, "add", i)
        cell = _cell(r)
        at = _atoms_dict(r, int(r.integers(2, 9)), a["nspecies"], cell)
        n = len(at["symbols"])
        lab = [int(x) for x in r.integers(0, a["nsub"], n)]
        lab[0], lab[1] = 0, 1
        if a["empty"]:
            lab = [x if x != a["nsub"] - 1 or a["nsub"] == 2 else 0 for x in lab]     # last subset empty when nsub == 3
            if a["nsub"] == 2:
                lab = [0] * n                                                         # B empty
        yield dict(kind="additivity", projection=a["projection"], parametrization=a["parametrization"], gpts=a["gpts"],
                   slice_thickness=_slicing(r, cell[2], a["slicing"]), atoms=at, labels=lab, nsub=a["nsub"])

    for i in range(nb["reslice"]):
        r = rng_for(seed, "reslice", i)
        cell = _cell(r)
        at = _atoms_dict(r, int(r.integers(2, 8)), 1 + i % 3, cell)
        c = cell[2]
        # edge atoms: bottom face, top face, tiny negative, just below the top, and on a boundary of a dividing slicing
        edge = [0.0, c, -1e-13, c - 1e-11, c - 1e-9, c / 2, c / 3]
        for k in range(min(len(at["positions"]), 1 + i % 4)):
            at["positions"][k][2] = float(edge[(i + k) % len(edge)])
        sl = [_slicing(rng_for(seed, "reslice", i, j), c, _SL_KINDS[(i + j) % len(_SL_KINDS)]) for j in range(4)]
        sl.append(float(c / 2))
        sl.append(float(c / 3))
        yield dict(kind="reslice", projection="infinite", parametrization=BOUNDS["parametrization"][i % 2],
                   gpts=BOUNDS["gpts_pool"][i % 4], atoms=at, slicings=sl)

    for i in range(nb["assign"]):
        r = rng_for(seed, "assign", i)
        cell = _cell(r)
        c = cell[2]
        at = _atoms_dict(r, int(r.integers(3, 9)), 1 + i % 3, cell)
        sk = ["sequence", "divide", "generic", "near"][i % 4]
        st = _slicing(r, c, sk)
        if sk == "divide" and st == c:
            st = float(c / 3)
        # boundary atoms are placed by run_case from the limits the object reports; here: which atom -> which boundary
        nbound = int(r.integers(1, 4))
        yield dict(kind="assign", parametrization=BOUNDS["parametrization"][i % 2], gpts=BOUNDS["gpts_pool"][i % 4],
                   atoms=at, slice_thickness=st, boundary_atoms=[[k, int(r.integers(0, 50))] for k in range(nbound)],
                   boundary_mode=["reported", "k*c/n", "cumsum"][i % 3], pbc=bool(i % 5 != 4))

    for i in range(nb["thickness"]):
        r = rng_for(seed, "thick", i)
        c = [4.0, 4.2, 5.43, 3.0, 10.0, 2.715, 1.0][i % 7] if i % 3 else round(float(r.uniform(1, 12)), int(r.integers(1, 5)))
        mode = ["scalar", "scalar-np", "scalar-int", "sequence", "sequence-np", "sequence-bad"][i % 6]
        if mode.startswith("scalar"):
            v = _slicing(r, c, ["divide", "generic", "big", "near", "generic"][i % 5])
            if mode == "scalar-int":
                v = int(max(1, round(v)))
        elif mode == "sequence-bad":
            v = _sequence(r, c, int(r.integers(2, 7)))
            # miss the height by 1e-3 .. 5e-2 relative: stretch one slice, or all of them, or append a slice
            delta = float(c * (1 if r.integers(2) else -1) * 10 ** r.uniform(-3, -1.3))
            how = int(r.integers(3))
            if how == 0:
                j = int(np.argmax(v))
                v[j] = float(v[j] + delta)
            elif how == 1:
                v = [float(x * (1 + delta / c)) for x in v]
            else:
                v = v + [abs(delta)]
        else:
            v = _sequence(r, c, int(r.integers(1, 9)) if i % 2 else int(r.integers(2, 40)))
        yield dict(kind="thickness", height=float(c), mode=mode, value=v)


# ---------------------------------------------------------------------------------------------------------------


def _ase(at, idx=None, pbc=True):
    from ase import Atoms

    sym = at["symbols"]
    pos = np.array(at["positions"], float).reshape(-1, 3)
    if idx is not None:
        sym = [sym[k] for k in idx]
        pos = pos[list(idx)] if len(idx) else np.zeros((0, 3))
    return Atoms(sym, positions=pos, cell=at["cell"], pbc=pbc)


def _st(v):
    return tuple(v) if isinstance(v, list) else v


def _pot(atoms, case, st, projection=None):
    import abtem

    return abtem.Potential(atoms, gpts=tuple(case["gpts"]), projection=projection or case.get("projection", "infinite"),
                           parametrization=case["parametrization"], slice_thickness=st)


def _cmp(a, b, rtol=1e-4, scale=None):
    a = np.asarray(a)
    b = np.asarray(b)
    if a.shape != b.shape:
        return False, f"shape {a.shape} != {b.shape}"
    scale = float(np.abs(b).max()) if scale is None else scale
    err = float(np.abs(a - b).max()) if a.size else 0.0
    return err <= rtol * max(scale, 1e-30), (f"max|got-expected|={err:.3e}, scale {scale:.3e}, sums "
                                            f"{float(a.sum()):.7g} vs {float(b.sum()):.7g}")


def _run_additivity(case):
    at = case["atoms"]
    st = _st(case["slice_thickness"])
    whole = np.asarray(_pot(_ase(at), case, st).build(lazy=False).array)
    parts = []
    nonempty = 0
    for s in range(case["nsub"]):
        idx = [k for k, l in enumerate(case["labels"]) if l == s]
        nonempty += bool(idx)
        parts.append(np.asarray(_pot(_ase(at, idx), case, st).build(lazy=False).array, dtype=np.float64))
    total = sum(parts)
    ok, msg = _cmp(whole, total)
    return [Res(f"C09/additivity/union-equals-sum-{case['projection']}", ok,
                f"subsets {[case['labels'].count(s) for s in range(case['nsub'])]} of {at['symbols']}, slices "
                f"{whole.shape[0]}: {msg}", bool(np.any(whole != 0)) and nonempty >= 2)]


def _check_sum(out, pot, height, what):
    th = pot.slice_thickness
    s = float(np.sum(np.asarray(th, dtype=np.float64)))
    out.append(Res("C09/slice-thickness/sums-to-height",
                   abs(s - height) <= 1e-9 * height and abs(float(pot.thickness) - height) <= 1e-9 * height
                   and len(th) == pot.num_slices and all(t > 0 for t in th),
                   f"{what}: {len(th)} slices, sum {s!r}, thickness {pot.thickness!r}, height {height!r}, "
                   f"min {min(th)!r}", True))


def _run_reslice(case):
    at = case["atoms"]
    c = at["cell"][2]
    atoms = _ase(at)
    one = _pot(atoms, case, float(c))
    # reference: with infinite projection the projected potential cannot depend on z at all, so the oracle is the one-slice
    # potential of the same atoms moved to mid-height (an edge atom that is dropped or counted twice shows up here)
    mid = atoms.copy()
    mid.positions[:, 2] = c / 2
    ref = np.asarray(_pot(mid, case, float(c)).build(lazy=False).project().array)
    got1 = np.asarray(one.build(lazy=False).project().array)
    ok1, msg1 = _cmp(got1, ref)
    out = []
    _check_sum(out, one, c, f"scalar {c}")
    out.append(Res("C09/reslicing/projected-potential-invariant", ok1,
                   f"one slice vs the same atoms at mid-height; z of atoms {[p_[2] for p_ in at['positions']]}, height {c}: "
                   f"{msg1}", bool(np.any(ref != 0))))
    for sl in case["slicings"]:
        p = _pot(atoms, case, _st(sl))
        _check_sum(out, p, c, f"slice_thickness={sl}")
        built = p.build(lazy=False)
        got = np.asarray(built.project().array)
        ok, msg = _cmp(got, ref)
        out.append(Res("C09/reslicing/projected-potential-invariant", ok,
                       f"slice_thickness={sl} ({built.array.shape[0]} slices) vs one slice at mid-height; z of atoms "
                       f"{[p_[2] for p_ in at['positions']]}, height {c}: {msg}",
                       bool(np.any(ref != 0)) and built.array.shape[0] > 1))
    return out


def _place_boundary_atoms(case, limits, c):
    """z of the chosen atoms := lower limit of an interior slice (the boundary between slice k-1 and k)."""
    at = {**case["atoms"], "positions": [list(p) for p in case["atoms"]["positions"]]}
    n = len(limits)
    marks = {}
    if n < 2:
        return at, marks
    th = [b - a for a, b in limits]
    for k_atom, pick in case["boundary_atoms"]:
        k = 1 + pick % (n - 1)
        if case["boundary_mode"] == "reported":
            z = float(limits[k][0])
        elif case["boundary_mode"] == "cumsum":
            z = float(np.cumsum(np.asarray(th))[k - 1])
        else:
            z = float(k * c / n) if np.allclose(th, th[0], rtol=1e-12) else float(limits[k][0])
        at["positions"][k_atom][2] = z
        marks[k_atom] = k
    return at, marks


def _run_assign(case):
    from abtem.slicing import SlicedAtoms, SliceIndexedAtoms

    c = case["atoms"]["cell"][2]
    st = _st(case["slice_thickness"])
    probe = _pot(_ase(case["atoms"], pbc=case["pbc"]), case, st)
    limits = [(float(a), float(b)) for a, b in probe.slice_limits]
    at, marks = _place_boundary_atoms(case, limits, c)
    atoms = _ase(at, pbc=case["pbc"])
    n = len(limits)
    z = atoms.positions[:, 2]
    # expected slice from the statement: the window [lower, upper) that contains z; boundary atoms -> the upper slice
    lows = np.array([a for a, _ in limits])
    expected = [int(np.searchsorted(lows, zz, side="right") - 1) for zz in z]
    expected_exact = list(expected)
    for k_atom, k in marks.items():
        expected[k_atom] = k
    out = []
    pot = _pot(atoms, case, st)
    _check_sum(out, pot, c, f"slice_thickness={case['slice_thickness']}")
    nt = n > 1

    def key(a_):
        return sorted((int(zn), round(float(x), 6), round(float(y), 6)) for zn, (x, y, _) in zip(a_.numbers, a_.positions))

    for label, sliced in (("potential.get_sliced_atoms", pot.get_sliced_atoms()),
                          ("SliceIndexedAtoms", SliceIndexedAtoms(atoms.copy(), st)),
                          ("SlicedAtoms(z_padding=0)", SlicedAtoms(atoms.copy(), st, z_padding=0.0))):
        per = [sliced.get_atoms_in_slices(k) for k in range(len(sliced))]
        allk = sorted(sum((key(p_) for p_ in per), []))
        ok_part = len(per) == n and sum(len(p_) for p_ in per) == len(atoms) and allk == key(atoms)
        out.append(Res("C09/slicing/each-atom-exactly-one-slice", ok_part,
                       f"{label}: per-slice counts {[len(p_) for p_ in per]} for {len(atoms)} atoms, z={z.tolist()}, "
                       f"limits {limits}", nt))
        # SlicedAtoms has plain half-open windows [a, b) on its own limits (no 1e-12 guard like SliceIndexedAtoms): for it
        # "on the boundary" means z == the reported limit exactly, so k*c/n placements (1 ulp off) are judged by the window
        exact = label.startswith("SlicedAtoms")
        exp_here = expected_exact if exact else expected
        exp_keys = [sorted(key(atoms[[i for i, e in enumerate(exp_here) if e == k]])) for k in range(n)]
        got_keys = [key(p_) for p_ in per] if len(per) == n else None
        wrong = None if got_keys is None else [k for k in range(n) if got_keys[k] != exp_keys[k]]
        out.append(Res("C09/slicing/atom-in-slice-containing-its-z", wrong == [],
                       f"{label}: slices with unexpected atoms {wrong}; z={z.tolist()}, expected slice per atom "
                       f"{exp_here}, limits {limits}", nt))
        if marks and not (exact and case["boundary_mode"] == "k*c/n"):
            bad = []
            if got_keys is not None:
                for k_atom, k in marks.items():
                    kk = (int(atoms.numbers[k_atom]), round(float(atoms.positions[k_atom, 0]), 6),
                          round(float(atoms.positions[k_atom, 1]), 6))
                    where = [s for s in range(n) if kk in got_keys[s]]
                    if where != [k]:
                        bad.append((k_atom, float(z[k_atom]), k, where))
            out.append(Res("C09/slicing/boundary-atom-in-upper-slice", got_keys is not None and not bad,
                           f"{label} ({case['boundary_mode']}): (atom, z, expected slice, found in) {bad}; limits {limits}",
                           True))
    # the built slices themselves: slice k == one-slice potential of the atoms expected in slice k
    built = np.asarray(pot.build(lazy=False).array)
    scale = float(np.abs(built).max())
    worst, okall = "", built.shape[0] == n
    for k in range(min(n, built.shape[0])):
        idx = [i for i, e in enumerate(expected) if e == k]
        ref = np.asarray(_pot(_ase(at, idx, pbc=case["pbc"]), case, float(c)).build(lazy=False).array)[0]
        ok, msg = _cmp(built[k], ref, scale=scale)
        if not ok:
            okall = False
            worst += f" slice {k} (atoms {idx}): {msg};"
    out.append(Res("C09/slicing/built-slice-holds-exactly-its-atoms", okall,
                   f"{built.shape[0]} built slices vs {n} limits;{worst or ' all slices agree'} z={z.tolist()}, "
                   f"boundary atoms {marks}", nt and scale > 0))
    if marks:
        okb = okall
        out.append(Res("C09/slicing/boundary-atom-in-upper-slice", okb,
                       f"built slices ({case['boundary_mode']}): boundary atoms {marks} z={[float(z[k]) for k in marks]};"
                       f"{worst or ' in the upper slice'}", scale > 0))
    return out


def _run_thickness(case):
    import abtem
    from ase import Atoms
    from abtem.slicing import _validate_slice_thickness

    c = case["height"]
    v = case["value"]
    mode = case["mode"]
    arg = v
    if mode == "scalar-np":
        arg = np.float64(v)
    elif mode in ("sequence", "sequence-bad"):
        arg = tuple(v)
    elif mode == "sequence-np":
        arg = np.array(v)
    atoms = Atoms("C", positions=[[1, 1, c / 3]], cell=[3, 3, c], pbc=True)
    out = []
    if mode == "sequence-bad":
        for label, f in (("Potential", lambda: abtem.Potential(atoms, gpts=8, slice_thickness=arg).slice_thickness),
                         ("_validate_slice_thickness", lambda: _validate_slice_thickness(arg, thickness=c))):
            try:
                th = f()
                s = float(np.sum(th))
                ok = abs(s - c) <= 1e-9 * c
                msg = f"accepted, thicknesses sum to {s!r}"
            except (RuntimeError, ValueError) as e:
                ok, msg = True, f"rejected ({type(e).__name__})"
            out.append(Res("C09/slice-thickness/sums-to-height", ok,
                           f"{label}: sequence summing to {float(np.sum(v))!r} for height {c!r}: {msg}", True))
        return out
    pot = abtem.Potential(atoms, gpts=8, slice_thickness=arg)
    _check_sum(out, pot, c, f"{mode} {v}")
    th = _validate_slice_thickness(arg, thickness=c)
    s = float(np.sum(np.asarray(th, dtype=np.float64)))
    out.append(Res("C09/slice-thickness/sums-to-height", abs(s - c) <= 1e-9 * c and all(t > 0 for t in th),
                   f"_validate_slice_thickness({mode} {v}, thickness={c}): {len(th)} slices sum {s!r}", True))
    return out


def run_case(case):
    return {"additivity": _run_additivity, "reslice": _run_reslice, "assign": _run_assign,
            "thickness": _run_thickness}[case["kind"]](case)
