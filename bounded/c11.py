"""C11 — a potential reused after changing its grid behaves like a fresh one (bounded run-time contract).

Relational contract on abtem.Potential (histories):  run a history of operations
    build | simulate | set gpts | set sampling
on ONE Potential object; after every observation (build / simulate) compare what the reused object returns with
what a newly constructed Potential with the grid requested last returns (oracle = independent fresh object, as the
statement says).  A second, differently pre-used object that ends on the same grid must give the same result too
("no result depends on which grids the object was used with before").

The per-element caches the property is about live in
    ScatteringFactorProjectionIntegrals._scattering_factors   (infinite projection)
    QuadratureProjectionIntegrals._tables                     (finite projection; table depends on min(sampling))
    _FieldBuilderFromAtoms._sliced_atoms                      (must not depend on the grid)
"""

import itertools

import numpy as np

from vlib.hx import Res, rng_for

PROPERTY = "C11"
RULE = ("op-type sequences over {build, simulate, gpts, sampling} ending in an observation, enumerated exhaustively up to "
        "the stated length, x projection {infinite, finite} x parametrization x structure x lazy flag (covering); grid "
        "parameters drawn seeded from the stated pools (square/non-square, odd/even gpts; scalar/anisotropic sampling). "
        "An evaluation is non-trivial when the grid was changed after an earlier observation on the same object; "
        "distinct = distinct (history, projection, parametrization, structure, lazy)")
BOUNDS = {
    "ops": ["build", "simulate", "gpts", "sampling"],
    "history_length": {"quick": "all sequences of length <= 3 ending in build/simulate + 24 seeded of length 4-5",
                       "thorough": "all sequences of length <= 4 ending in build/simulate, 2 seeded parameter draws each"},
    "gpts_pool": [[12, 12], [16, 16], [15, 18], [24, 16], [9, 20], [16, 24], [13, 13], [32, 32]],
    "sampling_pool": [0.2, 0.25, 0.31, [0.2, 0.3], [0.34, 0.17], 0.125],
    "projection": ["infinite", "finite"],
    "parametrization": ["lobato", "kirkland"],
    "structures": ["single", "two", "si", "random"],
    "cell": "orthogonal 4 x 4..5 x 4 A, pbc, <= 5 atoms, slice thickness 2 A or (1.5, 2.5)",
}
EXHAUSTIVE = False
ASSUMPTIONS = [
    "C11: arrays compared with max|a-b| <= 1e-5 * max|b| (both sides run the same float32 code on the same grid, so "
    "they agree to rounding; cached data of another grid differs at the 1e-1 level)",
    "C11: 'new grid' = a Potential constructed with the gpts / sampling value passed to the last grid-changing "
    "operation (extent is fixed by the cell); grids (gpts exact, sampling to 1e-12) are compared as a separate clause",
    "C11: simulate = PlaneWave(100 keV).multislice(potential), exit wave compared (complex64, same tolerance)",
]
CONTRACTS = [
    "abtem/integrals.py:ScatteringFactorProjectionIntegrals.get_scattering_factor",
    "abtem/integrals.py:QuadratureProjectionIntegrals.get_integral_table",
    "abtem/potentials/iam.py:_FieldBuilderFromAtoms.get_sliced_atoms",
    "abtem/potentials/iam.py:_FieldBuilder.build",
    "abtem/potentials/iam.py:_FieldBuilderFromAtoms.generate_slices",
]

_OBS = ("build", "simulate")
_OPS = ("build", "simulate", "gpts", "sampling")


def _fill(types, r):
    """Attach seeded parameters to an op-type sequence; consecutive grid ops get different values."""
    hist = []
    last = None
    for t in types:
        if t == "gpts":
            pool = [g for g in BOUNDS["gpts_pool"] if ["gpts", g] != last]
            v = pool[int(r.integers(len(pool)))]
            hist.append(["gpts", list(v)])
            last = ["gpts", list(v)]
        elif t == "sampling":
            pool = [s for s in BOUNDS["sampling_pool"] if ["sampling", s] != last]
            v = pool[int(r.integers(len(pool)))]
            hist.append(["sampling", v])
            last = ["sampling", v]
        else:
            hist.append([t])
    return hist


def _type_sequences(maxlen):
    for n in range(1, maxlen + 1):
        for seq in itertools.product(_OPS, repeat=n):
            if seq[-1] in _OBS:
                yield seq


def cases(tier, seed):
    projs = BOUNDS["projection"]
    params = BOUNDS["parametrization"]
    structs = BOUNDS["structures"]
    inits = [["gpts", [16, 16]], ["gpts", [15, 18]], ["sampling", 0.25], ["gpts", [24, 16]], ["sampling", [0.2, 0.3]]]
    def mk(types, r, proj):
        return dict(
            projection=proj,
            parametrization=params[int(r.integers(len(params)))],
            structure=structs[int(r.integers(len(structs)))],
            slices="uniform" if r.integers(2) else "sequence",
            lazy=[False, True, "mixed"][int(r.integers(3))],
            init=inits[int(r.integers(len(inits)))],
            history=_fill(types, r),
            struct_seed=int(r.integers(1000)),
        )

    # the minimal histories named in the property, for every projection x parametrization x structure
    for proj in projs:
        for par in params:
            for st in structs:
                for k, (init, change) in enumerate([(["gpts", [16, 16]], ["gpts", [24, 24]]),
                                                    (["gpts", [16, 16]], ["sampling", 0.2]),
                                                    (["sampling", 0.25], ["gpts", [15, 18]]),
                                                    (["sampling", 0.25], ["sampling", [0.2, 0.3]])]):
                    if tier == "quick" and (k + structs.index(st)) % 2:
                        continue
                    yield dict(projection=proj, parametrization=par, structure=st, slices="uniform", lazy=False,
                               init=init, history=[["build"], change, ["build"]], struct_seed=1)

    maxlen = 3 if tier == "quick" else 4
    draws = 1 if tier == "quick" else 2
    for seq in _type_sequences(maxlen):
        for proj in projs:
            for d in range(draws):
                yield mk(seq, rng_for(seed, "seq", seq, proj, d), proj)
    if tier == "quick":
        r = rng_for(seed, "long")
        for i in range(24):
            ln = int(r.integers(4, 6))
            seq = tuple(_OPS[int(r.integers(4))] for _ in range(ln - 1)) + (_OBS[int(r.integers(2))],)
            yield mk(seq, rng_for(seed, "long", i), projs[i % 2])


def _atoms(kind, sseed):
    from ase import Atoms

    r = np.random.default_rng(sseed)
    a, b, c = 4.0, 4.0 + 0.25 * (sseed % 5), 4.0
    if kind == "single":
        sym, frac = ["Si"], [[0.37, 0.52, 0.4]]
    elif kind == "two":
        sym, frac = ["C", "O"], [[0.3, 0.4, 0.25], [0.7, 0.55, 0.7]]
    elif kind == "si":
        sym, frac = ["Si", "Si", "O"], [[0.2, 0.2, 0.2], [0.6, 0.5, 0.55], [0.4, 0.8, 0.85]]
    else:
        sym = list(r.choice(["C", "Si", "Cu", "N"], 5))
        frac = r.uniform(0.05, 0.95, (5, 3))
    return Atoms(sym, scaled_positions=np.array(frac, float), cell=[a, b, c], pbc=True)


def _grid_kw(op):
    v = op[1]
    if isinstance(v, list):
        v = tuple(v)
    return {op[0]: v}


def _relerr(a, b):
    a = np.asarray(a)
    b = np.asarray(b)
    if a.shape != b.shape:
        return np.inf, f"shape {a.shape} != {b.shape}"
    scale = float(np.abs(b).max()) or 1e-30
    e = float(np.abs(a - b).max()) / scale
    return e, f"max|reused-fresh|/max|fresh| = {e:.3e} (scale {scale:.3e})"


def run_case(case):
    import abtem

    atoms = _atoms(case["structure"], case["struct_seed"])
    st = 2.0 if case["slices"] == "uniform" else (1.5, 2.5)
    common = dict(projection=case["projection"], parametrization=case["parametrization"], slice_thickness=st)
    tol = 1e-5
    nobs = 0

    def lazy_at(k):
        # lazy flag: False / True / "mixed" (observations alternate eager, lazy, eager, ... on the reused object;
        # the lazy path deep-copies the integrator together with whatever it has cached)
        return case["lazy"] if case["lazy"] != "mixed" else bool(k % 2)

    def observe(pot, kind, lazy):
        if kind == "build":
            built = pot.build(lazy=lazy)
            if lazy:
                built = built.compute(scheduler="synchronous", progress_bar=False)
            return np.asarray(built.array), tuple(built.gpts), tuple(built.sampling)
        w = abtem.PlaneWave(energy=100e3).multislice(pot, lazy=lazy)
        if lazy:
            w = w.compute(scheduler="synchronous", progress_bar=False)
        return np.asarray(w.array), tuple(w.gpts), tuple(w.sampling)

    pot = abtem.Potential(atoms, **_grid_kw(case["init"]), **common)
    grid_op = case["init"]
    out = []
    observed_before = False     # an observation happened on this object on an earlier grid
    grids_used = []             # grid ops in force at earlier observations
    last_obs = {}
    for step, op in enumerate(case["history"]):
        if op[0] == "gpts":
            pot.gpts = tuple(op[1])
            grid_op = op
            continue
        if op[0] == "sampling":
            pot.sampling = tuple(op[1]) if isinstance(op[1], list) else op[1]
            grid_op = op
            continue
        nt = observed_before and any(g != grid_op for g in grids_used)
        fresh = abtem.Potential(atoms, **_grid_kw(grid_op), **common)
        topic = "rebuild" if op[0] == "build" else "simulate"
        gok = tuple(pot.gpts) == tuple(fresh.gpts) and np.allclose(pot.sampling, fresh.sampling, rtol=1e-12, atol=0)
        out.append(Res("C11/regrid/grid-equals-fresh", gok,
                       f"step {step} after {grid_op}: reused gpts={pot.gpts} sampling={pot.sampling}; "
                       f"fresh gpts={fresh.gpts} sampling={fresh.sampling}", nt))
        lz = lazy_at(nobs)
        nobs += 1
        ref, rgpts, rsamp = observe(fresh, op[0], lz)
        got, ggpts, gsamp = observe(pot, op[0], lz)
        e, msg = _relerr(got, ref)
        out.append(Res(f"C11/{topic}/equals-fresh", e <= tol and ggpts == rgpts,
                       f"step {step} ({op[0]}) with grid {grid_op}, earlier grids {grids_used}: {msg}; "
                       f"result gpts {ggpts} vs {rgpts}", nt and bool(np.any(ref != 0))))
        last_obs = dict(kind=op[0], grid=grid_op, got=got, lazy=lz)
        observed_before = True
        grids_used.append(grid_op)

    # history independence: another object, used on a different grid first, ending on the same grid
    if last_obs:
        other_first = ["gpts", [20, 12]] if last_obs["grid"] != ["gpts", [20, 12]] else ["gpts", [12, 20]]
        other = abtem.Potential(atoms, **_grid_kw(other_first), **common)
        observe(other, "build", last_obs["lazy"])
        g = last_obs["grid"]
        if g[0] == "gpts":
            other.gpts = tuple(g[1])
        else:
            other.sampling = tuple(g[1]) if isinstance(g[1], list) else g[1]
        got2, _, _ = observe(other, last_obs["kind"], last_obs["lazy"])
        e, msg = _relerr(got2, last_obs["got"])
        out.append(Res("C11/history/independent-of-previous-grids", e <= tol,
                       f"history {[case['init']] + case['history']} vs [{other_first}, build, {g}, {last_obs['kind']}]: {msg}",
                       bool(np.any(last_obs["got"] != 0))))
    return out
