"""C29 — array-object structural operations keep data and metadata aligned (bounded run-time contracts).

Contracts on abtem.array.ArrayObject.{__getitem__/get_items, squeeze, expand_dims, sum/mean/std/min/max (_reduction),
_arithmetic}, abtem.array.{stack, concatenate} and FieldArray.__getitem__, evaluated on every array-object type that can be
constructed directly from an array (Images, DiffractionPatterns, PolarMeasurements, RealSpaceLineProfiles,
ReciprocalSpaceLineProfiles, MeasurementsEnsemble, IndexedDiffractionPatterns, Waves, PotentialArray, SMatrixArray).

Oracles (from the statement):
  * values:   the NumPy operation applied to the array the object was built from (a[items], np.stack, np.concatenate,
              np.squeeze, np.expand_dims, np.sum/mean/std/min/max, Python arithmetic on ndarrays)
  * axes:     len(result.axes_metadata) == result.array.ndim, every ordinal axis has as many values as its dimension,
              and the entries are the ones of the operands, transformed the way the operation transforms the dimensions
              (dropped / inserted / sliced / concatenated); the expected list is computed here from the *input* axes
  * selected: slicing an ordinal axis gives np.asarray(values)[item]; an integer index moves the selected value into
              .metadata; slicing a linear (scan) axis must describe the coordinates offset + i*sampling of the selected i
  * refusal:  reducing a base axis / indexing past the ensemble axes must raise
"""

import dataclasses
import itertools

import numpy as np

from vlib.hx import Res, covering, rel_close, rng_for

PROPERTY = "C29"
TYPES = ["Images", "DiffractionPatterns", "PolarMeasurements", "RealSpaceLineProfiles", "ReciprocalSpaceLineProfiles",
         "MeasurementsEnsemble", "IndexedDiffractionPatterns", "Waves", "PotentialArray", "SMatrixArray"]
CONCAT_TYPES = ["Images", "DiffractionPatterns", "PolarMeasurements", "RealSpaceLineProfiles",
                "ReciprocalSpaceLineProfiles", "MeasurementsEnsemble", "Waves"]
STACK_TYPES = [t for t in TYPES if t != "IndexedDiffractionPatterns"]
KINDS = ["scan", "positions", "thickness", "parameter", "phonons", "tilt", "atilt", "strings", "unknown"]
ORDINAL = {"positions", "thickness", "parameter", "tilt", "atilt", "strings"}
COMPLEX_TYPES = {"Waves", "SMatrixArray"}

RULE = ("one structural operation per case. Pairwise covering arrays over (object type x ensemble-axis kinds x ensemble "
        "shape x lazy/eager x chunking x operation parameters) for each of: getitem (ints incl. negative, slices with "
        "steps/negative steps, None, one list / int array / bool array, short tuples), getitem past the ensemble axes, "
        "PotentialArray slice indexing, stack (2-3 operands, every insert position, several axis-metadata forms, mixed "
        "lazy/eager), concatenate (2-3 operands of different length), squeeze, expand_dims, reductions (5 functions, "
        "int/tuple/negative/None axis, keepdims), reductions over base axes, arithmetic (11 operators x 8 operand "
        "kinds). Non-trivial: the operation changes the array or selects a proper subset. Distinct = distinct case dict.")
BOUNDS = {
    "types": TYPES, "axis_kinds": KINDS, "ensemble_dims": [0, 3], "ensemble_axis_length": [1, 4],
    "base_shapes": "2-D (5,4)/(4,3), 1-D (6,), PotentialArray/SMatrixArray 3-D (3,5,4)",
    "index_expressions": "int, slice, None, at most one list/ndarray per expression (never combined with an int), "
                         "no Ellipsis; 'adv_mixed' cases (eager only) combine one list with one int",
    "concatenate_types": CONCAT_TYPES, "stack_types": STACK_TYPES,
    "extra_random": {"quick": 10, "thorough": 400},
}
EXHAUSTIVE = False
ASSUMPTIONS = [
    "indexing/stack/concatenate/squeeze/expand_dims are compared exactly; reductions and arithmetic with "
    "max|a-b| <= 1e-5*max|b| (dask tree reductions reassociate float32 sums)",
    "concatenate is evaluated on the types that implement from_array_and_metadata (PotentialArray, SMatrixArray and "
    "IndexedDiffractionPatterns raise NotImplementedError/TypeError there: operation not offered); stack is not evaluated "
    "on IndexedDiffractionPatterns, whose _stack is a merge by Miller index, not an array stack",
    "reflected operators are evaluated only where abTEM defines them (__rmul__, __rtruediv__); in-place operators only "
    "eagerly (abTEM documents them as not implemented for lazy objects)",
    "PotentialArray deliberately allows indexing its first base axis (slices); 'past the ensemble axes' there means "
    "past the slice axis",
    "squeeze is only asked to squeeze axes of length one (NumPy raises otherwise, abTEM ignores the request)",
    "lazy objects are not indexed with a list/index array and None in the same expression (dask.array itself raises or "
    "returns a differently shaped result than NumPy there)",
    "IndexedDiffractionPatterns is built with reciprocal_lattice_vectors of shape (1,)*ensemble_dims + (3, 3), the layout "
    "abTEM's own constructors use",
]
CONTRACTS = ["abtem/array.py:ArrayObject.get_items", "abtem/array.py:ArrayObject._get_ensemble_axes_metadata_items",
             "abtem/array.py:ArrayObject.squeeze", "abtem/array.py:ArrayObject.expand_dims",
             "abtem/array.py:ArrayObject._reduction", "abtem/array.py:ArrayObject._arithmetic", "abtem/array.py:stack",
             "abtem/array.py:concatenate", "abtem/potentials/iam.py:FieldArray.__getitem__",
             "abtem/core/axes.py:OrdinalAxis.__getitem__", "abtem/core/axes.py:OrdinalAxis.concatenate"]


# ------------------------------------------------------------------------------------------------ object factory
# (also used by bounded/c30.py)


def make_axis(kind, n, variant=0):
    """Ensemble axis metadata of one of the kinds abTEM itself produces; `variant` changes the field values."""
    from abtem.core import axes as A

    v = variant
    if kind == "scan":
        return A.ScanAxis(label="xy"[v % 2], sampling=0.3 + 0.1 * v, offset=1.5 - v, units="Å", endpoint=False)
    if kind == "positions":
        return A.PositionsAxis(values=tuple((float(i) + v, float(2 * i + 1)) for i in range(n)))
    if kind == "thickness":
        return A.ThicknessAxis(label="z", values=tuple(2.0 * (i + 1) + v for i in range(n)))
    if kind == "parameter":
        return A.ParameterAxis(label=["C10", "C30", "focal_spread"][v % 3], values=tuple(-10.0 * i + v for i in range(n)),
                               units="Å", tex_label="$C_{10}$", _ensemble_mean=bool(v % 2))
    if kind == "phonons":
        return A.FrozenPhononsAxis(_ensemble_mean=bool((v + 1) % 2))
    if kind == "tilt":
        return A.TiltAxis(label="tilt", values=tuple((float(i) + v, -0.5 * i) for i in range(n)))
    if kind == "atilt":
        return A.AxisAlignedTiltAxis(label="tilt_" + "xy"[v % 2], values=tuple(0.5 * i + v for i in range(n)),
                                     direction="xy"[v % 2])
    if kind == "strings":
        return A.OrdinalAxis(label="name", values=tuple(f"v{i}_{v}" for i in range(n)))
    if kind == "unknown":
        return A.UnknownAxis()
    if kind == "sample":
        return A.SampleAxis(label="sample")
    if kind == "nonlinear":
        return A.NonLinearAxis(label="energy", values=tuple(float(i * i) + v for i in range(n)), units="eV")
    if kind == "wavevector":
        return A.WaveVectorAxis(label="q", values=tuple((0.1 * i, 0.2 * v) for i in range(n)))
    if kind == "mixedvalues":  # ordinal values of mixed shape: a label first, index ranges after it
        return A.OrdinalAxis(label="window", values=tuple("full" if i == 0 else (i - 1 + v, i + 1 + v) for i in range(n)))
    if kind == "intvalues":
        return A.OrdinalAxis(label="Iteration", values=tuple(range(v, n + v)))
    if kind == "realspace":
        return A.RealSpaceAxis(label="z", sampling=0.5 + v, units="Å", endpoint=False)
    if kind == "scan32":  # field values as NumPy scalars, the way abTEM fills them from arrays
        return A.ScanAxis(label="x", sampling=np.float32(0.1 * (v + 1)), offset=np.float32(0.25 * v), units="Å", endpoint=False)
    if kind == "param32":
        return A.ParameterAxis(label="defocus", values=tuple(np.linspace(-5, 5, n).astype(np.float32) + np.float32(v)),
                               units="Å", tex_label="$\\Delta f$")
    if kind == "prism":
        return A.PrismPlaneWavesAxis()
    if kind == "linear":
        return A.LinearAxis(label="t", sampling=0.25 + v, offset=-1.0, units="s")
    raise KeyError(kind)


BASE_SHAPES = {"Images": (5, 4), "DiffractionPatterns": (4, 5), "PolarMeasurements": (4, 3), "RealSpaceLineProfiles": (6,),
               "ReciprocalSpaceLineProfiles": (7,), "MeasurementsEnsemble": (), "IndexedDiffractionPatterns": (4,),
               "Waves": (5, 4), "PotentialArray": (3, 5, 4), "SMatrixArray": (3, 5, 4)}


def make_object(typ, kinds, shape, r, lazy=False, chunk1=True, variant=0, cplx=False, array=None, metadata=None,
                dtype=None):
    """Build an array object of class `typ` with the given ensemble axes; returns (object, numpy array, axes list)."""
    import dask.array as da

    import abtem
    from abtem.potentials.iam import PotentialArray
    from abtem.prism.s_matrix import SMatrixArray

    shape = tuple(shape)
    axes = [make_axis(k, n, variant + j) for j, (k, n) in enumerate(zip(kinds, shape))]
    base = BASE_SHAPES[typ]
    is_c = cplx or typ in COMPLEX_TYPES
    if array is None:
        a = r.normal(size=shape + base)
        if is_c:
            a = a + 1j * r.normal(size=shape + base)
        a = a.astype(dtype or (np.complex64 if is_c else np.float32))
    else:
        a = array
    arr = a
    if lazy:
        arr = da.from_array(a, chunks=tuple(1 if chunk1 else -1 for _ in shape) + (-1,) * len(base))
    md = {"energy": 100e3, "label": "intensity", "units": "arb. unit"} if metadata is None else dict(metadata)
    kw = dict(ensemble_axes_metadata=axes, metadata=md)
    dv = 0.01 * variant
    if typ == "Images":
        o = abtem.Images(arr, sampling=(0.2 + dv, 0.3), **kw)
    elif typ == "DiffractionPatterns":
        o = abtem.DiffractionPatterns(arr, sampling=(0.02 + dv, 0.03), fftshift=bool(variant % 2 == 0), **kw)
    elif typ == "PolarMeasurements":
        o = abtem.PolarMeasurements(arr, radial_sampling=10.0 + variant, azimuthal_sampling=float(np.pi / 2),
                                    radial_offset=5.0 * (variant % 3), azimuthal_offset=0.1 * (variant % 2), **kw)
    elif typ == "RealSpaceLineProfiles":
        o = abtem.RealSpaceLineProfiles(arr, sampling=0.1 + dv, **kw)
    elif typ == "ReciprocalSpaceLineProfiles":
        o = abtem.ReciprocalSpaceLineProfiles(arr, sampling=0.05 + dv, **kw)
    elif typ == "MeasurementsEnsemble":
        o = abtem.measurements.MeasurementsEnsemble(arr, **kw)
    elif typ == "IndexedDiffractionPatterns":
        o = abtem.measurements.IndexedDiffractionPatterns(
            arr, miller_indices=np.array([[0, 0, 0], [1, 0, 0], [0, 1, 0], [1, 1, 0]]),
            reciprocal_lattice_vectors=(np.eye(3) * 0.25)[(None,) * len(shape)], **kw)  # the layout abTEM itself uses
    elif typ == "Waves":
        if metadata is None:
            kw["metadata"] = {"label": "waves", "foo": 1}
        o = abtem.Waves(arr, energy=[100e3, 60e3, 300e3][variant % 3], sampling=(0.2 + dv, 0.3),
                        reciprocal_space=bool(variant % 4 == 3), **kw)
    elif typ == "PotentialArray":
        if metadata is None:
            kw["metadata"] = {}
        o = PotentialArray(arr, slice_thickness=(1.0, 2.0 + dv, 1.5), sampling=(0.2 + dv, 0.3), **kw)
    elif typ == "SMatrixArray":
        if metadata is None:
            kw["metadata"] = {}
        o = SMatrixArray(arr, wave_vectors=np.array([[0.0, 0.0], [0.1, 0.0], [0.0, 0.1]], dtype=np.float32),
                         semiangle_cutoff=20.0, energy=100e3, sampling=(0.2, 0.3), **kw)
    else:
        raise KeyError(typ)
    return o, a, axes


def to_numpy(obj):
    arr = obj.array if hasattr(obj, "array") else obj
    if hasattr(arr, "compute"):
        arr = arr.compute(scheduler="synchronous")
    return np.asarray(arr)


def _norm(v):
    if isinstance(v, np.ndarray):
        return _norm(v.tolist())
    if isinstance(v, (tuple, list)):
        return [_norm(x) for x in v]
    if isinstance(v, np.generic):
        return v.item()
    return v


def axis_fields(ax):
    d = {f.name: _norm(getattr(ax, f.name)) for f in dataclasses.fields(ax)}
    d["__class__"] = type(ax).__name__
    return d


def same_axis(a, b, skip=()):
    da_, db = axis_fields(a), axis_fields(b)
    for k in skip:
        da_.pop(k, None)
        db.pop(k, None)
    return da_ == db


def axes_report(got, exp, skip_idx=()):
    """Field-wise comparison of two axis lists; returns (ok, detail)."""
    if len(got) != len(exp):
        return False, f"{len(got)} axis entries, expected {len(exp)}: got {[type(a).__name__ for a in got]}"
    for i, (g, e) in enumerate(zip(got, exp)):
        if i in skip_idx:
            continue
        if not same_axis(g, e):
            return False, f"axis {i}: got {axis_fields(g)} expected {axis_fields(e)}"
    return True, "axes equal"


def aligned(obj, arr):
    """exactly one axis-metadata entry per array dimension and ordinal axes as long as their dimension."""
    am = list(obj.axes_metadata)
    if len(am) != arr.ndim:
        return False, f"{len(am)} axis-metadata entries for a {arr.ndim}-d array of shape {arr.shape}"
    for i, (ax, n) in enumerate(zip(am, arr.shape)):
        if hasattr(ax, "values") and len(ax.values) != n:
            return False, f"axis {i} ({type(ax).__name__}) has {len(ax.values)} values for a dimension of size {n}"
    return True, "one entry per dimension"


# ------------------------------------------------------------------------------------------------ cases


def _ri(r, lo, hi):
    return int(r.integers(lo, hi + 1))


def _shape_for(r, nd, with_ones=False):
    if with_ones:
        return [1 if r.random() < 0.55 else _ri(r, 2, 3) for _ in range(nd)]
    return [_ri(r, 2, 4) if r.random() < 0.85 else 1 for _ in range(nd)]


def _gen_slice(r, n):
    c = _ri(r, 0, 7)
    if c == 0:
        return ["s", None, None, None]
    if c == 1:
        a = _ri(r, 0, n - 1)
        return ["s", a, _ri(r, a + 1, n), None]
    if c == 2:
        return ["s", None, None, 2]
    if c == 3:
        return ["s", None, None, -1]
    if c == 4:
        return ["s", _ri(r, 1, n), None, None] if n > 1 else ["s", None, None, None]
    if c == 5:
        return ["s", -_ri(r, 1, n), None, None]
    if c == 6:
        return ["s", n - 1, None, -2]
    return ["s", 1, None, 2] if n > 1 else ["s", None, None, None]


def _gen_items(r, shape, style):
    """style: 'basic' (ints/slices/None), 'adv' (one list/array + slices/None), 'adv_mixed' (one list + one int)."""
    nd = len(shape)
    k = _ri(r, 1, nd) if nd else 0
    items = []
    adv_at = _ri(r, 0, k - 1) if (style != "basic" and k) else -1
    int_at = -1
    if style == "adv_mixed" and k >= 2:
        int_at = (adv_at + _ri(r, 1, k - 1)) % k
    for i in range(k):
        n = shape[i]
        if i == adv_at:
            c = _ri(r, 0, 2)
            if c == 0:
                items.append(["l", [_ri(r, -n, n - 1) for _ in range(_ri(r, 1, 3))]])
            elif c == 1:
                items.append(["a", sorted({_ri(r, 0, n - 1) for _ in range(_ri(r, 1, 3))})])
            else:
                b = [bool(r.random() < 0.6) for _ in range(n)]
                if not any(b):
                    b[-1] = True
                items.append(["b", b])
        elif i == int_at or (style == "basic" and r.random() < 0.4):
            items.append(["i", _ri(r, -n, n - 1)])
        else:
            items.append(_gen_slice(r, n))
    # None entries
    for _ in range(2):
        if r.random() < 0.3:
            items.insert(_ri(r, 0, len(items)), ["n"])
    if not items:
        items = [["n"]]
    bare = len(items) == 1 and r.random() < 0.5
    return items, bare


def _item_flags(items, kinds, shape, keepdims=False):
    """Discriminating, JSON-able facts about an index expression (for known-finding filters and reports)."""
    has_none = any(t[0] == "n" for t in items)
    has_adv = any(t[0] in "lab" for t in items)
    real = [t for t in items if t[0] != "n"]
    lin = False
    for t, k, n in zip(real, kinds, shape):
        if k == "scan" and (t[0] != "i" or keepdims):
            idx = np.atleast_1d(np.arange(n)[_decode_item(t)])
            lin = lin or not (len(idx) == n and bool(np.all(idx == np.arange(n))))
    return dict(has_none=has_none, has_adv=has_adv, slices_linear_axis=bool(lin),
                keepdims_minus_one=bool(keepdims and any(t[0] == "i" and t[1] == -1 for t in real)))


def cases(tier, seed):
    extra = BOUNDS["extra_random"][tier]
    r = rng_for(seed, "c29-cases")
    kinds_choices = list(range(len(KINDS)))

    def common(c):
        nd = c["nd"]
        ks = [KINDS[(c["k0"] + j * c["kstep"]) % len(KINDS)] for j in range(nd)]
        return dict(type=c["type"], kinds=ks, lazy=c["lazy"], chunk1=c["chunk1"])

    base_axes = dict(type=TYPES, nd=[0, 1, 2, 3], k0=kinds_choices, kstep=[1, 2, 4], lazy=[False, True], chunk1=[True, False])
    s = 0

    # ---- getitem
    ax = dict(base_axes, style=["basic", "basic", "adv", "basic"], rep=[0, 1])
    ax["nd"] = [1, 2, 3]
    for c in covering(ax, seed=seed + 1, extra_random=extra * 6):
        d = common(c)
        d["shape"] = _shape_for(r, c["nd"])
        items, bare = _gen_items(r, d["shape"], c["style"])
        if d["lazy"] and any(t[0] in "lab" for t in items):
            items = [t for t in items if t[0] != "n"]  # dask mishandles fancy indices combined with None
        s += 1
        yield dict(d, op="getitem", items=items, bare=bare, keepdims=False, style=c["style"],
                   **_item_flags(items, d["kinds"], d["shape"]), s=s)
    for j in range(6 + extra // 4):
        nd = 2 + j % 2
        # eager only: dask.array does not follow NumPy's placement rule for an int and a list separated by a slice
        d = dict(type=TYPES[j % len(TYPES)], kinds=[KINDS[(j + 2 * i) % len(KINDS)] for i in range(nd)], lazy=False,
                 chunk1=True, shape=_shape_for(r, nd))
        items, bare = _gen_items(r, d["shape"], "adv_mixed")
        s += 1
        yield dict(d, op="getitem", items=items, bare=False, keepdims=False, style="adv_mixed",
                   **_item_flags(items, d["kinds"], d["shape"]), s=s)
    # keepdims=True through get_items; zero ensemble dims with None
    for j, t in enumerate(TYPES):
        nd = 1 + j % 3
        sh = _shape_for(r, nd)
        s += 1
        kd_kinds = [KINDS[(j + 3 * i) % len(KINDS)] for i in range(nd)]
        kd_items = [["i", _ri(r, -n, n - 1)] for n in sh]
        yield dict(type=t, kinds=kd_kinds, lazy=bool(j % 2), chunk1=True, shape=sh,
                   op="getitem", items=kd_items, bare=False, keepdims=True, style="basic",
                   **_item_flags(kd_items, kd_kinds, sh, keepdims=True), s=s)
        s += 1
        yield dict(type=t, kinds=[], lazy=bool((j + 1) % 2), chunk1=True, shape=[], op="getitem", items=[["n"]], bare=bool(j % 2),
                   keepdims=False, style="basic", has_none=True, has_adv=False, slices_linear_axis=False,
                   keepdims_minus_one=False, s=s)
    # ---- indexing past the ensemble axes
    for c in covering(dict(base_axes, extra_kind=["i", "s"]), seed=seed + 2):
        d = common(c)
        d["shape"] = _shape_for(r, c["nd"])
        s += 1
        yield dict(d, op="getitem_base", extra_kind=c["extra_kind"], s=s)
    # ---- PotentialArray slice-axis indexing
    for j in range(12 + extra // 2):
        nd = j % 3
        sh = _shape_for(r, nd)
        z = [["i", _ri(r, -3, 2)], ["s", 0, _ri(r, 1, 2), None], ["s", 1, None, None], ["s", None, None, None], ["s", None, 2, None]][j % 5]
        s += 1
        yield dict(type="PotentialArray", kinds=[KINDS[(j + 2 * i) % len(KINDS)] for i in range(nd)], lazy=bool(j % 2),
                   chunk1=bool(j % 3), shape=sh, op="potential_getitem",
                   ens_items=[_gen_slice(r, n) if r.random() < 0.6 else ["i", _ri(r, -n, n - 1)] for n in sh], z=z,
                   exit_planes=[None, 1, 2, None][j % 4], s=s)
    # ---- stack
    ax = dict(base_axes, nobj=[2, 3], md=["none", "strings", "dict", "ordinal", "parameter", "thickness"], pos=[0, 1, 2, 3],
              mixed=[False, False, True])
    ax["type"] = STACK_TYPES
    for c in covering(ax, seed=seed + 3, extra_random=extra):
        d = common(c)
        d["shape"] = _shape_for(r, c["nd"])
        s += 1
        yield dict(d, op="stack", nobj=c["nobj"], md=c["md"], pos=min(c["pos"], c["nd"]), mixed=c["mixed"], s=s)
    # ---- concatenate
    ax = dict(base_axes, nobj=[2, 3], which=[0, 1, 2], mixed=[False, False, True])
    ax["type"] = CONCAT_TYPES
    ax["nd"] = [1, 2, 3]
    for c in covering(ax, seed=seed + 4, extra_random=extra):
        d = common(c)
        d["shape"] = _shape_for(r, c["nd"])
        s += 1
        yield dict(d, op="concatenate", nobj=c["nobj"], axis=c["which"] % c["nd"], lengths=[_ri(r, 1, 3) for _ in range(c["nobj"])],
                   mixed=c["mixed"], s=s)
    # ---- squeeze
    ax = dict(base_axes, mode=["none", "all_ones", "some", "negative"])
    for c in covering(ax, seed=seed + 5, extra_random=extra):
        d = common(c)
        d["shape"] = _shape_for(r, c["nd"], with_ones=True)
        ones = [i for i, n in enumerate(d["shape"]) if n == 1]
        base_nd = len(BASE_SHAPES[c["type"]])
        if c["mode"] == "none" or not ones:
            axis = None
        elif c["mode"] == "all_ones":
            axis = ones
        elif c["mode"] == "some":
            axis = ones[: max(1, len(ones) // 2)]
        else:
            axis = [i - (c["nd"] + base_nd) for i in ones[-1:]]
        s += 1
        yield dict(d, op="squeeze", axis=axis, s=s)
    # ---- expand_dims
    ax = dict(base_axes, nnew=[1, 2], md=[False, True], form=["tuple", "tuple", "int", "default", "negative", "unsorted"])
    for c in covering(ax, seed=seed + 6, extra_random=extra):
        d = common(c)
        d["shape"] = _shape_for(r, c["nd"])
        nnew = c["nnew"]
        form = c["form"]
        if form in ("int", "default", "negative"):
            nnew = 1
        pos = sorted(int(x) for x in r.choice(c["nd"] + nnew, size=nnew, replace=False))
        if form == "unsorted":
            if nnew < 2:
                form = "tuple"
            else:
                pos = pos[::-1]
        if form == "negative":
            # NumPy convention: negative positions count from the end of the *expanded* array
            pos = [pos[0] - (c["nd"] + nnew + len(BASE_SHAPES[c["type"]]))]
        if form == "default":
            pos = [0]
        s += 1
        yield dict(d, op="expand_dims", axis=pos, form=form, md=c["md"], s=s)
    # ---- reductions
    ax = dict(base_axes, func=["sum", "mean", "std", "min", "max"], axis_form=["int", "tuple", "negative", "none", "all"],
              keepdims=[False, False, True])
    for c in covering(ax, seed=seed + 7, extra_random=extra * 2):
        d = common(c)
        d["shape"] = _shape_for(r, c["nd"])
        nd, form = c["nd"], c["axis_form"]
        base_nd = len(BASE_SHAPES[c["type"]])
        func = c["func"]
        if c["type"] in COMPLEX_TYPES and func in ("min", "max"):
            func = "mean"
        if nd == 0 or form == "none":
            axis = None
        elif form == "int":
            axis = _ri(r, 0, nd - 1)
        elif form == "tuple":
            axis = sorted(int(x) for x in r.choice(nd, size=_ri(r, 1, nd), replace=False))
        elif form == "negative":
            axis = _ri(r, 0, nd - 1) - (nd + base_nd)
        else:
            axis = list(range(nd))
        s += 1
        yield dict(d, op="reduce", func=func, axis=axis, keepdims=bool(c["keepdims"] and axis is not None), s=s)
    for c in covering(dict(base_axes, func=["sum", "mean", "max"], which=[-1, "first_base", "mixed"]), seed=seed + 8):
        if c["type"] == "MeasurementsEnsemble":
            continue
        d = common(c)
        d["shape"] = _shape_for(r, c["nd"])
        nd = c["nd"]
        axis = -1 if c["which"] == -1 else (nd if c["which"] == "first_base" else ([0, nd] if nd else [nd]))
        func = "sum" if (c["type"] in COMPLEX_TYPES and c["func"] == "max") else c["func"]
        s += 1
        yield dict(d, op="reduce_base", func=func, axis=axis, s=s)
    # ---- arithmetic
    ops = ["add", "sub", "mul", "truediv", "pow", "rmul", "rtruediv", "iadd", "isub", "imul", "itruediv"]
    operands = ["self", "int", "float", "npfloat", "complex", "ndarray", "ndarray_base", "dask"]
    ax = dict(base_axes, aop=ops, operand=operands, other_lazy=[False, True])
    ax["nd"] = [0, 1, 2]
    for c in covering(ax, seed=seed + 9, extra_random=extra * 2):
        d = common(c)
        d["shape"] = _shape_for(r, c["nd"])
        aop, operand = c["aop"], c["operand"]
        if aop.startswith("r") and operand not in ("int", "float", "npfloat", "complex"):
            operand = "float"
        if aop == "pow":
            operand = "int"
        if aop.startswith("i") and aop != "int":
            d["lazy"] = False
            if operand in ("dask", "complex"):
                operand = "ndarray"
        if operand == "complex" and c["type"] not in COMPLEX_TYPES:
            operand = "float"
        if operand == "npfloat" and aop.startswith("r"):
            operand = "float"  # numpy scalars on the left dispatch to NumPy's own operators, not to abTEM
        s += 1
        yield dict(d, op="arith", aop=aop, operand=operand, other_lazy=bool(c["other_lazy"] and not aop.startswith("i")), s=s)


# ------------------------------------------------------------------------------------------------ run


def _decode_item(tok):
    k = tok[0]
    if k == "i":
        return int(tok[1])
    if k == "s":
        return slice(tok[1], tok[2], tok[3])
    if k == "n":
        return None
    if k == "l":
        return list(tok[1])
    if k == "a":
        return np.array(tok[1], dtype=int)
    if k == "b":
        return np.array(tok[1], dtype=bool)
    raise KeyError(k)


def _tag(case):
    keys = [k for k in case if k not in ("s",)]
    return " ".join(f"{k}={case[k]}" for k in keys)


def _build(case, r, variant=0, shape=None, lazy=None):
    return make_object(case["type"], case["kinds"], case["shape"] if shape is None else shape, r,
                       lazy=case["lazy"] if lazy is None else lazy, chunk1=case["chunk1"], variant=variant)


def _run_getitem(case):
    from abtem.core.axes import UnknownAxis

    r = rng_for(0, "c29", case["s"])
    o, a, axes = _build(case, r)
    md0 = dict(o.metadata)
    items = tuple(_decode_item(t) for t in case["items"])
    arg = items[0] if case["bare"] else items
    if case["keepdims"]:
        res = o.__class__(**o.get_items(arg, keepdims=True))
        # NumPy reference for "keep the indexed axes with length one": a[k:k+1] with k the non-negative index
        items_eff = tuple(slice(i % n, i % n + 1) if isinstance(i, int) else i for i, n in zip(items, case["shape"]))
    else:
        res = o[arg]
        items_eff = items
    ref = a[items_eff]
    got = to_numpy(res)
    tag = _tag(case)
    out = []
    ok = got.shape == ref.shape and np.array_equal(got, ref)
    out.append(Res("C29/getitem/values", ok, f"{tag}: shape {got.shape} vs NumPy {ref.shape}; equal={ok}", ref.size != a.size or ref.shape != a.shape))
    ok, det = aligned(res, got)
    out.append(Res("C29/getitem/axes-count", ok, f"{tag}: {det}", True))

    # expected ensemble axes + selected values, derived from the input axes with NumPy index arithmetic
    exp, skip, lin_checks, sel_values = [], [], [], []
    j = 0
    for it in items_eff:
        if it is None:
            exp.append(UnknownAxis())
            continue
        ax_, n = axes[j], case["shape"][j]
        j += 1
        if isinstance(it, int):
            if hasattr(ax_, "values"):
                sel_values.append((ax_, ax_.values[it]))
            continue
        idx = np.arange(n)[it]
        if hasattr(ax_, "values"):
            exp.append(dataclasses.replace(ax_, values=tuple(ax_.values[int(i)] for i in idx)))
        elif hasattr(ax_, "sampling"):
            exp.append(ax_)
            skip.append(len(exp) - 1)
            lin_checks.append((len(exp) - 1, np.asarray(ax_.coordinates(n))[idx], not (len(idx) == n and np.all(idx == np.arange(n)))))
        else:
            exp.append(ax_)
    exp += axes[j:]
    got_axes = list(res.ensemble_axes_metadata)
    ok, det = axes_report(got_axes, exp, skip_idx=skip)
    nt = any(hasattr(x, "values") for x in axes)
    # integer indices: the selected value must travel with the item (into .metadata)
    md = res.metadata
    if sum(type(ax_).__name__ in ("TiltAxis", "AxisAlignedTiltAxis") for ax_, _ in sel_values) > 1:
        # two tilt axes of this synthetic object write the same metadata key (base_tilt_x/y); nothing to demand
        sel_values = [(ax_, v) for ax_, v in sel_values if type(ax_).__name__ not in ("TiltAxis", "AxisAlignedTiltAxis")]
    for ax_, val in sel_values:
        comps = list(val) if isinstance(val, tuple) else [val]
        present = any(_norm(v) == _norm(val) for v in md.values()) or all(
            any(isinstance(v, (int, float, np.number)) and not isinstance(v, bool) and v == c for v in md.values()) for c in comps)
        if not present:
            ok, det = False, f"value {val!r} selected on axis '{ax_.label}' not found in result.metadata={md}"
    for k, v in md0.items():
        if k not in md:
            ok, det = False, f"metadata key {k!r} lost"
    out.append(Res("C29/getitem/selected-metadata-ordinal", ok, f"{tag}: {det}", nt))
    for pos, coords, proper in lin_checks:
        if pos < len(got_axes) and hasattr(got_axes[pos], "coordinates") and len(coords):
            g = np.asarray(got_axes[pos].coordinates(len(coords)), dtype=float)
            ok = g.shape == coords.shape and np.allclose(g, coords, rtol=1e-9, atol=1e-9)
            det = f"result axis {pos} describes coordinates {g.tolist()} but the selected items sit at {coords.tolist()}"
        elif not len(coords):
            ok, det = True, "empty selection"
        else:
            ok, det = False, f"no linear axis at position {pos}"
        out.append(Res("C29/getitem/selected-metadata-linear", ok, f"{tag}: {det}", proper))
    return out


def _run_getitem_base(case):
    r = rng_for(0, "c29", case["s"])
    o, a, axes = _build(case, r)
    nd = len(case["shape"])
    extra = 0 if case["extra_kind"] == "i" else slice(None)
    n_items = nd + (2 if case["type"] == "PotentialArray" else 1)
    if case["type"] == "MeasurementsEnsemble" and nd == 0:
        return [Res("C29/getitem/refuse-base-axes", True, "no base axes", False)]
    items = tuple([slice(None)] * (n_items - 1) + [extra])
    try:
        res = o[items]
    except Exception as e:  # the statement demands a refusal; any exception is one
        return [Res("C29/getitem/refuse-base-axes", True, f"refused with {type(e).__name__}", True)]
    return [Res("C29/getitem/refuse-base-axes", False,
                f"{_tag(case)}: indexing with {len(items)} items on {nd} ensemble axes returned {type(res).__name__} "
                f"of shape {res.shape} instead of raising", True)]


def _run_potential_getitem(case):
    from abtem.potentials.iam import PotentialArray

    r = rng_for(0, "c29", case["s"])
    shape = tuple(case["shape"])
    axes = [make_axis(k, n, j) for j, (k, n) in enumerate(zip(case["kinds"], shape))]
    a = r.normal(size=shape + (4, 5, 4)).astype(np.float32)
    arr = a
    if case["lazy"]:
        import dask.array as da

        arr = da.from_array(a, chunks=tuple(1 if case["chunk1"] else -1 for _ in shape) + (-1, -1, -1))
    thick = (1.0, 2.0, 1.5, 0.5)
    o = PotentialArray(arr, slice_thickness=thick, sampling=(0.2, 0.3), exit_planes=case["exit_planes"], ensemble_axes_metadata=axes)
    ens = tuple(_decode_item(t) for t in case["ens_items"])
    z = _decode_item(case["z"])
    res = o[ens + (z,)]
    got = to_numpy(res)
    ref = a[ens + (z,)]
    if isinstance(z, int):  # abTEM keeps the slice axis (a potential always has one): NumPy equivalent is a length-1 slice
        ref = a[ens + (slice(z, z + 1) if z != -1 else slice(z, None),)]
    tag = _tag(case)
    out = []
    ok = got.shape == ref.shape and np.array_equal(got, ref)
    out.append(Res("C29/PotentialArray.getitem/values", ok, f"{tag}: shape {got.shape} vs NumPy {ref.shape}; equal={ok}", True))
    ok, det = aligned(res, got)
    out.append(Res("C29/PotentialArray.getitem/axes-count", ok, f"{tag}: {det}", True))
    sel = np.asarray(thick)[z if not isinstance(z, int) else slice(z, z + 1) if z != -1 else slice(z, None)]
    ok = np.allclose(np.asarray(res.slice_thickness, dtype=float), sel)
    out.append(Res("C29/PotentialArray.getitem/slice-thickness", ok,
                   f"{tag}: slice_thickness {res.slice_thickness} vs selected {sel.tolist()}", len(sel) != len(thick)))
    ns = got.shape[-3]
    ep = tuple(int(p) for p in res.exit_planes)
    ok = all(-1 <= p < ns for p in ep)
    out.append(Res("C29/PotentialArray.getitem/exit-planes-aligned", ok,
                   f"{tag}: result has {ns} slices but exit_planes={ep} (parent: {o.exit_planes} on {len(thick)} slices)",
                   ns != len(thick)))
    return out


def _stack_md(kind, n):
    from abtem.core import axes as A

    if kind == "none":
        return None, A.UnknownAxis()
    if kind == "strings":
        v = [f"s{i}" for i in range(n)]
        return v, A.OrdinalAxis(values=tuple(v))
    if kind == "dict":
        d = dict(label="run", values=tuple(10 * i for i in range(n)), units="a.u.")
        return d, A.OrdinalAxis(**d)
    if kind == "ordinal":
        x = A.OrdinalAxis(label="o", values=tuple(f"o{i}" for i in range(n)))
    elif kind == "parameter":
        x = A.ParameterAxis(label="defocus", values=tuple(5.0 * i for i in range(n)), units="Å", _ensemble_mean=True)
    else:
        x = A.ThicknessAxis(values=tuple(1.5 * (i + 1) for i in range(n)))
    return x, x


def _run_stack(case):
    import abtem

    r = rng_for(0, "c29", case["s"])
    objs, arrs = [], []
    for i in range(case["nobj"]):
        lazy = case["lazy"] if not case["mixed"] else bool((i + int(case["lazy"])) % 2)
        o, a, axes = _build(case, r, lazy=lazy)
        objs.append(o)
        arrs.append(a)
    arg, exp_ax = _stack_md(case["md"], case["nobj"])
    res = abtem.stack(objs, axis_metadata=arg, axis=case["pos"])
    got = to_numpy(res)
    ref = np.stack(arrs, axis=case["pos"])
    tag = _tag(case)
    ok = got.shape == ref.shape and np.array_equal(got, ref)
    out = [Res("C29/stack/values", ok, f"{tag}: shape {got.shape} vs NumPy {ref.shape}; equal={ok}", True)]
    ok, det = aligned(res, got)
    if ok:
        exp = list(axes)
        exp.insert(case["pos"], exp_ax)
        ok, det = axes_report(list(res.axes_metadata), exp + list(objs[0].base_axes_metadata))
    out.append(Res("C29/stack/axes", ok, f"{tag}: {det}", True))
    return out


def _run_concatenate(case):
    import abtem

    r = rng_for(0, "c29", case["s"])
    ax_i = case["axis"]
    objs, arrs, all_axes = [], [], []
    for i, n in enumerate(case["lengths"]):
        shape = list(case["shape"])
        shape[ax_i] = n
        lazy = case["lazy"] if not case["mixed"] else bool((i + int(case["lazy"])) % 2)
        o, a, axes = make_object(case["type"], case["kinds"], shape, r, lazy=lazy, chunk1=case["chunk1"], variant=0)
        # give the concatenated ordinal axis different values per operand, all other axes identical
        if hasattr(axes[ax_i], "values"):
            new_ax = make_axis(case["kinds"][ax_i], n, variant=ax_i + 10 * i)
            new_ax = dataclasses.replace(axes[ax_i], values=new_ax.values)
            o.ensemble_axes_metadata[ax_i] = new_ax
            axes[ax_i] = new_ax
        objs.append(o)
        arrs.append(a)
        all_axes.append(axes)
    res = abtem.concatenate(objs, axis=ax_i)
    got = to_numpy(res)
    ref = np.concatenate(arrs, axis=ax_i)
    tag = _tag(case)
    ok = got.shape == ref.shape and np.array_equal(got, ref)
    out = [Res("C29/concatenate/values", ok, f"{tag}: shape {got.shape} vs NumPy {ref.shape}; equal={ok}", True)]
    ok, det = aligned(res, got)
    if ok:
        exp = list(all_axes[0])
        if hasattr(exp[ax_i], "values"):
            vals = ()
            for axes in all_axes:
                vals = vals + tuple(axes[ax_i].values)
            exp[ax_i] = dataclasses.replace(exp[ax_i], values=vals)
        ok, det = axes_report(list(res.axes_metadata), exp + list(objs[0].base_axes_metadata))
    out.append(Res("C29/concatenate/axes", ok, f"{tag}: {det}", True))
    return out


def _run_squeeze(case):
    r = rng_for(0, "c29", case["s"])
    o, a, axes = _build(case, r)
    nd = len(case["shape"])
    axis = case["axis"]
    res = o.squeeze() if axis is None else o.squeeze(tuple(axis))
    norm = list(range(nd)) if axis is None else [x if x >= 0 else x + a.ndim for x in axis]
    drop = tuple(i for i in norm if i < nd and case["shape"][i] == 1)
    ref = np.squeeze(a, axis=drop)
    got = to_numpy(res)
    tag = _tag(case)
    ok = got.shape == ref.shape and np.array_equal(got, ref)
    out = [Res("C29/squeeze/values", ok, f"{tag}: shape {got.shape} vs np.squeeze(axis={drop}) {ref.shape}", bool(drop))]
    ok, det = aligned(res, got)
    if ok:
        exp = [x for i, x in enumerate(axes) if i not in drop]
        ok, det = axes_report(list(res.axes_metadata), exp + list(o.base_axes_metadata))
    out.append(Res("C29/squeeze/axes", ok, f"{tag}: {det}", bool(drop)))
    return out


def _run_expand_dims(case):
    from abtem.core import axes as A

    r = rng_for(0, "c29", case["s"])
    o, a, axes = _build(case, r)
    pos = list(case["axis"])
    new_md = [A.OrdinalAxis(label=f"new{i}", values=(f"only{i}",)) for i in range(len(pos))] if case["md"] else None
    kw = {} if new_md is None else dict(axis_metadata=new_md)
    if case["form"] == "default":
        res = o.expand_dims(**kw)
    elif case["form"] in ("int", "negative"):
        res = o.expand_dims(pos[0], **kw)
    else:
        res = o.expand_dims(tuple(pos), **kw)
    ref = np.expand_dims(a, tuple(pos))
    got = to_numpy(res)
    tag = _tag(case)
    ok = got.shape == ref.shape and np.array_equal(got, ref)
    out = [Res("C29/expand_dims/values", ok, f"{tag}: shape {got.shape} vs np.expand_dims {ref.shape}", True)]
    ok, det = aligned(res, got)
    if ok:
        npos = [p if p >= 0 else p + ref.ndim for p in pos]
        exp = [None] * (len(axes) + len(pos))
        for j, p in enumerate(npos):
            exp[p] = new_md[j] if new_md is not None else A.UnknownAxis()
        it = iter(axes)
        exp = [x if x is not None else next(it) for x in exp]
        ok, det = axes_report(list(res.axes_metadata), exp + list(o.base_axes_metadata))
    out.append(Res("C29/expand_dims/axes", ok, f"{tag}: {det}", True))
    return out


def _run_reduce(case):
    r = rng_for(0, "c29", case["s"])
    o, a, axes = _build(case, r)
    axis = case["axis"]
    np_axis = None if axis is None else (tuple(axis) if isinstance(axis, list) else axis)
    kw = dict(keepdims=True) if case["keepdims"] else {}
    res = getattr(o, case["func"])(axis=np_axis, **kw)
    ref = getattr(np, case["func"])(a, axis=np_axis, **kw)
    tag = _tag(case)
    if axis is None:
        got = np.asarray(res.compute(scheduler="synchronous") if hasattr(res, "compute") else res)
        ok, det = rel_close(got, np.asarray(ref), 1e-5)
        return [Res("C29/reduction/values", ok, f"{tag}: {det}", a.size > 1)]
    got = to_numpy(res)
    ok, det = rel_close(got, ref, 1e-5)
    out = [Res("C29/reduction/values", ok, f"{tag}: {det}", True)]
    ok, det = aligned(res, got)
    if ok:
        red = {x if x >= 0 else x + a.ndim for x in (np_axis if isinstance(np_axis, tuple) else (np_axis,))}
        if case["keepdims"]:
            # a reduced axis of length 1 remains; its entry cannot keep n values -- only the count/alignment is demanded
            exp_n = len(axes)
            ok = len(res.ensemble_axes_metadata) == exp_n
            det = f"{len(res.ensemble_axes_metadata)} ensemble axis entries, expected {exp_n}"
            if ok:
                keep = [i for i in range(len(axes)) if i not in red]
                ok, det = axes_report([res.ensemble_axes_metadata[i] for i in keep], [axes[i] for i in keep])
        else:
            exp = [x for i, x in enumerate(axes) if i not in red]
            ok, det = axes_report(list(res.axes_metadata), exp + list(o.base_axes_metadata))
    out.append(Res("C29/reduction/axes", ok, f"{tag}: {det}", True))
    return out


def _run_reduce_base(case):
    r = rng_for(0, "c29", case["s"])
    o, a, axes = _build(case, r)
    axis = case["axis"]
    np_axis = tuple(axis) if isinstance(axis, list) else axis
    try:
        res = getattr(o, case["func"])(axis=np_axis)
    except Exception as e:
        return [Res("C29/reduction/refuse-base-axes", True, f"refused with {type(e).__name__}", True)]
    return [Res("C29/reduction/refuse-base-axes", False,
                f"{_tag(case)}: {case['func']}(axis={np_axis}) over a base axis returned shape {getattr(res, 'shape', None)}", True)]


def _run_arith(case):
    import dask.array as da

    r = rng_for(0, "c29", case["s"])
    o, a, axes = _build(case, r)
    a0 = a.copy()
    kind = case["operand"]
    if kind == "self":
        other, b, _ = _build(case, r, lazy=case["other_lazy"])
    elif kind == "int":
        other = b = 3
    elif kind == "float":
        other = b = 2.5
    elif kind == "npfloat":
        other = b = np.float32(1.75)
    elif kind == "complex":
        other = b = 1.5 - 0.5j
    elif kind == "ndarray":
        other = b = (r.normal(size=a.shape) + 2.0).astype(np.float32)
    elif kind == "ndarray_base":
        base = BASE_SHAPES[case["type"]]
        other = b = (r.normal(size=base) + 2.0).astype(np.float32) if base else np.float32(1.25)
    else:
        b = (r.normal(size=a.shape) + 2.0).astype(np.float32)
        other = da.from_array(b, chunks=-1)
    aop = case["aop"]
    tag = _tag(case)
    if aop == "pow":
        other = b = 2
    ref_in = a.copy()
    if aop == "add":
        res, ref = o + other, ref_in + b
    elif aop == "sub":
        res, ref = o - other, ref_in - b
    elif aop == "mul":
        res, ref = o * other, ref_in * b
    elif aop == "truediv":
        res, ref = o / other, ref_in / b
    elif aop == "pow":
        res, ref = o ** other, ref_in ** b
    elif aop == "rmul":
        res, ref = other * o, b * ref_in
    elif aop == "rtruediv":
        res, ref = other / o, b / ref_in
    else:
        ref = ref_in
        if aop == "iadd":
            ref += b
            o += other
        elif aop == "isub":
            ref -= b
            o -= other
        elif aop == "imul":
            ref *= b
            o *= other
        else:
            ref /= b
            o /= other
        res = o
    got = to_numpy(res)
    ok, det = rel_close(got, ref, 1e-5)
    ok = ok and got.dtype.kind == np.asarray(ref).dtype.kind
    name = "C29/arithmetic/reflected-values" if aop.startswith("r") else "C29/arithmetic/values"
    out = [Res(name, ok, f"{tag}: {det}; dtype {got.dtype} vs NumPy {np.asarray(ref).dtype}", True)]
    ok, det = aligned(res, got)
    if ok:
        ok, det = axes_report(list(res.axes_metadata), list(axes) + list(o.base_axes_metadata))
    out.append(Res("C29/arithmetic/axes", ok, f"{tag}: {det}", True))
    return out


_RUN = dict(getitem=_run_getitem, getitem_base=_run_getitem_base, potential_getitem=_run_potential_getitem, stack=_run_stack,
            concatenate=_run_concatenate, squeeze=_run_squeeze, expand_dims=_run_expand_dims, reduce=_run_reduce,
            reduce_base=_run_reduce_base, arith=_run_arith)


def run_case(case):
    return _RUN[case["op"]](case)
