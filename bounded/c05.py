"""C05 — built probes and plane waves are normalized (bounded stand-in: run-time contract on the real builders).

Contract on abtem.waves.Probe.build / PlaneWave.build (post-condition on the returned Waves array):
  * every member psi of the array returned by Probe.build satisfies  sum(|np.fft.fft2(psi)|**2) == 1
    (unit total intensity in reciprocal space; convention checked at design time: abTEM's `normalize("reciprocal")`
    divides the *unnormalised* DFT by its 2-norm, so the numpy DFT of a built probe has unit 2-norm);
  * PlaneWave(normalize=True).build(): the same law;  PlaneWave(normalize=False).build(): |psi| == 1 at every pixel.
Oracle: the NumPy DFT (complex128) of the returned array -- nothing of abTEM is re-used on the oracle side.

Domain (see BOUNDS): odd/even/non-square grids, energies 20-300 keV, semiangle cutoffs from "one pixel" to "beyond
the grid", soft and hard edges, the other aperture classes (Vortex, Annular, Bullseye, Zernike, RadialPhasePlate, a CTF
used as aperture), 10 aberration sets (aliases, angles, all 25 coefficients, distribution-valued and weighted
distribution-valued coefficients), tilts of both signs (scalar, per-axis distributions, N x 2 pairs), position lists
(default, single, lists with negative / outside-cell positions, GridScan, LineScan), eager and lazy builds with
max_batch in {1, 2, auto} (chunk boundaries), and a re-build of the same Probe object after mutation.
"""

import math

import numpy as np

from vlib.hx import Res, covering, rng_for

PROPERTY = "C05"
RULE = ("pairwise covering array over (grid, energy, cutoff, edge, aperture class, aberration set, tilt form, position "
        "form, lazy/max_batch) for Probe.build plus the full product (grid x normalize x tilt form x lazy) for "
        "PlaneWave.build, continuous values seeded; every evaluation is non-trivial (a non-empty probe); two cases are "
        "distinct when their case dicts differ")
BOUNDS = {
    "grids": [[16, 16], [15, 15], [15, 20], [24, 9], [32, 17], [9, 32], [8, 12]],
    "energy_eV": [2e4, 3e5],
    "semiangle_cutoff_mrad": "0.5 angular pixel .. 3x the grid's maximum angle",
    "tilt_mrad": [-40, 40],
    "aberration_sets": 11,
    "probe_cases": {"quick": "covering array + 24 random", "thorough": "covering array x 6 seeds + 600 random"},
}
EXHAUSTIVE = False
ASSUMPTIONS = [
    "float32 pipeline: |sum|fft2 psi|^2 - 1| <= 2e-5 and ||psi|-1| <= 2e-6 are accepted as equality",
    "normalisation convention: unit 2-norm of the unnormalised numpy DFT (equals abTEM's reciprocal-space intensity sum)",
    "apertures are chosen non-empty (at least the zero-frequency pixel passes); an all-zero aperture has no normalisation",
]
CONTRACTS = ["abtem/waves.py:Probe.build", "abtem/waves.py:Probe._calculate_array",
             "abtem/waves.py:_WavesNormalization._calculate_new_array", "abtem/waves.py:PlaneWave.build",
             "abtem/waves.py:PlaneWave._calculate_array"]

GRIDS = [((16, 16), (8.0, 8.0)), ((15, 15), (7.5, 7.5)), ((15, 20), (8.0, 10.0)), ((24, 9), (9.6, 5.4)),
         ((32, 17), (6.0, 9.0)), ((9, 32), (5.0, 12.0)), ((8, 12), (4.0, 5.0))]
APERTURES = ["default", "default", "default", "vortex", "annular", "bullseye", "zernike", "radial", "ctf"]
TILTS = ["zero", "pp", "mp", "pm", "mm", "xdist", "ydist", "xydist", "pairs"]
POSITIONS = ["default", "origin", "single", "list", "grid", "line"]
LAZY = [[False, "auto"], [True, "auto"], [True, 1], [True, 2]]


def _wavelength(energy):
    # relativistic electron wavelength [A]; used only to *choose* inputs (cutoffs inside/outside the grid)
    h, m, e, c = 6.62607015e-34, 9.1093837015e-31, 1.602176634e-19, 299792458.0
    return h / math.sqrt(2 * m * e * energy * (1 + e * energy / (2 * m * c * c))) * 1e10


def _aber(idx, r):
    """The 10 aberration sets; values JSON-able; {'values': [...], 'weights': [...]} marks a distribution."""
    u = lambda lo, hi: float(r.uniform(lo, hi))
    if idx == 0:
        return {}
    if idx == 1:
        return {"defocus": u(-200, 200)}
    if idx == 2:
        return {"Cs": u(1e4, 2e5), "defocus": "scherzer"} if r.random() < 0.5 else {"C30": u(1e4, 2e5), "C10": u(-80, 80)}
    if idx == 3:
        return {"C12": u(10, 80), "phi12": u(-3, 3)}
    if idx == 4:
        return {"coma": u(100, 2000), "coma_angle": u(-3, 3), "trefoil": u(100, 1000), "trefoil_angle": u(-1, 1)}
    if idx == 5:
        return {"C32": u(1e3, 5e4), "phi32": u(-1, 1), "C34": u(1e3, 5e4), "phi34": u(-1, 1), "C30": u(-1e5, 1e5)}
    if idx == 6:
        return {"C50": u(-5e7, 5e7), "C30": u(-2e5, 2e5), "astigmatism5": u(1e5, 1e7), "astigmatism5_angle": u(0, 3)}
    if idx == 7:  # all 25 coefficients
        mag = {1: 100.0, 2: 1e3, 3: 1e5, 4: 1e6, 5: 1e7}
        out = {}
        for s in ("C10", "C12", "phi12", "C21", "phi21", "C23", "phi23", "C30", "C32", "phi32", "C34", "phi34", "C41",
                  "phi41", "C43", "phi43", "C45", "phi45", "C50", "C52", "phi52", "C54", "phi54", "C56", "phi56"):
            out[s] = u(-3, 3) if s.startswith("phi") else u(-1, 1) * mag[int(s[1])]
        return out
    if idx == 8:  # distribution-valued (ensemble axes), unit weights
        return {"defocus": {"values": [u(-100, 0), u(0, 100), u(100, 200)]}, "Cs": {"values": [u(-1e5, 0), u(0, 1e5)]}}
    if idx == 10:  # a focal spread sampled far into the tails (6 sigma): weights spanning eight orders of magnitude
        return {"C10": {"values": [-90.0, -45.0, 0.0, 45.0, 90.0], "weights": [1.5e-8, 1.1e-2, 1.0, 1.1e-2, 1.5e-8]}, "C30": u(1e4, 1e5)}
    # idx == 9: weighted distribution (Gaussian-like weights, not normalised to one)
    return {"C10": {"values": [-60.0, -20.0, 20.0, 60.0], "weights": [0.135, 0.8, 0.8, 0.135]}, "C12": u(5, 40)}


def _tilt(form, r):
    u = lambda: float(r.uniform(2, 40))
    if form == "zero":
        return {"mode": "scalar", "x": 0.0, "y": 0.0}
    if form in ("pp", "mp", "pm", "mm"):
        sx = 1 if form[0] == "p" else -1
        sy = 1 if form[1] == "p" else -1
        return {"mode": "scalar", "x": sx * u(), "y": sy * u()}
    if form == "xdist":
        return {"mode": "xdist", "x": [-u(), 0.0, u()], "y": -u()}
    if form == "ydist":
        return {"mode": "ydist", "x": u(), "y": [u(), -u()]}
    if form == "xydist":
        return {"mode": "xydist", "x": [u(), -u()], "y": [-u(), 0.0, u()]}
    return {"mode": "pairs", "pairs": [[u(), -u()], [-u(), u()], [0.0, u()]]}


def _positions(form, extent, r):
    lx, ly = extent
    if form == "default":
        return {"mode": "default"}
    if form == "origin":
        return {"mode": "list", "xy": [[0.0, 0.0]]}
    if form == "single":
        return {"mode": "single", "xy": [float(r.uniform(0, lx)), float(r.uniform(0, ly))]}
    if form == "list":
        return {"mode": "list", "xy": [[float(r.uniform(0, lx)), float(r.uniform(0, ly))],
                                       [float(-r.uniform(0, lx)), float(r.uniform(ly, 2 * ly))],
                                       [lx, ly], [lx / 2, 0.0]]}
    if form == "grid":
        return {"mode": "grid", "start": [0.0, float(r.uniform(0, ly / 4))], "end": [float(r.uniform(lx / 2, lx)), ly],
                "gpts": [int(r.integers(1, 4)), int(r.integers(2, 4))], "endpoint": [bool(r.integers(2)), bool(r.integers(2))]}
    return {"mode": "line", "start": [float(r.uniform(0, lx)), 0.0], "end": [0.0, float(r.uniform(ly / 2, ly))],
            "gpts": int(r.integers(2, 6)), "endpoint": bool(r.integers(2))}


def _probe_case(sel, seed, k):
    r = rng_for(seed, "C05", "probe", k, *[str(v) for v in sel.values()])
    gpts, extent = GRIDS[sel["grid"]]
    energy = float([2e4, 6e4, 1e5, 2e5, 3e5][sel["energy"]] * r.uniform(0.9, 1.1))
    lam = _wavelength(energy)
    dalpha = [lam / e * 1e3 for e in extent]  # angular pixel [mrad]
    amax = min(lam / (2 * e / n) * 1e3 for e, n in zip(extent, gpts) if n > 1)  # largest angle on the shorter k-axis
    cut = {0: 0.5 * min(dalpha), 1: 0.25 * amax, 2: 0.6 * amax, 3: 0.97 * amax, 4: 3.0 * amax}[sel["cutoff"]]
    cut = float(cut * r.uniform(0.95, 1.05))
    ap = APERTURES[sel["aperture"]]
    if ap != "default":
        cut = float(max(cut, 6 * max(dalpha)))  # keep ring / spoke structures resolvable (non-empty aperture)
    lazy, mb = LAZY[sel["lazy"]]
    return dict(kind="probe", gpts=list(gpts), extent=list(extent), energy=energy, cutoff=cut, soft=bool(sel["soft"]),
                aperture=ap, aber_set=int(sel["aber"]), aber=_aber(sel["aber"], r), tilt=_tilt(TILTS[sel["tilt"]], r),
                positions=_positions(POSITIONS[sel["pos"]], extent, r), lazy=lazy, max_batch=mb,
                rebuild=bool(r.random() < 0.25),
                features=(["aberration_dist"] if sel["aber"] in (8, 9, 10) else []) + (["tilt_dist"] if sel["tilt"] >= 5 else []))


def cases(tier, seed):
    axes = dict(grid=list(range(len(GRIDS))), energy=list(range(5)), cutoff=list(range(5)), soft=[0, 1],
                aperture=list(range(len(APERTURES))), aber=list(range(11)), tilt=list(range(len(TILTS))),
                pos=list(range(len(POSITIONS))), lazy=list(range(len(LAZY))))
    nseeds, nrand = (1, 24) if tier == "quick" else (6, 600)
    k = 0
    for s in range(nseeds):
        for sel in covering(axes, seed=seed * 101 + s, extra_random=nrand if s == 0 else 0):
            yield _probe_case(sel, seed, k)
            k += 1
    # plane waves: full product
    k = 0
    reps = 1 if tier == "quick" else 5
    for rep in range(reps):
        for gi in range(len(GRIDS)):
            for normalize in (True, False):
                for form in TILTS:
                    for lazy, mb in (LAZY if tier == "thorough" else LAZY[:2]):
                        if tier == "quick" and (gi + TILTS.index(form) + int(normalize) + int(lazy)) % 2:
                            continue  # half of the product in the quick tier (every pair still occurs)
                        r = rng_for(seed, "C05", "pw", k)
                        k += 1
                        gpts, extent = GRIDS[gi]
                        yield dict(kind="planewave", gpts=list(gpts), extent=list(extent),
                                   energy=float(r.uniform(2e4, 3e5)), normalize=normalize, tilt=_tilt(form, r),
                                   lazy=lazy, max_batch=mb)


# ---- construction from a case dict (shared layout with replay files) -----------------------------------------


def _dist(v):
    from abtem.distributions import from_values

    if isinstance(v, dict):
        w = v.get("weights")
        return from_values(np.array(v["values"], float), None if w is None else np.array(w, float),
                           ensemble_mean=bool(v.get("ensemble_mean", False)))
    return v


def _mk_tilt(t):
    if t["mode"] == "scalar":
        return (t["x"], t["y"])
    if t["mode"] == "xdist":
        return (np.array(t["x"], float), t["y"])
    if t["mode"] == "ydist":
        return (t["x"], np.array(t["y"], float))
    if t["mode"] == "xydist":
        return (np.array(t["x"], float), np.array(t["y"], float))
    return np.array(t["pairs"], float)


def _mk_scan(p):
    import abtem

    if p["mode"] == "default":
        return None
    if p["mode"] == "single":
        return tuple(p["xy"])
    if p["mode"] == "list":
        return [tuple(q) for q in p["xy"]]
    if p["mode"] == "grid":
        return abtem.GridScan(start=tuple(p["start"]), end=tuple(p["end"]), gpts=tuple(p["gpts"]),
                              endpoint=tuple(p["endpoint"]))
    return abtem.LineScan(start=tuple(p["start"]), end=tuple(p["end"]), gpts=p["gpts"], endpoint=p["endpoint"])


def _mk_aperture(case):
    from abtem import transfer as T

    c, e = case["cutoff"], case["energy"]
    k = case["aperture"]
    if k == "vortex":
        return T.Vortex(1 + case["aber_set"] % 3, c, soft=case["soft"])
    if k == "annular":
        return T.AnnularAperture(0.4 * c, c)
    if k == "bullseye":
        return T.Bullseye(4, 8.0, 2, c / 6, c)
    if k == "zernike":
        return T.Zernike(c / 4, 1.5707963, c)
    if k == "radial":
        return T.RadialPhasePlate(3, c)
    if k == "ctf":
        return T.CTF(semiangle_cutoff=c, soft=case["soft"], energy=e, focal_spread=20.0, angular_spread=0.5, C30=5e4)
    return None


def _unit(arr, tol):
    a = np.asarray(arr).astype(np.complex128)
    s = (np.abs(np.fft.fft2(a, axes=(-2, -1))) ** 2).sum((-2, -1))
    dev = np.abs(np.atleast_1d(s) - 1.0)
    finite = bool(np.all(np.isfinite(a)))
    i = int(np.argmax(dev.ravel())) if dev.size else 0
    return finite and bool(np.all(dev <= tol)), (f"sum|fft2 psi|^2 over {dev.size} member(s): worst member #{i} = "
                                                 f"{np.atleast_1d(s).ravel()[i]!r} (expected 1, tol {tol}); finite={finite}")


def run_case(case):
    import abtem

    abtem.config.set({"device": "cpu"})
    out = []
    if case["kind"] == "probe":
        ap = _mk_aperture(case)
        kw = dict(extent=tuple(case["extent"]), gpts=tuple(case["gpts"]), energy=case["energy"],
                  tilt=_mk_tilt(case["tilt"]))
        if ap is None:
            kw.update(semiangle_cutoff=case["cutoff"], soft=case["soft"])
        else:
            kw.update(aperture=ap)
        aber = {k: _dist(v) for k, v in case["aber"].items()}
        probe = abtem.Probe(**kw, **aber)
        scan = _mk_scan(case["positions"])
        w = probe.build(scan=scan, lazy=case["lazy"], max_batch=case["max_batch"])
        if case["lazy"]:
            w = w.compute(scheduler="synchronous", progress_bar=False)
        ok, det = _unit(w.array, 2e-5)
        out.append(Res("C05/Probe.build/unit-reciprocal-intensity", ok, f"shape {w.shape}: {det}", True))
        if case.get("rebuild"):
            # the same object, mutated and built again (second build must be normalised as well)
            probe.semiangle_cutoff = case["cutoff"] * 0.7 if ap is None else probe.semiangle_cutoff
            probe.aberrations.C30 = 7.5e4
            probe.tilt = (-3.0, 11.0)
            w2 = probe.build(scan=_mk_scan(case["positions"]), lazy=False)
            ok, det = _unit(w2.array, 2e-5)
            out.append(Res("C05/Probe.build/unit-reciprocal-intensity", ok, f"after mutation, shape {w2.shape}: {det}", True))
        return out

    pw = abtem.PlaneWave(extent=tuple(case["extent"]), gpts=tuple(case["gpts"]), energy=case["energy"],
                         normalize=case["normalize"], tilt=_mk_tilt(case["tilt"]))
    w = pw.build(lazy=case["lazy"], max_batch=case["max_batch"])
    if case["lazy"]:
        w = w.compute(scheduler="synchronous", progress_bar=False)
    a = np.asarray(w.array)
    expect_shape = tuple(case["gpts"])
    shape_ok = a.shape[-2:] == expect_shape
    if case["normalize"]:
        ok, det = _unit(a, 2e-5)
        out.append(Res("C05/PlaneWave.build/normalized-unit-reciprocal-intensity", ok and shape_ok,
                       f"shape {a.shape} (grid {expect_shape}): {det}", True))
    else:
        dev = float(np.abs(np.abs(a.astype(np.complex128)) - 1.0).max())
        out.append(Res("C05/PlaneWave.build/unnormalized-unit-modulus", dev <= 2e-6 and shape_ok,
                       f"shape {a.shape} (grid {expect_shape}): max||psi|-1| = {dev:.3e}", True))
    return out
