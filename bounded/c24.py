"""C24 — electron energy relations match relativistic kinematics (bounded stand-in: run-time contract).

Contract on abtem.core.energy.{relativistic_mass_correction, energy2mass, energy2wavelength, energy2sigma,
reciprocal_space_sampling_to_angular_sampling} and on the two places that forward to them
(Accelerator.wavelength / .sigma, BaseTransferFunction.angular_sampling):

  for every E > 0:   lambda(E) == h c / sqrt(E_J (E_J + 2 m c^2))  [in Angstrom],  lambda > 0,
                     E1 < E2  ==>  lambda(E1) > lambda(E2),
                     m(E) == m_e (1 + E_J / (m_e c^2)),
                     sigma(E) == 2 pi m(E) lambda e / h^2  [in 1/(V Angstrom)],  sigma > 0,
                     angular_sampling(d, E) == d * lambda * 1e3 per component,
  for every E <= 0:  energy2wavelength / energy2sigma / angular sampling do not return a value (they raise).

Oracle: the closed formulas of the statement evaluated in SI units with mpmath at 50 digits; the CODATA constants
are the float values in ase.units (_hplanck, _c, _me, _e) taken as exact. The oracle never uses ase's derived unit
factors (units.kg, units.s, units.J, units.C), so the unit bookkeeping inside energy2sigma is checked independently.
"""

import math

from vlib.hx import Res, rng_for

PROPERTY = "C24"
RULE = ("energies on a log grid over [1 eV, 10 MeV] (both end points included) plus seeded log-uniform samples, plus "
        "typical microscope voltages given as Python ints / numpy ints; each with a second energy E*(1+gap), gap "
        "log-uniform in [1e-9, 1], for the monotonicity clause and a seeded reciprocal sampling tuple of length 1..3 "
        "(log-uniform 1e-4..10 1/A); rejection cases enumerate non-positive energies (0, -0.0, negative ints/floats, "
        "-inf, tiny negatives). A value case is always non-trivial; distinct = distinct (energy, etype, samplings)")
BOUNDS = {"energy_eV": [1.0, 1.0e7], "grid_points": {"quick": 160, "thorough": 2000},
          "random_points": {"quick": 120, "thorough": 3000}, "gap": [1e-9, 1.0],
          "reciprocal_sampling_1_per_A": [1e-4, 10.0],
          "nonpositive": [0, 0.0, -0.0, -1, -1.0, -1e-300, -5e-324, -0.5, -80e3, -300000, -1e7, "-inf"]}
EXHAUSTIVE = False
ASSUMPTIONS = ["oracle: mpmath (50 digits) evaluation of the SI formulas with ase.units CODATA-2014 floats as exact "
               "constants; 1 V*Angstrom bookkeeping factor 1e-10 for sigma, 1e10 for lambda",
               "float64 comparison: rel 1e-13 for lambda, mass and angular sampling, rel 1e-12 for sigma",
               "'rejected' = the call raises (any Exception) instead of returning a value",
               "strict monotonicity is only demanded for relative energy gaps >= 1e-9 (float64 resolution)"]
CONTRACTS = ["abtem/core/energy.py:relativistic_mass_correction", "abtem/core/energy.py:energy2mass",
             "abtem/core/energy.py:energy2wavelength", "abtem/core/energy.py:energy2sigma",
             "abtem/core/energy.py:reciprocal_space_sampling_to_angular_sampling",
             "abtem/core/energy.py:Accelerator.wavelength", "abtem/core/energy.py:Accelerator.sigma",
             "abtem/transfer.py:BaseTransferFunction.angular_sampling"]

_VOLTAGES = [20, 30, 40, 60, 80, 100, 120, 200, 300, 1000, 1250, 3000]  # kV


def _sampling(r):
    n = int(r.integers(1, 4))
    return [float(10 ** r.uniform(-4, 1)) for _ in range(n)]


def cases(tier, seed):
    ng, nr = BOUNDS["grid_points"][tier], BOUNDS["random_points"][tier]
    for i in range(ng):
        e = 1.0 if i == 0 else (1.0e7 if i == ng - 1 else float(10 ** (7.0 * i / (ng - 1))))
        r = rng_for(seed, "grid", i)
        yield dict(kind="value", energy=e, etype="float", gap=float(10 ** r.uniform(-9, 0)), rsampling=_sampling(r),
                   gpts=[int(r.integers(3, 40)), int(r.integers(3, 40))],
                   sampling=[float(r.uniform(0.02, 0.5)), float(r.uniform(0.02, 0.5))])
    for i in range(nr):
        r = rng_for(seed, "rand", i)
        e = float(10 ** r.uniform(0, 7))
        yield dict(kind="value", energy=e, etype="float", gap=float(10 ** r.uniform(-9, 0)), rsampling=_sampling(r),
                   gpts=[int(r.integers(3, 40)), int(r.integers(3, 40))],
                   sampling=[float(r.uniform(0.02, 0.5)), float(r.uniform(0.02, 0.5))])
    for kv in _VOLTAGES:
        for etype in ("int", "np.int64", "np.int32", "np.float64"):
            r = rng_for(seed, "volt", kv, etype)
            yield dict(kind="value", energy=kv * 1000, etype=etype, gap=float(10 ** r.uniform(-9, 0)),
                       rsampling=_sampling(r), gpts=[int(r.integers(3, 40)), int(r.integers(3, 40))],
                       sampling=[float(r.uniform(0.02, 0.5)), float(r.uniform(0.02, 0.5))])
    for e in BOUNDS["nonpositive"]:
        r = rng_for(seed, "neg", e)
        yield dict(kind="reject", energy=e, etype="int" if isinstance(e, int) else "float", rsampling=_sampling(r))
    if tier == "thorough":
        for i in range(200):
            r = rng_for(seed, "negr", i)
            yield dict(kind="reject", energy=-float(10 ** r.uniform(-300, 8)), etype="float", rsampling=_sampling(r))


def _energy(case):
    import numpy as np

    e = case["energy"]
    if e == "-inf":
        return -math.inf
    t = case.get("etype", "float")
    if t == "int":
        return int(e)
    if t == "np.int64":
        return np.int64(e)
    if t == "np.int32":
        return np.int32(e)
    if t == "np.float64":
        return np.float64(e)
    return float(e)


def _oracle(e_ev):
    """(lambda [A], mass [kg], sigma [1/(V A)], mass correction) as mpmath numbers."""
    import mpmath as mp
    from ase import units

    mp.mp.dps = 50
    h, c, me, q = (mp.mpf(float(x)) for x in (units._hplanck, units._c, units._me, units._e))
    ej = mp.mpf(e_ev) * q
    lam_m = h * c / mp.sqrt(ej * (ej + 2 * me * c ** 2))
    gamma = 1 + ej / (me * c ** 2)
    m = me * gamma
    sigma = 2 * mp.pi * m * lam_m * q / h ** 2  # 1/(V m)
    return lam_m * mp.mpf(10) ** 10, m, sigma * mp.mpf(10) ** -10, gamma


def _rel(a, b):
    import mpmath as mp

    return float(abs(mp.mpf(float(a)) - b) / abs(b))


def _raises(f, *args):
    try:
        v = f(*args)
    except Exception as e:  # noqa: BLE001  the property itself says this call must be rejected
        return True, type(e).__name__
    return False, repr(v)


def run_case(case):
    from abtem.core import energy as EN
    from abtem.transfer import CTF, Aperture

    out = []
    e = _energy(case)
    rs = tuple(case["rsampling"])

    if case["kind"] == "reject":
        acc = EN.Accelerator(energy=e)
        probes = [("energy2wavelength", lambda: EN.energy2wavelength(e)),
                  ("energy2sigma", lambda: EN.energy2sigma(e)),
                  ("reciprocal_space_sampling_to_angular_sampling",
                   lambda: EN.reciprocal_space_sampling_to_angular_sampling(rs, e)),
                  ("Accelerator.wavelength", lambda: acc.wavelength),
                  ("Accelerator.sigma", lambda: acc.sigma)]
        bad = []
        for name, f in probes:
            ok, what = _raises(f)
            if not ok:
                bad.append(f"{name}({e!r}) returned {what}")
        out.append(Res("C24/nonpositive-energy/rejected", not bad, "; ".join(bad) or "all raise", True))
        return out

    lam_o, m_o, sig_o, gam_o = _oracle(float(e))
    lam = EN.energy2wavelength(e)
    sig = EN.energy2sigma(e)
    mass = EN.energy2mass(e)
    gam = EN.relativistic_mass_correction(e)

    d = _rel(lam, lam_o)
    out.append(Res("C24/energy2wavelength/formula", d <= 1e-13,
                   f"E={e!r}: lambda={lam!r} vs h c/sqrt(E(E+2mc^2))={float(lam_o)!r}, rel err {d:.2e}"))
    out.append(Res("C24/energy2wavelength/positive", math.isfinite(lam) and lam > 0, f"E={e!r}: lambda={lam!r}"))

    e2 = float(e) * (1.0 + case["gap"])
    lam2 = EN.energy2wavelength(e2)
    out.append(Res("C24/energy2wavelength/strictly-decreasing", float(e) < e2 and lam > lam2,
                   f"E1={float(e)!r} < E2={e2!r} but lambda1={lam!r}, lambda2={lam2!r}", float(e) < e2))

    dm, dg = _rel(mass, m_o), _rel(gam, gam_o)
    out.append(Res("C24/energy2mass/relativistic", dm <= 1e-13 and dg <= 1e-13,
                   f"E={e!r}: mass={mass!r} vs m_e(1+E/mc^2)={float(m_o)!r} (rel {dm:.2e}); correction {gam!r} vs "
                   f"{float(gam_o)!r} (rel {dg:.2e})"))

    ds = _rel(sig, sig_o)
    out.append(Res("C24/energy2sigma/formula", ds <= 1e-12,
                   f"E={e!r}: sigma={sig!r} vs 2 pi m lambda e/h^2={float(sig_o)!r}, rel err {ds:.2e}"))
    out.append(Res("C24/energy2sigma/positive", math.isfinite(sig) and sig > 0, f"E={e!r}: sigma={sig!r}"))

    import mpmath as mp

    ang = EN.reciprocal_space_sampling_to_angular_sampling(rs, e)
    okang = isinstance(ang, tuple) and len(ang) == len(rs)
    worst = 0.0
    if okang:
        for a, dk in zip(ang, rs):
            worst = max(worst, _rel(a, mp.mpf(dk) * lam_o * 1000))
    out.append(Res("C24/reciprocal_space_sampling_to_angular_sampling/formula", okang and worst <= 1e-13,
                   f"E={e!r}, d={rs!r}: got {ang!r}, expected d*lambda*1e3 = "
                   f"{[float(mp.mpf(dk) * lam_o * 1000) for dk in rs]!r}, worst rel err {worst:.2e}"))

    # the forwarding entry points used by the rest of abTEM
    acc = EN.Accelerator(energy=e)
    da, dsa = _rel(acc.wavelength, lam_o), _rel(acc.sigma, sig_o)
    out.append(Res("C24/Accelerator/wavelength-sigma", da <= 1e-13 and dsa <= 1e-12,
                   f"E={e!r}: Accelerator.wavelength={acc.wavelength!r} (rel {da:.2e}), .sigma={acc.sigma!r} "
                   f"(rel {dsa:.2e})"))

    gpts, samp = tuple(case["gpts"]), tuple(case["sampling"])
    worst, got = 0.0, []
    for obj in (CTF(energy=e, gpts=gpts, sampling=samp, semiangle_cutoff=20.0),
                Aperture(semiangle_cutoff=15.0, energy=e, gpts=gpts, sampling=samp)):
        a = obj.angular_sampling
        got.append(a)
        for ai, n, s in zip(a, gpts, samp):
            worst = max(worst, _rel(ai, lam_o * 1000 / (mp.mpf(n) * mp.mpf(s))))
    out.append(Res("C24/BaseTransferFunction.angular_sampling/formula", worst <= 1e-12,
                   f"E={e!r}, gpts={gpts}, sampling={samp}: angular_sampling={got!r}, expected "
                   f"{[float(lam_o * 1000 / (mp.mpf(n) * mp.mpf(s))) for n, s in zip(gpts, samp)]!r}, "
                   f"worst rel err {worst:.2e}"))
    return out
