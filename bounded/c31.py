"""C31 — Poisson noise is valid, independent and reproducible (bounded run-time contract on the real code).

Contract on BaseMeasurements.poisson_noise / NoiseTransform._calculate_new_array, evaluated for eager measurements
and for lazy measurements under EVERY chunking of the ensemble axes of the tiny ensemble:

  deterministic clauses (decidable):
    nonnegative-whole-counts      every value finite, >= 0 and equal to its rounding; result has the expected shape
    zero-signal-zero-counts       expectation dose*signal == 0  =>  count == 0   (Poisson(0) is 0 almost surely)
    reproducible-fixed-seed       the same call with the same seed gives the identical array (eager/eager, lazy/lazy,
                                  and the same lazy graph computed twice)
    lazy-equals-eager-any-chunking  lazy result == eager result, bit for bit, for every chunking of the ensemble axes
    distinct-members-distinct-noise members (ensemble members, samples) with byte-identical signal and dose never
                                  receive identical noise (necessary condition of independence; only asserted where the
                                  probability of a chance collision of two independent draws is < 1e-12)
  statistical clause (NOT decidable by a contract over one call; loose necessary condition, clearly marked):
    mean-dose-times-signal[statistical]  per member, sum(counts) is inside the two-sided 2e-9 (six sigma) acceptance
                                  region of Poisson(dose * sum(signal)).

Oracles: the statement itself (eager run vs lazy run, run vs re-run, exact Poisson tail of the stated expectation).
"""

import itertools

import numpy as np

from vlib.hx import Res, covering, rng_for

PROPERTY = "C31"
RULE = ("pairwise covering array over measurement type {Images, DiffractionPatterns, RealSpaceLineProfiles, "
        "ReciprocalSpaceLineProfiles, PolarMeasurements} x ensemble shape {(), (3), (4), (5), (2,3), (4,2), (2,2,2)} x "
        "dose mode {low total, high total, dose sequence, dose per area} x samples {1,2,3} x seed x signal "
        "{identical members, random members, with zero pixels}; inside one case EVERY composition of every ensemble "
        "axis into chunks (quick: up to 12 chunkings per case incl. all-ones, whole, and uneven ones; thorough: all) is "
        "run lazily and compared to the eager run. Non-trivial: the noisy array is not all zero and (for the "
        "distinctness clause) there are >= 2 members with identical signal. Distinct = distinct case dict.")
BOUNDS = {
    "mtypes": ["images", "diffraction", "line_real", "line_reciprocal", "polar"],
    "ensemble_shapes": [[], [3], [4], [5], [2, 3], [4, 2], [2, 2, 2]],
    "dose_modes": ["total_low", "total_high", "total_sequence", "per_area"],
    "samples": [1, 2, 3],
    "seeds": [0, 7, 2147483000],
    "signals": ["identical", "random", "zeros"],
    "max_chunkings_per_case": {"quick": 12, "thorough": 64},
    "extra_random_cases": {"quick": 20, "thorough": 300},
    "base_shapes": {"images": [6, 8], "diffraction": [5, 7], "line_real": [24], "line_reciprocal": [25], "polar": [4, 6]},
}
EXHAUSTIVE = False
ASSUMPTIONS = [
    "exact (bitwise) equality for reproducibility and lazy==eager: Poisson counts are integers stored in float32",
    "lazy chunkings partition the ENSEMBLE axes only; base axes are a single chunk (abTEM convention for measurements)",
    "distinctness is only asserted when the chance that two independent Poisson draws coincide on all pixels is "
    "< 1e-12 (computed from exp(-2L) I0(2L) per pixel)",
    "the mean clause is STATISTICAL: exact two-sided Poisson tail, acceptance probability 1 - 2e-9 per member under "
    "the statement; it is deterministic for a fixed seed",
    "signals are non-negative float32; dose*signal <= 2e4 per pixel",
]
CONTRACTS = ["abtem/measurements.py:BaseMeasurements.poisson_noise", "abtem/noise.py:NoiseTransform._calculate_new_array",
             "abtem/array.py:ArrayObject.apply_transform"]

OB_COUNTS = "C31/poisson_noise/nonnegative-whole-counts"
OB_ZERO = "C31/poisson_noise/zero-signal-zero-counts"
OB_REPRO = "C31/poisson_noise/reproducible-fixed-seed"
OB_LAZY = "C31/poisson_noise/lazy-equals-eager-any-chunking"
OB_DISTINCT = "C31/poisson_noise/distinct-members-distinct-noise"
OB_MEAN = "C31/poisson_noise/mean-dose-times-signal[statistical]"


def cases(tier, seed):
    axes = dict(mtype=BOUNDS["mtypes"], ens=BOUNDS["ensemble_shapes"], dose=BOUNDS["dose_modes"],
                samples=BOUNDS["samples"], seed=BOUNDS["seeds"], signal=BOUNDS["signals"])
    rows = covering(axes, seed=seed + 31, extra_random=BOUNDS["extra_random_cases"][tier])
    seen = set()
    for k, row in enumerate(rows):
        c = dict(row)
        c["ens"] = list(c["ens"])
        if c["dose"] == "per_area" and not (c["mtype"] == "images" or (c["mtype"] in ("diffraction", "polar")
                                                                         and len(c["ens"]) >= 2)):
            c["dose"] = "total_low" if k % 2 else "total_high"
        key = str(sorted(c.items()))
        if key in seen:
            continue
        seen.add(key)
        c["tier"] = tier
        c["data_seed"] = k
        yield c
    # hand-picked: the smallest inputs on which a block-independent seed shows
    yield dict(mtype="images", ens=[2], dose="total_high", samples=1, seed=7, signal="identical", tier=tier, data_seed=900)
    yield dict(mtype="images", ens=[2], dose="total_high", samples=2, seed=7, signal="identical", tier=tier, data_seed=901)
    yield dict(mtype="diffraction", ens=[3, 2], dose="per_area", samples=1, seed=0, signal="identical", tier=tier,
               data_seed=902)
    # large arrays (more than 2**20 and 2**21 elements in one eager array): independence must not depend on the size
    yield dict(mtype="images", ens=[2], dose="total_high", samples=1, seed=7, signal="identical", tier=tier, data_seed=903,
               base=[1024, 1024])
    yield dict(mtype="diffraction", ens=[3], dose="total_high", samples=1, seed=3, signal="identical", tier=tier, data_seed=904,
               base=[512, 2048])


# ------------------------------------------------------------------------------------------------


def _compositions(n):
    """all ordered ways to cut an axis of length n into chunks."""
    out = []
    for cuts in itertools.product([0, 1], repeat=n - 1):
        parts, cur = [], 1
        for c in cuts:
            if c:
                parts.append(cur)
                cur = 1
            else:
                cur += 1
        parts.append(cur)
        out.append(tuple(parts))
    return out


def _chunkings(ens, limit, r):
    if not ens:
        return [()]
    per_axis = [_compositions(n) for n in ens]
    allc = list(itertools.product(*per_axis))
    if len(allc) <= limit:
        return allc
    must = [tuple((n,) for n in ens), tuple((1,) * n for n in ens),
            tuple((1, n - 1) if n > 1 else (1,) for n in ens), tuple((n - 1, 1) if n > 1 else (1,) for n in ens)]
    rest = [c for c in allc if c not in must]
    idx = r.permutation(len(rest))[: max(0, limit - len(must))]
    return must + [rest[i] for i in sorted(idx)]


def _build(case):
    """returns (make(lazy, chunks) -> measurement, signal array float32, ensemble shape, base shape, pixel area|None)"""
    from abtem.core.axes import NonLinearAxis, OrdinalAxis, ScanAxis
    from abtem.measurements import (DiffractionPatterns, Images, PolarMeasurements, RealSpaceLineProfiles,
                                    ReciprocalSpaceLineProfiles)
    import dask.array as da

    r = rng_for(case["data_seed"], "C31-signal", case["mtype"], case["signal"])
    ens = tuple(case["ens"])
    base = tuple(case.get("base") or BOUNDS["base_shapes"][case["mtype"]])
    one = r.uniform(0.3, 1.6, base).astype(np.float32)
    if case["signal"] == "identical":
        sig = np.broadcast_to(one, ens + base).copy()
    else:
        sig = r.uniform(0.3, 1.6, ens + base).astype(np.float32)
        if len(ens) and case["signal"] == "random" and ens[0] >= 2:
            sig[-1] = sig[0]  # the last member along axis 0 repeats the first: identical signal in different members
    if case["signal"] == "zeros":
        mask = r.random(base) < 0.3
        sig[..., mask] = 0.0
    scan = case["dose"] == "per_area" and case["mtype"] != "images"
    scan_sampling = (0.37, 0.53)

    def axes_md():
        out = []
        for i, n in enumerate(ens):
            if scan and i >= len(ens) - 2:
                out.append(ScanAxis(label="xy"[i - (len(ens) - 2)], sampling=scan_sampling[i - (len(ens) - 2)], units="Å"))
            elif i % 2 == 0:
                out.append(NonLinearAxis(label=f"p{i}", values=tuple(float(v) * 1.5 for v in range(n)), units="mrad"))
            else:
                out.append(OrdinalAxis(label=f"o{i}", values=tuple(f"m{v}" for v in range(n))))
        return out

    area = None
    if case["dose"] == "per_area":
        area = 0.21 * 0.34 if case["mtype"] == "images" else scan_sampling[0] * scan_sampling[1]

    def make(lazy, chunks=None):
        arr = sig.copy()
        if lazy:
            arr = da.from_array(arr, chunks=tuple(chunks) + tuple((b,) for b in base))
        md = axes_md()
        t = case["mtype"]
        if t == "images":
            return Images(arr, sampling=(0.21, 0.34), ensemble_axes_metadata=md)
        if t == "diffraction":
            return DiffractionPatterns(arr, sampling=(0.05, 0.04), fftshift=True, ensemble_axes_metadata=md)
        if t == "line_real":
            return RealSpaceLineProfiles(arr, sampling=0.1, ensemble_axes_metadata=md)
        if t == "line_reciprocal":
            return ReciprocalSpaceLineProfiles(arr, sampling=0.02, ensemble_axes_metadata=md)
        if t == "polar":
            return PolarMeasurements(arr, radial_sampling=2.0, azimuthal_sampling=float(np.pi / 3),
                                     ensemble_axes_metadata=md)
        raise ValueError(t)

    return make, sig, ens, base, area


def _dose_kwargs(case, area):
    """(kwargs for poisson_noise, list of total doses per leading dose index or None for scalar)"""
    m = case["dose"]
    if m == "total_low":
        return dict(total_dose=3.7), [3.7], False
    if m == "total_high":
        return dict(total_dose=1.0e4), [1.0e4], False
    if m == "total_sequence":
        return dict(total_dose=[25.0, 25.0, 400.0]), [25.0, 25.0, 400.0], True
    if m == "per_area":
        dpa = 5.0e3
        return dict(dose_per_area=dpa), [dpa * area], False
    raise ValueError(m)


def _log10_collision(lam):
    from scipy.special import ive

    lam = np.asarray(lam, dtype=np.float64).ravel()
    p = ive(0, 2.0 * lam)  # exp(-2L) I0(2L) = P(X == Y), X,Y iid Poisson(L)
    return float(np.sum(np.log10(np.clip(p, 1e-300, 1.0))))


class _Acc:
    def __init__(self):
        self.d = {}

    def add(self, ob, ok, detail, nt=True):
        cur = self.d.get(ob)
        if cur is None:
            self.d[ob] = [bool(ok), detail, bool(nt), 1]
        else:
            cur[3] += 1
            cur[2] = cur[2] or bool(nt)
            if cur[0] and not ok:
                cur[0], cur[1] = False, detail
            elif cur[0] and ok and nt and not cur[1]:
                cur[1] = detail

    def results(self):
        return [Res(ob, v[0], (v[1] or "ok") + f" [{v[3]} evaluations]", v[2]) for ob, v in self.d.items()]


def _check_array(acc, tag, out, sig, doses, has_dose_axis, samples, ens, base):
    """valid counts, zero clause, mean clause, distinctness on one noisy array."""
    from scipy.stats import poisson

    lead = ((len(doses),) if has_dose_axis else ()) + ((samples,) if samples > 1 else ())
    exp_shape = lead + ens + base
    if out.shape != exp_shape:
        acc.add(OB_COUNTS, False, f"{tag}: result shape {out.shape}, expected {exp_shape} (dose axis, sample axis, ensemble, base)")
        return False
    o = out.astype(np.float64).reshape((len(doses) if has_dose_axis else 1, samples) + ens + base)
    finite = np.isfinite(o).all()
    whole = finite and bool(np.all(o >= 0) and np.all(o == np.rint(o)))
    nt = bool(np.any(o != 0))
    bad = ""
    if not whole:
        i = np.argwhere(~np.isfinite(o) | (o < 0) | (o != np.rint(o)))[0]
        bad = f"{tag}: value {o[tuple(i)]!r} at {tuple(int(x) for x in i)} is not a non-negative whole number"
    acc.add(OB_COUNTS, whole, bad, nt)
    if not finite:
        return False
    # zero signal => zero counts
    zmask = sig == 0
    if zmask.any():
        zc = o[:, :, zmask]
        okz = bool(np.all(zc == 0))
        acc.add(OB_ZERO, okz, "" if okz else f"{tag}: {int((zc != 0).sum())} pixels with zero signal have counts up to {zc.max()}", True)
    nb = len(base)
    # mean (statistical), per member
    for di, dose in enumerate(doses if has_dose_axis else doses[:1]):
        mu_members = np.float64(np.float32(dose)) * sig.astype(np.float64).reshape(ens + (-1,)).sum(-1)
        for si in range(samples):
            tot = o[di, si].reshape(ens + (-1,)).sum(-1)
            lo = poisson.cdf(tot, mu_members)
            hi = poisson.sf(tot - 1, mu_members)
            p = np.minimum(lo, hi)
            okm = bool(np.all(p > 1e-9))
            det = ""
            if not okm:
                j = np.unravel_index(int(np.argmin(p)), p.shape) if p.ndim else ()
                det = (f"{tag}: dose index {di}, sample {si}, member {tuple(int(x) for x in j)}: sum of counts {tot[j]!r} vs "
                       f"expectation dose*sum(signal)={mu_members[j]!r} (tail probability {p[j]:.2e})")
            acc.add(OB_MEAN, okm, det, nt)
    # distinctness: group members (sample, ensemble index) by identical signal, per dose index
    members = list(itertools.product(range(samples), *[range(n) for n in ens]))
    for di, dose in enumerate(doses if has_dose_axis else doses[:1]):
        groups = {}
        for mem in members:
            s = sig[mem[1:]] if ens else sig
            groups.setdefault(s.tobytes(), []).append(mem)
        for key, mems in groups.items():
            if len(mems) < 2:
                continue
            s = sig[mems[0][1:]] if ens else sig
            lc = _log10_collision(np.float64(dose) * s.astype(np.float64))
            if lc > -12:
                continue  # a coincidence of independent draws is not negligible: clause not decidable here
            same = [(a, b) for a, b in itertools.combinations(mems, 2) if np.array_equal(o[(di,) + a], o[(di,) + b])]
            okd = not same
            det = ""
            if same:
                a, b = same[0]
                det = (f"{tag}: dose index {di}: members (sample, ensemble index...) {a} and {b} have identical signal and "
                       f"received IDENTICAL noise ({len(same)} of {len(mems) * (len(mems) - 1) // 2} pairs identical; chance "
                       f"of coincidence 1e{lc:.0f})")
            # eager evaluation is reported on its own obligation: the recorded finding is about lazy blocks only
            acc.add(OB_DISTINCT + ("/eager" if tag == "eager" else ""), okd, det, True)
    # two dose members with the same dose (sequence mode has 25, 25): identical signal*dose => must differ too
    if has_dose_axis:
        for d1, d2 in itertools.combinations(range(len(doses)), 2):
            if doses[d1] == doses[d2]:
                lc = _log10_collision(np.float64(doses[d1]) * sig.astype(np.float64))
                if lc <= -12:
                    okd = not np.array_equal(o[d1], o[d2])
                    acc.add(OB_DISTINCT, okd, "" if okd else f"{tag}: dose members {d1} and {d2} (same dose {doses[d1]}) received identical noise", True)
    return True


def run_case(case):
    import warnings

    warnings.filterwarnings("ignore")
    make, sig, ens, base, area = _build(case)
    kw, doses, has_dose_axis = _dose_kwargs(case, area)
    samples, seed = case["samples"], case["seed"]
    acc = _Acc()

    def noisy(m):
        return m.poisson_noise(samples=samples, seed=seed, **kw)

    # eager, twice
    src = make(False)
    e1 = np.asarray(noisy(src).array)
    e2 = np.asarray(noisy(make(False)).array)
    e3 = np.asarray(noisy(src).array)  # same receiver again
    ok = np.array_equal(e1, e2) and np.array_equal(e1, e3)
    acc.add(OB_REPRO, ok, "" if ok else f"eager: two calls with seed={seed} differ in {int((e1 != e2).sum() + (e1 != e3).sum())} values",
            bool(np.any(e1 != 0)))
    good = _check_array(acc, "eager", e1, sig, doses, has_dose_axis, samples, ens, base)

    r = rng_for(case["data_seed"], "C31-chunks")
    limit = BOUNDS["max_chunkings_per_case"][case.get("tier", "quick")]
    for ch in _chunkings(list(ens), limit, r):
        tag = f"lazy chunks={list(map(list, ch))}"
        l1 = noisy(make(True, ch))
        a1 = np.asarray(l1.array.compute(scheduler="synchronous"))
        a1b = np.asarray(l1.array.compute(scheduler="synchronous"))  # the same graph computed twice
        a2 = np.asarray(noisy(make(True, ch)).compute(scheduler="synchronous").array)
        ok = np.array_equal(a1, a2) and np.array_equal(a1, a1b)
        acc.add(OB_REPRO, ok, "" if ok else f"{tag}: two lazy evaluations with seed={seed} differ in "
                f"{int((a1 != a2).sum() + (a1 != a1b).sum())} values", bool(np.any(a1 != 0)))
        ok = a1.shape == e1.shape and np.array_equal(a1, e1)
        det = ""
        if not ok:
            det = (f"{tag}: lazy result differs from the eager result with the same seed={seed} in "
                   f"{int((a1 != e1).sum()) if a1.shape == e1.shape else 'shape'} of {e1.size} values "
                   f"(first rows: lazy {a1.reshape(-1)[:6].tolist()} eager {e1.reshape(-1)[:6].tolist()})")
        acc.add(OB_LAZY, ok, det, bool(np.any(e1 != 0)))
        if good:
            _check_array(acc, tag, a1, sig, doses, has_dose_axis, samples, ens, base)
    return acc.results()
