"""C08 — potentials are covariant under translations and supercell repetition (bounded run-time contract).

Relational contracts on the real builders (abtem.Potential.build, PotentialArray.tile, CrystalPotential.build) and on
the delta-superposition kernel (abtem.integrals.superpose_deltas):

  translate-pixels   V[atoms + (sx*dx, sy*dy, 0)] == np.roll(V[atoms], (sx, sy), axes=(x, y))   infinite and finite
  tile / crystal     V[atoms * (rx, ry, rz)] on the (rx, ry)-times larger grid == V[atoms].tile((rx, ry, rz))
                     == CrystalPotential(V[atoms] or Potential(atoms), (rx, ry, rz)).build()
  subpixel           mean over (x, y) of every slice of V[atoms + (tx, ty, 0)] == that of V[atoms]        infinite
  superpose_deltas   total weight deposited == number of positions (bilinear weights sum to 1, indices periodic);
                     integer shifts of the positions roll the deposited array

Oracles: np.roll / an independently built potential of the explicitly repeated ase.Atoms / the statement's invariants.

Domain decision (pbc flag).  The statement quantifies over "all atomic structures with orthogonal cells" and asks for a
*periodic wrap*; abTEM's Potential is periodic in x, y whatever ase's pbc flags say.  Structures with pbc=False therefore
belong to the domain.  They are evaluated under separate obligation names (`.../pbc-false`) because the unchanged tree
treats them differently (see the report / DESIGN.md §8, C08 triage) and the lead may want to key a known finding on it.
"""

import numpy as np

from vlib.hx import Res, covering, rng_for

PROPERTY = "C08"
RULE = ("pairwise covering array over {projection, parametrization, grid, slice spec, species count, special-position "
        "flag, pre-wrap} x seeded structures (orthogonal cells, 1-3 species, atoms on cell faces / pixel centres) x "
        "seeded pixel shifts (small, wrapping, negative, multiple-of-grid); repetitions from a pool x unit as "
        "Potential|PotentialArray x lazy|eager; seeded real sub-pixel translations; seeded delta sets. Non-trivial: the "
        "shift is not a multiple of the grid / some repetition > 1 / the translation is not a whole pixel and the "
        "reference potential is non-zero. Distinct = distinct case dict")
BOUNDS = {
    "cell": "orthogonal, a,b in [3,6] A, c in [3,5] A", "atoms": "1..6 atoms, species from H C O Si Cu Ag Au",
    "gpts_pool": [[16, 16], [15, 18], [20, 12], [9, 14], [24, 24], [13, 13]],
    "projection": ["infinite", "finite"], "parametrization": ["lobato", "kirkland", "peng", "lobato_sigmas"],
    "slice_thickness": ["2.0", "0.9", "sequence"],
    "pixel_shifts": "|s| <= 2.5 * gpts, 4-5 per case (incl. whole periods for atoms on the cell faces)", "repetitions_pool": [[2, 1, 1], [1, 2, 1], [1, 1, 2], [2, 2, 1],
                                                                            [3, 2, 1], [2, 3, 2], [1, 1, 3], [1, 1, 1]],
    "cases": {"quick": {"shift": 56, "shift_pbc_false": 8, "tile": 32, "subpixel": 20, "deltas": 16},
              "thorough": {"shift": 400, "shift_pbc_false": 40, "tile": 200, "subpixel": 150, "deltas": 150}},
}
EXHAUSTIVE = False
ASSUMPTIONS = [
    "C08: arrays compared with max|a-b| <= 1e-4 * max|b| (float32 pipeline; observed agreement 1e-7..2e-6)",
    "C08: slice means compared in float64 with relative tolerance 1e-5 (observed 1e-7)",
    "C08: supercell comparison uses the unit slice-thickness sequence repeated rz times and gpts multiplied by (rx, ry) "
    "('when the grid is repeated accordingly')",
    "C08: pbc=False structures are taken to be in the domain (statement: all structures with orthogonal cells, periodic "
    "wrap); evaluated under separate '/pbc-false' obligations",
]
CONTRACTS = [
    "abtem/potentials/iam.py:_FieldBuilder.build", "abtem/potentials/iam.py:_FieldBuilderFromAtoms._prepare_atoms",
    "abtem/potentials/iam.py:FieldArray.tile", "abtem/potentials/iam.py:CrystalPotential.generate_slices",
    "abtem/integrals.py:ScatteringFactorProjectionIntegrals.integrate_on_grid",
    "abtem/integrals.py:QuadratureProjectionIntegrals.integrate_on_grid", "abtem/integrals.py:superpose_deltas",
]

_SPECIES = ["H", "C", "O", "Si", "Cu", "Ag", "Au"]


def _structure(r, nspecies, special, gpts, pbc=True, natoms=None):
    cell = [round(float(r.uniform(3, 6)), 3), round(float(r.uniform(3, 6)), 3), round(float(r.uniform(3, 5)), 3)]
    n = int(natoms or r.integers(max(1, nspecies), 7))
    sp = [str(s) for s in r.choice(_SPECIES, nspecies, replace=False)]
    sym = [sp[i % nspecies] for i in range(n)]
    pos = (r.uniform(0.02, 0.98, (n, 3)) * cell)
    if special:
        dx, dy = cell[0] / gpts[0], cell[1] / gpts[1]
        pos[0, :2] = [0.0, cell[1] - 1e-9]                                   # on the cell faces
        if n > 1:
            pos[1, :2] = [dx * int(r.integers(gpts[0])), dy * (int(r.integers(gpts[1])) + 0.5)]  # pixel centre / half pixel
        if n > 2:
            pos[2, :2] = [cell[0] - dx * 0.25, dy * 0.75]
    return dict(symbols=sym, positions=[[float(x) for x in p] for p in pos], cell=cell, pbc=bool(pbc))


def _slices(spec, c, r):
    if spec == "sequence":
        f = sorted(float(x) for x in r.uniform(0.2, 0.8, 2))
        t = [round(f[0] * c, 6), round((f[1] - f[0]) * c, 6)]
        t.append(c - t[0] - t[1])
        return [float(x) for x in t]
    return float(spec)


def _shifts(r, gpts, special=False):
    gx, gy = gpts
    out = [[int(r.integers(1, 4)), int(r.integers(0, 4))],                     # small
           [int(r.integers(gx // 2, gx)), int(r.integers(gy // 2, gy))],       # wraps for most atoms
           [-int(r.integers(1, 2 * gx)), int(r.integers(gy, int(2.5 * gy)))],  # negative / beyond one period
           [gx * int(r.integers(-1, 2)), int(r.integers(1, gy))]]             # whole period in x
    if special:
        # atom 0 sits on the face x = 0: a whole period back lands on -cell exactly; a preceding ase wrap() turns that
        # into x = -2e-16 (tiny negative), the kind of coordinate ase itself produces
        out[3] = [-gx, int(r.integers(0, gy))]
        out.append([int(r.integers(1, gx)), gy * int(r.integers(1, 3))])       # whole periods in y, atom 0 at y = b-1e-9
    return out


def _param(case, atoms):
    """parametrization argument of the case; `<name>_sigmas` = the parametrization object with thermal smearing
    (per-element standard deviations), which blurs every atom's potential periodically"""
    name = case["parametrization"]
    if not name.endswith("_sigmas"):
        return name
    from abtem.parametrizations import LobatoParametrization

    syms = sorted(set(atoms.get_chemical_symbols()))
    return LobatoParametrization(sigmas={sym: 0.06 + 0.03 * i for i, sym in enumerate(syms)})


def cases(tier, seed):
    nb = BOUNDS["cases"][tier]
    axes = dict(projection=BOUNDS["projection"], parametrization=BOUNDS["parametrization"],
                gpts=BOUNDS["gpts_pool"], slices=BOUNDS["slice_thickness"], nspecies=[1, 2, 3],
                special=[False, True], prewrap=[False, True])
    arr = covering(axes, seed=seed)
    i = 0
    while len(arr) < nb["shift"]:
        rr = rng_for(seed, "extra-shift", i)
        arr.append({k: v[int(rr.integers(len(v)))] for k, v in axes.items()})
        i += 1
    for i, a in enumerate(arr):
        r = rng_for(seed, "shift", i)
        at = _structure(r, a["nspecies"], a["special"], a["gpts"])
        yield dict(kind="shift", projection=a["projection"], parametrization=a["parametrization"], gpts=a["gpts"],
                   slice_thickness=_slices(a["slices"], at["cell"][2], r), atoms=at, prewrap=a["prewrap"],
                   shifts=_shifts(r, a["gpts"], a["special"]))
    for i in range(nb["shift_pbc_false"]):
        r = rng_for(seed, "shift-pbc-false", i)
        g = BOUNDS["gpts_pool"][i % len(BOUNDS["gpts_pool"])]
        at = _structure(r, 1 + i % 3, False, g, pbc=False)
        yield dict(kind="shift", projection=BOUNDS["projection"][i % 2],
                   parametrization=BOUNDS["parametrization"][(i // 2) % 3], gpts=g,
                   slice_thickness=_slices(BOUNDS["slice_thickness"][i % 3], at["cell"][2], r), atoms=at, prewrap=False,
                   shifts=_shifts(r, g))
    taxes = dict(projection=BOUNDS["projection"], parametrization=BOUNDS["parametrization"],
                 gpts=[[10, 12], [9, 8], [16, 16], [7, 11]], slices=BOUNDS["slice_thickness"],
                 reps=BOUNDS["repetitions_pool"], unit_built=[False, True], lazy=[False, True], special=[False, True])
    tarr = covering(taxes, seed=seed + 1)
    i = 0
    while len(tarr) < nb["tile"]:
        rr = rng_for(seed, "extra-tile", i)
        tarr.append({k: v[int(rr.integers(len(v)))] for k, v in taxes.items()})
        i += 1
    for i, a in enumerate(tarr):
        r = rng_for(seed, "tile", i)
        at = _structure(r, 1 + i % 3, a["special"], a["gpts"], natoms=int(r.integers(1, 5)))
        yield dict(kind="tile", projection=a["projection"], parametrization=a["parametrization"], gpts=a["gpts"],
                   slice_thickness=_slices(a["slices"], at["cell"][2], r), atoms=at, reps=a["reps"],
                   unit_built=a["unit_built"], lazy=a["lazy"])
    for i in range(nb["subpixel"]):
        r = rng_for(seed, "subpixel", i)
        g = BOUNDS["gpts_pool"][i % len(BOUNDS["gpts_pool"])]
        at = _structure(r, 1 + i % 3, bool(i % 2), g)
        tr = [[float(r.uniform(0, 1) * at["cell"][0] / g[0]), float(r.uniform(0, 1) * at["cell"][1] / g[1])],
              [float(r.uniform(-2, 2) * at["cell"][0]), float(r.uniform(-2, 2) * at["cell"][1])],
              [float(0.5 * at["cell"][0] / g[0]), 0.0],
              [1e-7, float(at["cell"][1] / g[1] * (1 - 1e-7))]]
        yield dict(kind="subpixel", projection="infinite", parametrization=BOUNDS["parametrization"][i % 3], gpts=g,
                   slice_thickness=_slices(BOUNDS["slice_thickness"][(i // 3) % 3], at["cell"][2], r), atoms=at,
                   translations=tr)
    for i in range(nb["deltas"]):
        r = rng_for(seed, "deltas", i)
        shape = [int(r.integers(3, 20)), int(r.integers(3, 20))]
        n = int(r.integers(1, 9))
        pos = r.uniform(-2.5, 2.5, (n, 2)) * shape
        if i % 2:
            pos[0] = [0.0, shape[1] - 1.0]          # exactly on pixels, last column
            pos[-1] = [shape[0] - 0.5, -0.25]        # bilinear neighbours wrap around
        yield dict(kind="deltas", shape=shape, positions=[[float(x) for x in p] for p in pos],
                   weights=None if i % 3 else [float(x) for x in r.uniform(0.1, 2, n)],
                   shifts=[[int(r.integers(-3 * shape[0], 3 * shape[0])), int(r.integers(-3 * shape[1], 3 * shape[1]))]
                           for _ in range(3)])


# ---------------------------------------------------------------------------------------------------------------


def _ase(at, extra=(0.0, 0.0), wrap=False):
    from ase import Atoms

    a = Atoms(at["symbols"], positions=np.array(at["positions"], float), cell=at["cell"], pbc=at["pbc"])
    a.positions[:, 0] += extra[0]
    a.positions[:, 1] += extra[1]
    if wrap:
        a.wrap(pbc=True)
    return a


def _st(case):
    st = case["slice_thickness"]
    return tuple(st) if isinstance(st, list) else st


def _build(atoms, case, gpts=None, st=None):
    import abtem

    pot = abtem.Potential(atoms, gpts=tuple(gpts or case["gpts"]), projection=case["projection"],
                          parametrization=_param(case, atoms), slice_thickness=_st(case) if st is None else st)
    return pot, pot.build(lazy=False)


def _cmp(a, b, rtol=1e-4):
    a = np.asarray(a)
    b = np.asarray(b)
    if a.shape != b.shape:
        return False, f"shape {a.shape} != {b.shape}"
    scale = float(np.abs(b).max())
    err = float(np.abs(a - b).max())
    k = np.unravel_index(int(np.argmax(np.abs(a - b))), a.shape)
    return err <= rtol * max(scale, 1e-30), (f"max|got-expected|={err:.3e} at {tuple(int(x) for x in k)} "
                                            f"(got {float(a[k]):.6g}, expected {float(b[k]):.6g}), scale {scale:.3e}, "
                                            f"sum got/expected = {float(a.sum()):.6g}/{float(b.sum()):.6g}")


def _run_shift(case):
    at = case["atoms"]
    gx, gy = case["gpts"]
    dx, dy = at["cell"][0] / gx, at["cell"][1] / gy
    _, ref = _build(_ase(at), case)
    ref = np.asarray(ref.array)
    suffix = "" if at["pbc"] else "/pbc-false"
    name = f"C08/translate-pixels/{case['projection']}-roll{suffix}"
    out = []
    for sx, sy in case["shifts"]:
        moved = _ase(at, (sx * dx, sy * dy), wrap=case["prewrap"])
        _, got = _build(moved, case)
        exp = np.roll(ref, (sx, sy), axis=(1, 2))
        ok, msg = _cmp(got.array, exp)
        nt = bool(np.any(ref != 0)) and not (sx % gx == 0 and sy % gy == 0)
        out.append(Res(name, ok, f"shift ({sx},{sy}) px on gpts ({gx},{gy}): {msg}", nt))
    return out


def _run_tile(case):
    import abtem

    at = case["atoms"]
    rx, ry, rz = case["reps"]
    atoms = _ase(at)
    st = _st(case)
    unit, built = _build(atoms, case)
    thick = tuple(built.slice_thickness)
    sup_atoms = atoms * (rx, ry, rz)
    _, sup = _build(sup_atoms, case, gpts=(case["gpts"][0] * rx, case["gpts"][1] * ry), st=thick * rz)
    sup_arr = np.asarray(sup.array)
    nt = bool(np.any(sup_arr != 0)) and (rx, ry, rz) != (1, 1, 1)
    out = []
    tiled = built.tile((rx, ry, rz))
    ok, msg = _cmp(tiled.array, sup_arr)
    meta = (np.allclose(tiled.slice_thickness, sup.slice_thickness, rtol=1e-12) and tuple(tiled.gpts) == tuple(sup.gpts)
            and np.allclose(tiled.extent, sup.extent, rtol=1e-12))
    out.append(Res("C08/tile/equals-supercell", ok and meta,
                   f"reps {case['reps']}: {msg}; thickness {tiled.slice_thickness} vs {sup.slice_thickness}; extent "
                   f"{tiled.extent} vs {sup.extent}", nt))
    if len(case["reps"]) == 3 and rz == 1:
        tiled2 = built.tile((rx, ry))
        ok2, msg2 = _cmp(tiled2.array, sup_arr)
        out.append(Res("C08/tile/equals-supercell", ok2, f"two-int reps ({rx},{ry}): {msg2}", nt))
    pu = built if case["unit_built"] else abtem.Potential(atoms, gpts=tuple(case["gpts"]), projection=case["projection"],
                                                          parametrization=_param(case, atoms), slice_thickness=st)
    cp = abtem.CrystalPotential(pu, repetitions=(rx, ry, rz))
    cb = cp.build(lazy=case["lazy"])
    if case["lazy"]:
        cb = cb.compute(scheduler="synchronous", progress_bar=False)
    ok, msg = _cmp(cb.array, sup_arr)
    meta = (len(cb.slice_thickness) == len(sup.slice_thickness)
            and np.allclose(cb.slice_thickness, sup.slice_thickness, rtol=1e-12) and tuple(cb.gpts) == tuple(sup.gpts)
            and np.allclose(cb.extent, sup.extent, rtol=1e-12))
    out.append(Res("C08/crystal-potential/equals-supercell", ok and meta,
                   f"reps {case['reps']} unit_built={case['unit_built']} lazy={case['lazy']}: {msg}; thickness "
                   f"{cb.slice_thickness} vs {sup.slice_thickness}; extent {cb.extent} vs {sup.extent}", nt))
    return out


def _run_subpixel(case):
    at = case["atoms"]
    _, ref = _build(_ase(at), case)
    m0 = np.asarray(ref.array, dtype=np.float64).mean(axis=(1, 2))
    gx, gy = case["gpts"]
    dx, dy = at["cell"][0] / gx, at["cell"][1] / gy
    out = []
    for tx, ty in case["translations"]:
        _, got = _build(_ase(at, (tx, ty)), case)
        m1 = np.asarray(got.array, dtype=np.float64).mean(axis=(1, 2))
        scale = float(np.abs(m0).max())
        err = float(np.abs(m1 - m0).max())
        whole = abs(tx / dx - round(tx / dx)) < 1e-9 and abs(ty / dy - round(ty / dy)) < 1e-9
        out.append(Res("C08/subpixel/slice-mean-invariant", m1.shape == m0.shape and err <= 1e-5 * max(scale, 1e-30),
                       f"translation ({tx:.6g},{ty:.6g}) A = ({tx / dx:.4f},{ty / dy:.4f}) px: slice means {m1} vs {m0}, "
                       f"max diff {err:.3e}", scale > 0 and not whole))
    return out


def _run_deltas(case):
    from abtem.integrals import superpose_deltas

    shape = tuple(case["shape"])
    pos = np.array(case["positions"], dtype=np.float32)
    w = None if case["weights"] is None else np.array(case["weights"], dtype=np.float32)
    a0 = superpose_deltas(pos.copy(), np.zeros(shape, dtype=np.float32), weights=w)
    total = float(len(pos)) if w is None else float(w.astype(np.float64).sum())
    out = [Res("C08/superpose_deltas/unit-mass",
               abs(float(a0.astype(np.float64).sum()) - total) <= 1e-5 * total and float(a0.min()) >= -1e-6,
               f"deposited {float(a0.sum()):.7g} (min {float(a0.min()):.3g}) for total weight {total:.7g}, shape {shape}", True)]
    for sx, sy in case["shifts"]:
        a1 = superpose_deltas(pos + np.array([sx, sy], dtype=np.float32), np.zeros(shape, dtype=np.float32), weights=w)
        exp = np.roll(a0, (sx, sy), axis=(0, 1))
        # positions are float32 pixel coordinates: |p| <= 2.5*20+60 -> ulp 8e-6, fractional parts move by that much
        err = float(np.abs(a1 - exp).max())
        out.append(Res("C08/superpose_deltas/integer-shift-rolls", err <= 1e-4 * float(np.abs(exp).max()),
                       f"shift ({sx},{sy}) on shape {shape}: max diff {err:.3e}", (sx % shape[0], sy % shape[1]) != (0, 0)))
    return out


def run_case(case):
    return {"shift": _run_shift, "tile": _run_tile, "subpixel": _run_subpixel, "deltas": _run_deltas}[case["kind"]](case)
