"""C38 — results do not depend on the FFT backend, the FFTW planning effort or (to single accuracy) the precision.

Bounded run-time contract, evaluated on the real abTEM functions under every value of the configuration keys
`fft` in {numpy, fftw}, `fftw.planning_effort` in {FFTW_ESTIMATE, FFTW_MEASURE, FFTW_PATIENT (, FFTW_EXHAUSTIVE)},
`precision` in {float32, float64}. Configuration is always set with `abtem.config.set(...)` context managers inside
run_case, so pool workers never leak configuration between cases.

Clauses of the statement and their obligations
  (a) "simulations ... give the same results whether FFTs use NumPy or FFTW with any planning effort"
        C38/simulation/backend-independent    end-to-end pipelines (plane-wave exit wave, HRTEM image, diffraction pattern,
                                              STEM scan with annular + pixelated detector, PRISM S-matrix scan, CBED
                                              thickness series, real-space multislice) under the case configuration vs. the
                                              same pipeline under fft=numpy at the same precision
  (b) "... measurement transforms give the same results ..."
        C38/transform/backend-independent     diffraction_patterns, downsample, apply_ctf, reciprocal/real round trip,
                                              Images.interpolate, fft_interpolate (2-D, 3-D, batched), antialias band-limit,
                                              Fresnel propagation (CachedFFTWConvolution path), fft_shift on synthetic
                                              NumPy-generated data, eager and lazy
  (c) "double-precision runs agree with single-precision runs to single-precision accuracy"
        C38/simulation/double-vs-single, C38/transform/double-vs-single
  kernel contracts named by the design (oracle: NumPy's pocketfft in complex128 on the same data)
        C38/kernel/matches-numpy              fft2, ifft2, fftn/ifftn over all axes of a 3-D array, fft2_convolve on
                                              NumPy and dask inputs, batch axes, odd/even/degenerate shapes
        C38/kernel/fftn-axes                  fftn/ifftn with `axes` omitted (3-D input) or a proper subset of the axes of a
                                              4-D input — the contract `result == np.fft.<name>(x, axes=...)`
        C38/kernel/cached-convolution         one CachedFFTWConvolution object called on a history of arrays (new array of
                                              the same shape with overwrite_x=True, other shape, other dtype)
        C38/kernel/frame                      overwrite_x=False leaves the input bitwise unchanged

The `history` axis first runs the same computation under another precision / backend in the same process and discards
it, so that plan caches and FFTW wisdom created under one configuration are present when the configuration under test
runs (reuse after mutation of the configuration).
"""

import math

import numpy as np

from vlib.hx import Res, rng_for, tiny_atoms

PROPERTY = "C38"
RULE = ("'kernel': full product {function x backend x precision} plus a pairwise covering array over {backend, planning "
        "effort, precision, history (none / other precision first / other backend first), function, shape (odd / even / "
        "degenerate), batch, input kind (numpy, dask blocks, later member of a stack), overwrite_x}; 'sim' and 'transform': "
        "full product {pipeline or transform x precision x planning effort}, every case runs fftw AND numpy at that "
        "precision plus one backend at the other precision; lazy, grid, structure, batch, history seeded (thorough: plus "
        "pairwise covering arrays). Data and structures from the case seed. Non-trivial = reference output not zero; "
        "distinct = distinct case dicts")
BOUNDS = {
    "fft": ["numpy", "fftw"],
    "planning_effort": {"quick": ["FFTW_ESTIMATE", "FFTW_MEASURE", "FFTW_PATIENT"],
                        "thorough": ["FFTW_ESTIMATE", "FFTW_MEASURE", "FFTW_PATIENT", "FFTW_EXHAUSTIVE"]},
    "precision": ["float32", "float64"],
    "shapes": [[16, 16], [15, 15], [16, 15], [9, 20], [1, 1], [1, 7], [2, 2], [12, 1], [32, 30]],
    "sim_gpts": [[16, 16], [15, 18], [20, 17]],
    "extra_random": {"quick": {"kernel": 8, "sim": 4, "transform": 6}, "thorough": {"kernel": 300, "sim": 120, "transform": 200}},
}
EXHAUSTIVE = False
TOL = {"float32": 2e-5, "float64": 1e-10}
TOL_SD = 1e-4
ASSUMPTIONS = [
    f"backend comparison: max|a-b| <= tol*max|b| with tol {TOL} for the configured precision (observed 1e-6 / 2e-15)",
    f"double vs single: max|a32-a64| <= {TOL_SD}*max|a64| (observed 1e-6 on these sizes)",
    "kernel oracle: np.fft in complex128 on the same data; NumPy and FFTW libraries themselves are trusted",
    "kernel inputs are restricted to what abTEM's own call sites produce: complex arrays of the configured precision, "
    "C-contiguous NumPy arrays or dask arrays chunked over batch axes (real-valued or strided inputs with "
    "overwrite_x=True are outside this domain)",
    "frozen phonons are excluded (random displacements; eager frozen-phonon runs are affected by the C01/C02 finding)",
]
CONTRACTS = [
    "abtem/core/fft.py:_fft_dispatch", "abtem/core/fft.py:_fftw_dispatch", "abtem/core/fft.py:get_fftw_object",
    "abtem/core/fft.py:fft2", "abtem/core/fft.py:ifft2", "abtem/core/fft.py:fftn", "abtem/core/fft.py:ifftn",
    "abtem/core/fft.py:fft2_convolve", "abtem/core/fft.py:CachedFFTWConvolution.__call__",
    "abtem/core/fft.py:fft_interpolate", "abtem/core/utils.py:get_dtype", "abtem/multislice.py:FresnelPropagator.propagate",
    "abtem/multislice.py:multislice_and_detect", "abtem/waves.py:Waves.diffraction_patterns", "abtem/waves.py:Waves.apply_ctf",
    "abtem/measurements.py:Images.interpolate",
]

_KERNELS = ["fft2", "ifft2", "fftn_all", "ifftn_all", "fft2_convolve", "fft2_convolve_realkernel", "fftn_noaxes",
            "fftn_subaxes", "ifftn_subaxes", "cached_convolution"]
_PIPELINES_Q = ["exit", "hrtem", "diffraction", "stem", "prism", "cbed_series"]
_TRANSFORMS = ["diffraction_patterns", "downsample", "apply_ctf", "reciprocal_roundtrip", "images_interpolate",
               "fft_interpolate_3d", "bandlimit", "propagate", "fft_shift", "member_in_place"]


def _fill(rows, axes, r):
    """complete partial rows with seeded random values for the axes they do not fix"""
    out = []
    for row in rows:
        full = dict(row)
        for k, vals in axes.items():
            if k not in full:
                full[k] = vals[int(r.integers(len(vals)))]
        out.append(full)
    return out


def cases(tier, seed):
    import itertools

    from vlib.hx import covering

    efforts = BOUNDS["planning_effort"][tier]
    extra = BOUNDS["extra_random"][tier]
    hist = ["none", "other_precision", "other_backend"]

    # ---- kernels: full product kernel x backend x precision, the remaining axes pairwise + seeded
    axes = dict(fft=BOUNDS["fft"], effort=efforts, precision=BOUNDS["precision"], history=hist, kernel=_KERNELS,
                shape=list(range(len(BOUNDS["shapes"]))), batch=[0, 1, 3], input=["numpy", "dask", "view"],
                overwrite_x=[False, True])
    rows = [dict(kernel=k, fft=f, precision=p) for k, f, p in itertools.product(_KERNELS, BOUNDS["fft"], BOUNDS["precision"])]
    rows = _fill(rows, axes, rng_for(seed, "kernel-fill")) + covering(axes, seed=seed + 21, extra_random=extra["kernel"])
    # the alignment corner: later member of an odd-sized single-precision stack, transformed in place
    rows += [dict(fft=f, effort="FFTW_MEASURE", precision="float32", history="none", kernel=k, shape=1, batch=3,
                  input="view", overwrite_x=True) for f in BOUNDS["fft"] for k in ("fft2", "fft2_convolve")]
    for i, row in enumerate(rows):
        r = rng_for(seed, "kernel", i)
        yield dict(mode="kernel", fft=row["fft"], effort=row["effort"], precision=row["precision"], history=row["history"],
                   kernel=row["kernel"], shape=list(BOUNDS["shapes"][row["shape"]]), batch=row["batch"], input=row["input"],
                   overwrite_x=row["overwrite_x"], seed=int(r.integers(1 << 30)))

    # ---- simulations: every pipeline x precision x planning effort (each case runs BOTH backends)
    pipes = _PIPELINES_Q + ["realspace"]
    axes = dict(pipeline=pipes, precision=BOUNDS["precision"], effort=efforts, history=hist, lazy=[False, True],
                gpts=[0, 1, 2], structure=["si", "two", "random"], sd_backend=BOUNDS["fft"])
    prod_pipes = _PIPELINES_Q if tier == "quick" else pipes
    rows = [dict(pipeline=a, precision=b, effort=c) for a, b, c in itertools.product(prod_pipes, BOUNDS["precision"], efforts)]
    rows = _fill(rows, axes, rng_for(seed, "sim-fill"))
    if tier == "quick":  # the real-space path costs a numba compilation per run: two cases only
        rows += _fill([dict(pipeline="realspace", precision=p, effort="FFTW_MEASURE", lazy=False, gpts=0, structure="two")
                       for p in BOUNDS["precision"]], axes, rng_for(seed, "sim-fill-rs"))
    else:
        rows += covering(axes, seed=seed + 22, extra_random=extra["sim"])
    for i, row in enumerate(rows):
        r = rng_for(seed, "sim", i)
        yield dict(mode="sim", effort=row["effort"], precision=row["precision"], history=row["history"],
                   sd_backend=row["sd_backend"], pipeline=row["pipeline"], lazy=row["lazy"],
                   gpts=list(BOUNDS["sim_gpts"][row["gpts"]]), structure=row["structure"],
                   energy=float(round(r.uniform(6e4, 2e5), 1)), size=float(round(r.uniform(3.6, 4.4), 3)),
                   height=float(round(r.uniform(2.0, 4.0), 3)), slice_thickness=float(round(r.uniform(0.5, 1.5), 3)),
                   seed=int(r.integers(1 << 30)))

    # ---- measurement / wave transforms: every transform x precision x effort (both backends per case)
    axes = dict(transform=_TRANSFORMS, precision=BOUNDS["precision"], effort=efforts, history=hist, gpts=[0, 1, 2, 3],
                batch=[0, 2, 3], lazy=[False, True], sd_backend=BOUNDS["fft"])
    rows = [dict(transform=a, precision=b, effort=c) for a, b, c in itertools.product(_TRANSFORMS, BOUNDS["precision"], efforts)]
    rows = _fill(rows, axes, rng_for(seed, "transform-fill"))
    if tier != "quick":
        rows += covering(axes, seed=seed + 23, extra_random=extra["transform"])
    for i, row in enumerate(rows):
        r = rng_for(seed, "transform", i)
        yield dict(mode="transform", effort=row["effort"], precision=row["precision"], history=row["history"],
                   sd_backend=row["sd_backend"], transform=row["transform"], gpts=list(BOUNDS["shapes"][row["gpts"]]),
                   batch=row["batch"], lazy=row["lazy"], energy=float(round(r.uniform(6e4, 3e5), 1)),
                   sampling=float(round(r.uniform(0.05, 0.2), 4)), seed=int(r.integers(1 << 30)))


# ----------------------------------------------------------------------------------------- helpers


def _cfg(fft, effort, precision):
    return {"fft": fft, "fftw.planning_effort": effort, "precision": precision}


def _other(p):
    return "float64" if p == "float32" else "float32"


def _cdtype(precision):
    return np.complex64 if precision == "float32" else np.complex128


def _rdtype(precision):
    return np.float32 if precision == "float32" else np.float64


def _relerr(a, b):
    a = np.asarray(a)
    b = np.asarray(b)
    if a.shape != b.shape:
        return float("inf"), f"shape {a.shape} != {b.shape}"
    if a.size == 0:
        return 0.0, "empty"
    a = a.astype(np.complex128)
    b = b.astype(np.complex128)
    if not (np.all(np.isfinite(a)) and np.all(np.isfinite(b))):
        return float("inf"), "non-finite values"
    scale = float(np.abs(b).max())
    err = float(np.abs(a - b).max())
    return (err / scale if scale > 0 else (0.0 if err == 0 else float("inf"))), f"max|a-b|={err:.3e}, max|b|={scale:.3e}"


def _compare(outs_a, outs_b, tol):
    if len(outs_a) != len(outs_b):
        return False, f"{len(outs_a)} outputs vs {len(outs_b)}", False
    ok, parts, nt = True, [], False
    for k, (a, b) in enumerate(zip(outs_a, outs_b)):
        e, d = _relerr(a, b)
        ok = ok and e <= tol
        bb = np.asarray(b)
        nt = nt or (bb.size > 0 and float(np.abs(bb).max()) > 0)
        parts.append(f"out{k} {np.asarray(a).dtype}/{bb.dtype} rel={e:.3e} ({d})")
    return ok, "; ".join(parts) + f" [tol {tol:g}]", nt


def _materialize(r):
    xs = r if isinstance(r, (list, tuple)) else [r]
    out = []
    for x in xs:
        if getattr(x, "is_lazy", False):
            x = x.compute(scheduler="synchronous", progress_bar=False)
        out.append(np.array(x.array if hasattr(x, "array") else x))
    return out


# ----------------------------------------------------------------------------------------- kernels


def _kernel_data(case, precision):
    rng = rng_for(case["seed"], "kernel-data")
    shape = tuple(case["shape"])
    k = case["kernel"]
    if k in ("fftn_all", "ifftn_all", "fftn_noaxes"):
        full = (max(2, case["batch"] + 2),) + shape  # a 3-D block, all axes transformed
    elif k in ("fftn_subaxes", "ifftn_subaxes"):
        full = (2, 3) + shape  # 4-D, axes (1,2,3) transformed
    else:
        full = ((case["batch"],) if case["batch"] else ()) + shape
    x = (rng.normal(size=full) + 1j * rng.normal(size=full))
    ker = rng.normal(size=shape) + (0 if k == "fft2_convolve_realkernel" else 1j * rng.normal(size=shape))
    return x.astype(_cdtype(precision)), ker.astype(_rdtype(precision) if k == "fft2_convolve_realkernel" else _cdtype(precision))


def _kernel_ref(case, x, ker):
    x = x.astype(np.complex128)
    k = case["kernel"]
    if k == "fft2":
        return np.fft.fft2(x)
    if k == "ifft2":
        return np.fft.ifft2(x)
    if k in ("fftn_all", "fftn_noaxes"):
        return np.fft.fftn(x)
    if k == "ifftn_all":
        return np.fft.ifftn(x)
    if k == "fftn_subaxes":
        return np.fft.fftn(x, axes=(1, 2, 3))
    if k == "ifftn_subaxes":
        return np.fft.ifftn(x, axes=(1, 2, 3))
    return np.fft.ifft2(np.fft.fft2(x) * ker.astype(np.complex128))


def _kernel_call(case, x, ker):
    import dask.array as da

    from abtem.core import fft as F

    k = case["kernel"]
    arg = x
    if case["input"] == "view":
        # the way abTEM hands ensemble members around: a later member of a larger stack (a view whose byte offset is a
        # multiple of the item size only)
        stack = np.empty((2,) + x.shape, x.dtype)
        stack[1] = x
        arg = stack[1]
    if case["input"] == "dask" and k != "cached_convolution":
        if k in ("fft2", "ifft2", "fft2_convolve", "fft2_convolve_realkernel") and x.ndim > 2:
            arg = da.from_array(x, chunks=(1,) * (x.ndim - 2) + (-1, -1))
        else:
            arg = da.from_array(x, chunks=-1)
    ow = case["overwrite_x"]
    if k == "fft2":
        r = F.fft2(arg, overwrite_x=ow)
    elif k == "ifft2":
        r = F.ifft2(arg, overwrite_x=ow)
    elif k == "fftn_all":
        r = F.fftn(arg, overwrite_x=ow, axes=tuple(range(x.ndim)))
    elif k == "ifftn_all":
        r = F.ifftn(arg, overwrite_x=ow, axes=tuple(range(x.ndim)))
    elif k == "fftn_noaxes":
        r = F.fftn(arg, overwrite_x=ow)
    elif k == "fftn_subaxes":
        r = F.fftn(arg, overwrite_x=ow, axes=(1, 2, 3))
    elif k == "ifftn_subaxes":
        r = F.ifftn(arg, overwrite_x=ow, axes=(1, 2, 3))
    else:
        r = F.fft2_convolve(arg, ker, overwrite_x=ow)
    if hasattr(r, "compute"):
        r = r.compute(scheduler="synchronous")
    return np.asarray(r)


def _run_cached_convolution(case, out):
    """one CachedFFTWConvolution object, a history of calls; each result vs NumPy"""
    from abtem.core.fft import CachedFFTWConvolution

    rng = rng_for(case["seed"], "cached")
    shape = tuple(case["shape"])
    lead = (case["batch"],) if case["batch"] else ()
    dt, dto = _cdtype(case["precision"]), _cdtype(_other(case["precision"]))
    other_shape = lead + (shape[0] + 1, shape[1] + 2)
    plan = [(lead + shape, dt, False), (lead + shape, dt, True), (lead + shape, dt, True), (other_shape, dt, False),
            (lead + shape, dt, True), (lead + shape, dto, False), (lead + shape, dt, case["overwrite_x"])]
    conv = CachedFFTWConvolution()
    worst, worst_at, frame_ok = 0.0, None, True
    for step, (shp, d, ow) in enumerate(plan):
        x = (rng.normal(size=shp) + 1j * rng.normal(size=shp)).astype(d)
        ker = (rng.normal(size=shp[-2:]) + 1j * rng.normal(size=shp[-2:])).astype(d)
        ref = np.fft.ifft2(np.fft.fft2(x.astype(np.complex128)) * ker.astype(np.complex128))
        x_in = x.copy()
        r = conv(x_in, ker, overwrite_x=ow)
        e, _ = _relerr(r, ref)
        lim = TOL["float32"] if d == np.complex64 else TOL["float64"]
        if e / lim > worst:
            worst, worst_at = e / lim, (step, shp, np.dtype(d).name, ow, e)
        if not ow:
            frame_ok = frame_ok and bool(np.array_equal(x_in, x))
    out.append(Res("C38/kernel/cached-convolution", worst <= 1.0,
                   f"history of {len(plan)} calls on one CachedFFTWConvolution: worst error/tolerance = {worst:.3g} at "
                   f"(step, shape, dtype, overwrite_x, rel.err) = {worst_at}", True))
    out.append(Res("C38/kernel/frame", frame_ok, "overwrite_x=False call modified its input array", True))


def _run_kernel(case):
    import abtem

    out = []
    cfg = _cfg(case["fft"], case["effort"], case["precision"])
    if case["history"] != "none":
        hp = _other(case["precision"]) if case["history"] == "other_precision" else case["precision"]
        hf = ("numpy" if case["fft"] == "fftw" else "fftw") if case["history"] == "other_backend" else case["fft"]
        with abtem.config.set(_cfg(hf, "FFTW_ESTIMATE", hp)):
            if case["kernel"] == "cached_convolution":
                _run_cached_convolution(dict(case, precision=hp), [])
            else:
                xh, kh = _kernel_data(case, hp)
                _kernel_call(case, xh, kh)
    with abtem.config.set(cfg):
        if case["kernel"] == "cached_convolution":
            _run_cached_convolution(case, out)
            return out
        x, ker = _kernel_data(case, case["precision"])
        ref = _kernel_ref(case, x, ker)
        x_in = x.copy()
        r = _kernel_call(case, x_in, ker)
        e, d = _relerr(r, ref)
        ob = "C38/kernel/fftn-axes" if case["kernel"] in ("fftn_noaxes", "fftn_subaxes", "ifftn_subaxes") else "C38/kernel/matches-numpy"
        tol = TOL[case["precision"]]
        out.append(Res(ob, e <= tol,
                       f"{case['kernel']} on {case['input']} array {x.shape} {x.dtype}, overwrite_x={case['overwrite_x']}, "
                       f"config {cfg}: rel.err vs np.fft (complex128) = {e:.3e} ({d}) [tol {tol:g}]; result dtype {r.dtype}",
                       x.size > 1))
        if not case["overwrite_x"]:
            out.append(Res("C38/kernel/frame", bool(np.array_equal(x_in, x)),
                           f"{case['kernel']} with overwrite_x=False modified its input", True))
    return out


# ----------------------------------------------------------------------------------------- simulations


def _pipeline(case):
    import abtem
    from abtem.core.energy import energy2wavelength

    gpts, E, size = tuple(case["gpts"]), case["energy"], case["size"]
    rng = rng_for(case["seed"], "sim")
    atoms = tiny_atoms(case["structure"], size=size, height=case["height"], seed=case["seed"] % 1000)
    name = case["pipeline"]
    lazy = case["lazy"]
    pot = abtem.Potential(atoms, gpts=gpts, slice_thickness=case["slice_thickness"], projection="infinite",
                          exit_planes=1 if name == "cbed_series" else None)
    amax = float(energy2wavelength(E)) * (min(gpts) / (2 * size)) * (2 / 3) * 1e3  # mrad, inside the antialias aperture
    pos = rng.uniform(0, size, (3, 2))
    if name == "exit":
        r = abtem.PlaneWave(energy=E, tilt=(float(rng.uniform(-5, 5)), 0.0)).multislice(pot, lazy=lazy)
    elif name == "hrtem":
        r = abtem.PlaneWave(energy=E).multislice(pot, lazy=lazy).apply_ctf(
            defocus=float(rng.uniform(-100, 100)), Cs=float(rng.uniform(0, 2e5)), semiangle_cutoff=0.9 * amax).intensity()
    elif name == "diffraction":
        r = abtem.PlaneWave(energy=E).multislice(pot, lazy=lazy).diffraction_patterns(max_angle="valid")
    elif name == "stem":
        probe = abtem.Probe(energy=E, semiangle_cutoff=0.5 * amax, defocus=float(rng.uniform(-50, 50)))
        scan = abtem.GridScan(start=(0, 0), end=(size * 0.6, size * 0.5), gpts=(3, 2))
        r = probe.scan(pot, scan=scan, lazy=lazy, max_batch=4,
                       detectors=[abtem.AnnularDetector(inner=0.3 * amax, outer=0.85 * amax),
                                  abtem.PixelatedDetector(max_angle="valid")])
    elif name == "prism":
        s = abtem.SMatrix(potential=pot, energy=E, semiangle_cutoff=0.6 * amax, interpolation=1)
        scan = abtem.GridScan(start=(0, 0), end=(size * 0.6, size * 0.5), gpts=(3, 2))
        r = s.scan(scan=scan, detectors=abtem.AnnularDetector(inner=0.3 * amax, outer=0.85 * amax), lazy=lazy)
    elif name == "cbed_series":
        probe = abtem.Probe(energy=E, semiangle_cutoff=0.5 * amax)
        r = probe.multislice(pot, scan=abtem.CustomScan(pos), lazy=lazy, max_batch=2).diffraction_patterns(max_angle="cutoff")
    else:  # real-space multislice: FFTs only in the antialiasing band limit
        from abtem.multislice import RealSpaceMultislice

        r = abtem.PlaneWave(energy=max(E, 1e5)).multislice(
            pot, lazy=lazy, algorithm=RealSpaceMultislice(order=1, derivative_accuracy=4))
    return _materialize(r)


# ----------------------------------------------------------------------------------------- transforms


def _transform(case, precision):
    import abtem
    from abtem.core.axes import OrdinalAxis

    rng = rng_for(case["seed"], "transform")
    gpts = tuple(case["gpts"])
    lead = (case["batch"],) if case["batch"] else ()
    md = [OrdinalAxis(values=tuple(range(case["batch"])))] if case["batch"] else []
    samp, E, name = case["sampling"], case["energy"], case["transform"]
    z = rng.normal(size=lead + gpts) + 1j * rng.normal(size=lead + gpts)
    re = rng.normal(size=lead + gpts)
    lazy = case["lazy"]

    def waves():
        w = abtem.Waves(z.astype(_cdtype(precision)), energy=E, sampling=samp, ensemble_axes_metadata=md)
        return w.ensure_lazy(chunks=((1,) * len(lead)) + (-1, -1)) if lazy else w

    if name == "diffraction_patterns":
        w = waves()
        outs = [w.diffraction_patterns(max_angle=None, fftshift=True)]
        if min(gpts) >= 9:
            outs += [w.diffraction_patterns(max_angle="cutoff"), w.diffraction_patterns(max_angle="valid", fftshift=False)]
        return _materialize(outs)
    if name == "downsample":
        if min(gpts) < 9:
            return _materialize([waves().intensity()])
        w = waves()
        first = w.downsample(max_angle="valid")
        # the waves that were down-sampled are used again afterwards (measured, down-sampled a second time): whatever the
        # backend did with its buffers, they still hold the same wave function
        return _materialize([first, waves().downsample(max_angle="cutoff", normalization="amplitude"), w.intensity(),
                             w.downsample(max_angle="cutoff")])
    if name == "apply_ctf":
        return _materialize([waves().apply_ctf(defocus=float(rng.uniform(-200, 200)), Cs=float(rng.uniform(-1e5, 1e5)),
                                               semiangle_cutoff=float(rng.uniform(5, 30)), soft=False)])
    if name == "reciprocal_roundtrip":
        k = waves().ensure_reciprocal_space()
        return _materialize([k, k.ensure_real_space()])
    if name == "images_interpolate":
        im = abtem.Images(re.astype(_rdtype(precision)), sampling=samp, ensemble_axes_metadata=md)
        if lazy:
            im = im.ensure_lazy(chunks=((1,) * len(lead)) + (-1, -1))
        up = (gpts[0] + 5, gpts[1] * 2)
        down = (max(1, gpts[0] // 2), max(1, gpts[1] - 3))
        return _materialize([im.interpolate(gpts=up), im.interpolate(gpts=down, normalization="intensity")])
    if name == "fft_interpolate_3d":
        from abtem.core.fft import fft_interpolate

        nz = 6
        v = rng.normal(size=lead + (nz,) + gpts).astype(_rdtype(precision))
        new = (nz + 3, gpts[0] + 2, max(1, gpts[1] - 1))
        return [np.asarray(fft_interpolate(v, new)), np.asarray(fft_interpolate(v.astype(_cdtype(precision)), new[1:], normalization="amplitude"))]
    if name == "bandlimit":
        from abtem.antialias import AntialiasAperture

        w = waves()
        return _materialize([AntialiasAperture().bandlimit(w, in_place=False)])
    if name == "propagate":
        from abtem.multislice import FresnelPropagator

        p = FresnelPropagator()
        w = abtem.Waves(z.astype(_cdtype(precision)), energy=E, sampling=samp, ensemble_axes_metadata=md)
        w1 = p.propagate(w, 1.7, in_place=False, order=1)
        a1 = np.array(w1.array)
        w2 = abtem.Waves(np.conj(z).astype(_cdtype(precision)), energy=E, sampling=samp, ensemble_axes_metadata=md)
        w2 = p.propagate(w2, 1.7, in_place=True, order=1)  # same propagator object, new array, in place
        w3 = p.propagate(w2, -0.6, in_place=True, order=2)
        return [a1, np.array(w3.array)]
    if name == "member_in_place":
        # second member of an eager ensemble, transformed with the public in-place switches
        from abtem.multislice import FresnelPropagator

        nb = max(case["batch"], 2)
        zz = (rng.normal(size=(nb,) + gpts) + 1j * rng.normal(size=(nb,) + gpts)).astype(_cdtype(precision))
        ens = abtem.Waves(zz.copy(), energy=E, sampling=samp, ensemble_axes_metadata=[OrdinalAxis(values=tuple(range(nb)))])
        k = ens[1].ensure_reciprocal_space(overwrite_x=True)
        ens2 = abtem.Waves(zz.copy(), energy=E, sampling=samp, ensemble_axes_metadata=[OrdinalAxis(values=tuple(range(nb)))])
        pr = FresnelPropagator().propagate(ens2[nb - 1], 2.1, in_place=True)
        return [np.array(k.array), np.array(pr.array)]
    # fft_shift
    from abtem.core.fft import fft_shift

    posn = rng.uniform(-3, 3, 2)
    return [np.asarray(fft_shift(z.astype(_cdtype(precision)), posn))]


# ----------------------------------------------------------------------------------------- run


def _run_cross_config(case, family, fn):
    """fn(precision) -> list of arrays, evaluated under the active abTEM configuration.
    Runs fftw and numpy at the case precision, and one backend at the other precision."""
    import abtem

    eff, prec = case["effort"], case["precision"]
    if case["history"] != "none":
        hp = _other(prec) if case["history"] == "other_precision" else prec
        hf = "numpy" if case["history"] == "other_backend" else "fftw"
        with abtem.config.set(_cfg(hf, "FFTW_ESTIMATE", hp)):
            fn(hp)
    with abtem.config.set(_cfg("fftw", eff, prec)):
        got = fn(prec)
    with abtem.config.set(_cfg("numpy", eff, prec)):
        ref = fn(prec)
    what = case.get("pipeline") or case.get("transform")
    ok, detail, nt = _compare(got, ref, TOL[prec])
    out = [Res(f"C38/{family}/backend-independent", ok,
               f"{what}: fft=fftw/{eff} vs fft=numpy, both precision={prec} (history {case['history']}): {detail}", nt)]
    sdb = case["sd_backend"]
    with abtem.config.set(_cfg(sdb, eff, _other(prec))):
        alt = fn(_other(prec))
    same = got if sdb == "fftw" else ref
    a32, a64 = (same, alt) if prec == "float32" else (alt, same)
    ok, detail, nt = _compare(a32, a64, TOL_SD)
    out.append(Res(f"C38/{family}/double-vs-single", ok,
                   f"{what}, fft={sdb}/{eff}: float32 run vs float64 run: {detail}", nt))
    return out


def run_case(case):
    if case["mode"] == "kernel":
        return _run_kernel(case)
    if case["mode"] == "sim":
        return _run_cross_config(case, "simulation", lambda prec: _pipeline(case))
    return _run_cross_config(case, "transform", lambda prec: _transform(case, prec))
