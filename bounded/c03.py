"""C03 — parameter ensembles decompose into individual simulations (bounded stand-in: run-time contract).

Relational contract on every place where a simulation parameter may be given as a distribution
(CTF / Aberrations / Aperture / TemporalEnvelope / SpatialEnvelope applied to waves, Probe and PlaneWave builders with
aberration, aperture, tilt and scan-position ensembles, followed by build / multislice / detection):

  member          result[i1..ik]  ==  the same simulation run with the scalar values (v1[i1], .., vk[ik])
                  (unit-weight distributions: arrays, lists, from_values, uniform)
  weighted-member for distributions with non-unit weights w: result[i..] == f * scalar run, f in {1, prod w}
                  (the statement does not say whether a member carries its weight; both readings are accepted)
  axes-values     the ensemble axes metadata of the result contain, for every distribution, exactly one axis that lists
                  exactly the distribution's values in order (the `defocus` alias is listed as C10 = -defocus); the
                  member clause reads the axis order from this metadata, so a metadata/array axis mismatch fails `member`
  mean-uniform    ensemble_mean axes with unit weights: result == arithmetic mean of the scalar-run measurements over the
                  averaged axes (kept axes stay, in order)
  mean-weighted   ensemble_mean axes with non-uniform weights: result == sum_i om_i S_i / N with om in {w, w^2} and
                  N in {sum om, n, 1}  -- every normalisation convention that could be meant by "the weighted mean the
                  distribution defines" is accepted; a result that ignores the weights matches none of them
Oracle: independent scalar runs of the real code (one per member) combined with NumPy; values / weights are those of the
distribution objects handed in (np.linspace for `uniform`).
"""

import itertools

import numpy as np

from vlib.hx import Res, covering, rng_for, tiny_atoms

PROPERTY = "C03"
RULE = ("(a) every one of the 25 polar coefficients and 25 aliases, angular_spread, focal_spread, semiangle_cutoff as a "
        "single CTF ensemble axis (value forms rotated: ndarray/list/from_values/uniform/gaussian); (b) seeded 2-4 axis "
        "CTF ensembles and stand-alone Aperture/TemporalEnvelope/SpatialEnvelope/Aberrations transforms, eager and lazy "
        "input with a leading stack axis; (c) covering array over Probe ensembles {aberrations x aperture x tilt form x "
        "scan kind x lazy/max_batch x build|multislice}; (d) PlaneWave tilt forms through a potential; (e) chains "
        "tilt ensemble -> CTF ensemble -> second multislice; (f) ensemble_mean with unit and non-uniform weights on "
        "every path. non-trivial = members differ from each other by > 100x tolerance; distinct = distinct case dict")
BOUNDS = {"grids": [[16, 18], [15, 15], [12, 20]], "axis_lengths": [2, 5], "ensemble_axes": [1, 5], "energy_eV": [6e4, 3e5],
          "tilt_mrad": [-40, 40], "slices": [2, 5],
          "cases": {"quick": {"ctf-single": 53, "ctf-multi": 60, "transform": 22, "probe": "2 covering arrays + 20",
                              "planewave": 16, "chain": 20, "ensemble_mean": 23},
                    "thorough": {"ctf-single": 212, "ctf-multi": 600, "transform": 88, "probe": "12 covering arrays + 20",
                                 "planewave": 64, "chain": 80, "ensemble_mean": 92}}}
EXHAUSTIVE = False
ASSUMPTIONS = [
    "float32 pipeline: max abs deviation <= 2e-5 * max|reference| counts as equal (observed <= 5e-7)",
    "axis values are compared with rel. tol 1e-9 (float64 values) or 2e-6 (float32 scan positions)",
    "weights: see mean-weighted / weighted-member above -- all defensible conventions accepted",
]
CONTRACTS = ["abtem/distributions.py:_unpack_distributions", "abtem/distributions.py:EnsembleFromDistributions._partition_args",
             "abtem/distributions.py:EnsembleFromDistributions._partial_transform", "abtem/transfer.py:CTF._evaluate_from_angular_grid",
             "abtem/transfer.py:Aberrations._evaluate_from_angular_grid", "abtem/transfer.py:Aperture._evaluate_from_angular_grid",
             "abtem/transfer.py:SpatialEnvelope._evaluate_from_angular_grid", "abtem/transfer.py:TemporalEnvelope._evaluate_from_angular_grid",
             "abtem/waves.py:Probe._calculate_array", "abtem/waves.py:WavesBuilder._build_validated", "abtem/waves.py:PlaneWave._calculate_array",
             "abtem/tilt.py:BeamTilt", "abtem/tilt.py:BeamTilt2D", "abtem/multislice.py:FresnelPropagator._calculate_array",
             "abtem/scan.py:BaseScan._evaluate_kernel", "abtem/measurements.py:BaseMeasurements.reduce_ensemble"]

POLAR = ["C10", "C30", "C50", "C12", "phi12", "C32", "phi32", "C52", "phi52", "C21", "phi21", "C41", "phi41", "C23", "phi23",
         "C43", "phi43", "C34", "phi34", "C54", "phi54", "C45", "phi45", "C56", "phi56"]
ALIASES = {"defocus": ("C10", -1.0), "Cs": ("C30", 1.0), "C5": ("C50", 1.0), "astigmatism": ("C12", 1.0),
           "astigmatism_angle": ("phi12", 1.0), "astigmatism3": ("C32", 1.0), "astigmatism3_angle": ("phi32", 1.0),
           "astigmatism5": ("C52", 1.0), "astigmatism5_angle": ("phi52", 1.0), "coma": ("C21", 1.0), "coma_angle": ("phi21", 1.0),
           "coma4": ("C41", 1.0), "coma4_angle": ("phi41", 1.0), "trefoil": ("C23", 1.0), "trefoil_angle": ("phi23", 1.0),
           "trefoil4": ("C43", 1.0), "trefoil4_angle": ("phi43", 1.0), "quadrafoil": ("C34", 1.0), "quadrafoil_angle": ("phi34", 1.0),
           "quadrafoil5": ("C54", 1.0), "quadrafoil5_angle": ("phi54", 1.0), "pentafoil": ("C45", 1.0), "pentafoil_angle": ("phi45", 1.0),
           "hexafoil": ("C56", 1.0), "hexafoil_angle": ("phi56", 1.0)}
MAG = {1: 60.0, 2: 600.0, 3: 6e4, 4: 6e5, 5: 5e7}
GRIDS = [((16, 18), (8.0, 9.0)), ((15, 15), (7.5, 7.5)), ((12, 20), (6.0, 10.0))]
FORMS = ["array", "list", "from_values", "uniform"]
TOL = 2e-5


def _symbol(name):
    return ALIASES.get(name, (name, 1.0))[0]


def _values(r, name, n):
    sym = _symbol(name)
    if sym.startswith("phi"):
        v = r.uniform(-3.0, 3.0, n)
    elif sym.startswith("C") and sym in POLAR:
        v = r.uniform(-1.0, 1.0, n) * MAG[int(sym[1])]
    elif name == "angular_spread":
        v = r.uniform(0.3, 3.0, n)
    elif name == "focal_spread":
        v = r.uniform(5.0, 60.0, n)
    elif name == "semiangle_cutoff":
        v = r.uniform(10.0, 34.0, n)
    else:  # tilt
        v = r.uniform(-40.0, 40.0, n)
    return [float(x) for x in v]


def _dspec(r, name, n, form="array", weighted=False, mean=False):
    if form == "uniform":
        v = sorted(_values(r, name, 2))
        return {"form": "uniform", "low": v[0], "high": v[1], "n": n, "endpoint": bool(r.integers(2)), "ensemble_mean": mean}
    if form == "gaussian":
        v = _values(r, name, 2)
        std = abs(v[0] - v[1]) / 8 + 1e-3 * (abs(v[0]) + 1e-3)
        if name in ("angular_spread", "focal_spread", "semiangle_cutoff"):  # keep every sample positive
            std = min(std, 0.1 * abs(v[0]))
        return {"form": "gaussian", "std": float(std), "center": v[0], "n": n, "limit": float(r.uniform(1.5, 3.0)),
                "normalize": ["intensity", "amplitude"][int(r.integers(2))], "ensemble_mean": mean}
    s = {"form": form if not (weighted or mean) else "from_values", "values": _values(r, name, n), "ensemble_mean": mean}
    if weighted:
        s["weights"] = [float(x) for x in r.uniform(0.15, 1.0, n)]
    return s


def _companions(names):
    """scalar base values so that a varied angle has a non-zero magnitude to act on"""
    base = {}
    for nm in names:
        sym = _symbol(nm)
        if sym.startswith("phi"):
            base["C" + sym[3:]] = MAG[int(sym[3])] * 0.7
    return base


def _lengths(r, k):
    if r.random() < 0.5:
        n = int(r.integers(2, 4))
        return [n] * k
    pool = [2, 3, 4, 5]
    r.shuffle(pool)
    return [pool[i % 4] for i in range(k)]


def _grid(r):
    gpts, extent = GRIDS[int(r.integers(len(GRIDS)))]
    return dict(gpts=list(gpts), extent=list(extent), energy=float(r.uniform(6e4, 3e5)))


def _ctf_case(r, names, forms=None, weighted=False, mean=None, family="ctf", cls="CTF", soft=True, extra=None):
    lens = _lengths(r, len(names))
    mean = mean or [False] * len(names)
    params = dict(_companions(names))
    if "semiangle_cutoff" not in names and cls in ("CTF",):
        params["semiangle_cutoff"] = float(r.uniform(25, 34))
    params.update(extra or {})
    for i, nm in enumerate(names):
        f = (forms or FORMS)[int(r.integers(len(forms or FORMS)))]
        params[nm] = _dspec(r, nm, lens[i], f, weighted=weighted and (mean[i] or not any(mean)), mean=mean[i])
    lz = int(r.integers(0, 4))
    return dict(family=family, cls=cls, soft=soft, params=params, stack=int([0, 0, 2][int(r.integers(3))]),
                lazy=bool(lz), max_batch=["auto", "auto", 1, 2][lz], wave_seed=int(r.integers(1 << 30)),
                weighted=weighted, averaged=any(mean), **_grid(r))


def _tilt_spec(r, mode, lens, weighted=False, mean=False):
    t = {"mode": mode, "ensemble_mean": mean}
    if mode == "scalar":
        t.update(x=float(r.uniform(-30, 30)), y=float(r.uniform(-30, 30)))
    elif mode == "xdist":
        t.update(x=_values(r, "tilt", lens[0]), y=float(r.uniform(-30, 30)))
    elif mode == "ydist":
        t.update(x=float(r.uniform(-30, 30)), y=_values(r, "tilt", lens[0]))
    elif mode == "xydist":
        t.update(x=_values(r, "tilt", lens[0]), y=_values(r, "tilt", lens[1]))
    else:
        t.update(pairs=[[a, b] for a, b in zip(_values(r, "tilt", lens[0]), _values(r, "tilt", lens[0]))])
    if weighted and mode != "scalar":
        t["weights"] = [float(x) for x in r.uniform(0.15, 1.0, lens[0])]
        if mode == "xydist":
            t["weights_y"] = [float(x) for x in r.uniform(0.15, 1.0, lens[1])]
    return t


def _scan_spec(r, kind, extent, small=False):
    if kind == "none":
        return {"mode": "single", "xy": [float(r.uniform(0, extent[0])), float(r.uniform(0, extent[1]))]}
    if kind == "list":
        n = 2 if small else int(r.integers(2, 4))
        return {"mode": "list", "xy": [[float(r.uniform(-2, extent[0] + 2)), float(r.uniform(0, extent[1]))] for _ in range(n)]}
    if kind == "line":
        return {"mode": "line", "start": [float(r.uniform(0, 3)), float(r.uniform(0, 3))],
                "end": [float(r.uniform(3, extent[0])), float(r.uniform(3.5, extent[1]))], "gpts": int(r.integers(2, 3 if small else 5)),
                "endpoint": bool(r.integers(2))}
    return {"mode": "grid", "start": [float(r.uniform(0, 2)), float(r.uniform(0, 2))],
            "end": [float(r.uniform(3, extent[0])), float(r.uniform(3, extent[1]))],
            "gpts": [int(r.integers(1, 3 if small else 4)), int(r.integers(2, 3 if small else 4))],
            "endpoint": [bool(r.integers(2)), bool(r.integers(2))]}


ABER_SETS = [[], ["defocus"], ["C30"], ["C12", "phi12"], ["Cs", "defocus"], ["coma"], ["C23", "C10"]]
TILT_MODES = ["scalar", "xdist", "ydist", "xydist", "pairs"]
SCANS = ["none", "list", "line", "grid"]
LAZY = [[False, "auto"], [True, "auto"], [True, 1], [True, 2], [True, 3]]


def _probe_case(r, sel, weighted=False, mean=False, run=None):
    g = _grid(r)
    names = list(ABER_SETS[sel["aber"]])
    ap_dist = bool(sel["aperture"])
    tmode = TILT_MODES[sel["tilt"]]
    k = len(names) + int(ap_dist) + {"scalar": 0, "xdist": 1, "ydist": 1, "xydist": 2, "pairs": 1}[tmode]
    lens = _lengths(r, max(k, 1) + 1)
    if k >= 3:  # keep the number of members (and scalar reference runs) small
        lens = [2 + int(i == int(r.integers(k))) for i in range(k + 1)]
    params = dict(_companions(names))
    for i, nm in enumerate(names):
        params[nm] = _dspec(r, nm, lens[i], FORMS[int(r.integers(3))], weighted=weighted, mean=mean)
    params["semiangle_cutoff"] = (_dspec(r, "semiangle_cutoff", lens[len(names)], "array", weighted=weighted, mean=mean)
                                  if ap_dist else float(r.uniform(18, 32)))
    if not names and r.random() < 0.5:
        params["defocus"] = float(r.uniform(-80, 80))
    tl = lens[len(names) + int(ap_dist):]
    lazy, mb = LAZY[sel["lazy"]]
    run = run or (["build", "multislice"][sel["run"]] if tmode == "scalar" else "multislice")
    return dict(family="probe", params=params, soft=bool(sel["soft"]), tilt=_tilt_spec(r, tmode, tl + tl, weighted, mean),
                scan=_scan_spec(r, SCANS[sel["scan"]], g["extent"], small=k >= 2), run=run, lazy=lazy, max_batch=mb,
                atoms=["si", "two", "random"][int(r.integers(3))], atoms_seed=int(r.integers(1000)),
                height=float(r.uniform(4.0, 9.0)), slice_thickness=float(r.uniform(1.5, 3.0)),
                weighted=weighted, averaged=mean, **g)


def _cases(tier, seed):
    thorough = tier == "thorough"
    reps = 4 if thorough else 1
    # (a) single-axis CTF ensembles: every coefficient, alias, spread, cutoff
    names = POLAR + list(ALIASES) + ["angular_spread", "focal_spread", "semiangle_cutoff"]
    for rep in range(reps):
        for i, nm in enumerate(names):
            r = rng_for(seed, "C03", "ctf1", rep, nm)
            yield _ctf_case(r, [nm], forms=[(FORMS + ["gaussian"])[(i + rep) % 5]] if (i + rep) % 5 < 4 else ["gaussian"],
                            weighted=(i + rep) % 5 == 4)
    # (b) multi-axis CTF ensembles and stand-alone transforms
    pool = POLAR + ["defocus", "Cs", "angular_spread", "focal_spread", "semiangle_cutoff", "angular_spread", "focal_spread",
                    "semiangle_cutoff"]
    n_multi = 60 if not thorough else 600
    for k in range(n_multi):
        r = rng_for(seed, "C03", "ctfN", k)
        cnt = [2, 2, 3, 4][k % 4]
        chosen = []
        while len(chosen) < cnt:
            nm = pool[int(r.integers(len(pool)))]
            if _symbol(nm) not in [_symbol(c) for c in chosen]:
                chosen.append(nm)
        extra = {}
        if "angular_spread" not in chosen and r.random() < 0.4:
            extra["angular_spread"] = float(r.uniform(0.3, 2.0))
        if "focal_spread" not in chosen and r.random() < 0.4:
            extra["focal_spread"] = float(r.uniform(5, 40))
        yield _ctf_case(r, chosen, extra=extra)
    tr = [("Aperture", ["semiangle_cutoff"], True), ("Aperture", ["semiangle_cutoff"], False), ("TemporalEnvelope", ["focal_spread"], True),
          ("SpatialEnvelope", ["angular_spread"], True), ("SpatialEnvelope", ["angular_spread", "C10"], True),
          ("SpatialEnvelope", ["C30", "C12", "angular_spread"], True), ("Aberrations", ["C10"], True),
          ("Aberrations", ["C30", "phi12"], True), ("Aberrations", ["C21", "C10", "C45"], True), ("CTF", ["semiangle_cutoff"], False),
          ("CTF", ["semiangle_cutoff", "C10"], False)]
    for rep in range(reps * 2):
        for j, (cls, nms, soft) in enumerate(tr):
            r = rng_for(seed, "C03", "transform", rep, j)
            extra = {"C10": float(r.uniform(20, 80)), "C30": float(r.uniform(1e4, 6e4))} if cls == "SpatialEnvelope" else {}
            for nm in nms:
                extra.pop(nm, None)
            yield _ctf_case(r, nms, family="transform", cls=cls, soft=soft, extra=extra)
    # (c) Probe ensembles
    paxes = dict(aber=[0, 0, 0] + list(range(1, len(ABER_SETS))), aperture=[0, 1], tilt=[0, 0, 0, 1, 2, 3, 4], scan=list(range(len(SCANS))),
                 lazy=list(range(len(LAZY))), run=[0, 1], soft=[1, 1, 0])
    k = 0
    for s in range(2 if not thorough else 12):
        for sel in covering(paxes, seed=seed * 53 + s, extra_random=20 if s == 0 else 0):
            yield _probe_case(rng_for(seed, "C03", "probe", k), sel)
            k += 1
    # (d) PlaneWave tilt ensembles
    k = 0
    for rep in range(reps):
        for tmode in TILT_MODES[1:]:
            for lazy, mb in LAZY[:4]:
                r = rng_for(seed, "C03", "pw", k)
                k += 1
                lens = _lengths(r, 2)
                yield dict(family="planewave", tilt=_tilt_spec(r, tmode, lens), lazy=lazy, max_batch=mb,
                           atoms=["si", "two", "random"][k % 3], atoms_seed=int(r.integers(1000)), height=float(r.uniform(4.0, 10.0)),
                           slice_thickness=float(r.uniform(1.5, 3.0)), weighted=False, averaged=False, run="multislice", **_grid(r))
    # (e) chains: tilt ensemble -> CTF ensemble -> second multislice
    k = 0
    for rep in range(2 * reps):
        for builder in ("planewave", "probe"):
            for tmode in ("xdist", "pairs", "xydist", "scalar", "ydist-only"):
                r = rng_for(seed, "C03", "chain", k)
                k += 1
                lens = _lengths(r, 3)
                nm = ["defocus", "C30", "focal_spread"][k % 3]
                ctf = {nm: _dspec(r, nm, lens[2], "array")} if tmode != "ydist-only" else {nm: _values(r, nm, 1)[0]}
                yield dict(family="chain", builder=builder, tilt=_tilt_spec(r, tmode.split("-")[0], lens[:2]),
                           params={**ctf, "semiangle_cutoff": 30.0}, atoms="si",
                           atoms_seed=int(r.integers(1000)), height=float(r.uniform(4.0, 8.0)), slice_thickness=2.0,
                           weighted=False, averaged=False, **_grid(r))
    # (f) ensemble means
    k = 0
    for rep in range(reps):
        for weighted in (False, True):
            for path in ("ctf", "ctf2", "ctf-mixed", "probe-aber", "probe-aperture", "probe-tilt", "probe-mixed", "pw-tilt", "pw-pairs",
                         "ctf-gaussian", "ctf-spread", "ctf-cutoff"):
                r = rng_for(seed, "C03", "mean", k)
                k += 1
                if path.startswith("ctf"):
                    nms, mean = {"ctf": (["defocus"], [True]), "ctf2": (["C10", "C30"], [True, True]),
                                 "ctf-mixed": (["C12", "C10", "phi12"], [False, True, False]), "ctf-gaussian": (["defocus"], [True]),
                                 "ctf-spread": (["focal_spread", "C10"], [True, False]),
                                 "ctf-cutoff": (["semiangle_cutoff"], [True])}[path]
                    if path == "ctf-gaussian":
                        if not weighted:
                            continue
                        c = _ctf_case(r, nms, forms=["gaussian"], mean=mean, family="mean-ctf")
                        c["weighted"] = True
                    else:
                        c = _ctf_case(r, nms, forms=["from_values"] if weighted else FORMS, weighted=weighted, mean=mean, family="mean-ctf")
                    c["path"] = path
                    yield c
                elif path.startswith("probe"):
                    sel = {"probe-aber": dict(aber=1 + k % 3, aperture=0, tilt=0), "probe-aperture": dict(aber=0, aperture=1, tilt=0),
                           "probe-tilt": dict(aber=0, aperture=0, tilt=1 + k % 4),
                           "probe-mixed": dict(aber=1, aperture=1, tilt=0)}[path]
                    sel.update(scan=[0, 1, 3][k % 3], lazy=k % 3, run=1, soft=1)
                    c = _probe_case(r, sel, weighted=weighted, mean=True, run="detect")
                    c.update(family="mean-probe", path=path)
                    yield c
                else:
                    lens = _lengths(r, 2)
                    yield dict(family="mean-planewave", path=path, tilt=_tilt_spec(r, "pairs" if path == "pw-pairs" else ["xdist", "xydist"][k % 2],
                                                                                  lens, weighted, True),
                               lazy=bool(k % 2), max_batch="auto", atoms="si", atoms_seed=int(r.integers(1000)),
                               height=float(r.uniform(4.0, 8.0)), slice_thickness=2.0, weighted=weighted, averaged=True, run="detect",
                               **_grid(r))


def _features(case):
    """coarse input features, so that known-finding entries can be keyed with `'x' in case['features']`"""
    p = case.get("params", {})
    f = []
    if any(isinstance(v, dict) and k not in ("semiangle_cutoff", "focal_spread", "angular_spread") for k, v in p.items()):
        f.append("aberration_dist")
    if isinstance(p.get("semiangle_cutoff"), dict):
        f.append("cutoff_dist")
    if isinstance(p.get("focal_spread"), dict) or isinstance(p.get("angular_spread"), dict):
        f.append("spread_dist")
    if (case.get("tilt") or {}).get("mode", "scalar") != "scalar":
        f.append("tilt_dist")
    if case.get("soft") is False:
        f.append("hard_aperture")
    if case.get("weighted"):
        f.append("weighted")
    if case.get("averaged"):
        f.append("ensemble_mean")
    if case.get("lazy"):
        f.append("lazy")
    f.append("family:" + case["family"].split("-")[-1])
    return f


def cases(tier, seed):
    for case in _cases(tier, seed):
        case["features"] = _features(case)
        yield case


# ------------------------------------------------------------------------------------------------------------
# construction


class _D:
    """a distribution handed to abTEM together with the values / weights it stands for"""

    def __init__(self, spec):
        from abtem import distributions as D

        self.mean = bool(spec.get("ensemble_mean", False))
        f = spec["form"]
        if f == "uniform":
            self.obj = D.uniform(spec["low"], spec["high"], spec["n"], endpoint=spec["endpoint"], ensemble_mean=self.mean)
            self.values = np.linspace(spec["low"], spec["high"], spec["n"], endpoint=spec["endpoint"])
            self.weights = np.ones(spec["n"])
        elif f == "gaussian":
            self.obj = D.gaussian(spec["std"], spec["n"], center=spec["center"], sampling_limit=spec["limit"],
                                  normalize=spec["normalize"], ensemble_mean=self.mean)
            self.values = np.array(self.obj.values, float)
            self.weights = np.array(self.obj.weights, float)
        else:
            v = np.array(spec["values"], float)
            w = spec.get("weights")
            self.values = v
            self.weights = np.ones(len(v)) if w is None else np.array(w, float)
            if f == "array" and w is None and not self.mean:
                self.obj = v
            elif f == "list" and w is None and not self.mean:
                self.obj = list(spec["values"])
            else:
                self.obj = D.from_values(v, weights=None if w is None else np.array(w, float), ensemble_mean=self.mean)
        self.n = len(self.values)
        self.unit = bool(np.all(self.weights == 1.0))


def _split(params):
    scal = {k: v for k, v in params.items() if not isinstance(v, dict)}
    dist = {k: _D(v) for k, v in params.items() if isinstance(v, dict)}
    return scal, dist


def _veq(a, b, rtol=1e-9):
    a, b = np.asarray(a, float), np.asarray(b, float)
    return a.shape == b.shape and bool(np.all(np.abs(a - b) <= rtol * np.maximum(1.0, np.abs(b))))


def _match_axes(axes, wanted):
    """wanted: list of (key, kind, values) ; returns ({axis position: key}, problems)"""
    pos, problems, used = {}, [], set()
    for key, kind, vals in wanted:
        hit = None
        for i, ax in enumerate(axes):
            if i in used:
                continue
            if kind == "param":
                if hasattr(ax, "values") and not hasattr(ax, "tilt") and _veq(ax.values, vals):
                    hit = i
            elif kind in ("tilt_x", "tilt_y"):
                if getattr(ax, "direction", None) == kind[-1] and hasattr(ax, "tilt") and _veq(ax.values, vals):
                    hit = i
            elif kind == "tilt_pairs":
                if hasattr(ax, "tilt") and not hasattr(ax, "direction") and _veq(np.array(ax.values, float), vals):
                    hit = i
            elif kind == "positions":
                if hasattr(ax, "values") and np.shape(np.array(ax.values, float)) == np.shape(vals) and _veq(np.array(ax.values, float), vals, 2e-6):
                    hit = i
            elif kind == "scan":
                if hasattr(ax, "sampling") and hasattr(ax, "offset") and _veq(np.array(ax.coordinates(len(vals)), float), vals, 2e-6):
                    hit = i
            elif kind == "stack":
                if getattr(ax, "label", None) == "stack":
                    hit = i
            if hit is not None:
                break
        if hit is None:
            problems.append(f"no axis lists {key} = {np.asarray(vals).tolist()}")
        else:
            used.add(hit)
            pos[hit] = key
    extra = [i for i in range(len(axes)) if i not in used]
    if extra:
        problems.append("unexplained axes: " + ", ".join(f"#{i} {type(axes[i]).__name__}({getattr(axes[i], 'label', '')})" for i in extra))
    return pos, problems


def _axes_repr(axes):
    out = []
    for a in axes:
        v = getattr(a, "values", None)
        out.append(f"{type(a).__name__}({getattr(a, 'label', '')!r}, n={len(v) if v is not None else '-'})")
    return "[" + ", ".join(out) + "]"


def _compare_members(arr, axes_keys, keys_lens, scalar_run, tol=TOL, weights=None):
    """arr axes are ordered like axes_keys (list of keys, one per leading axis); scalar_run(dict key->index) -> array.
    Returns (ok, detail, nontrivial, factor_ok) ; with weights (dict key -> weight vector): accepts f in {1, prod w}."""
    lens = [keys_lens[k] for k in axes_keys]
    if tuple(arr.shape[: len(lens)]) != tuple(lens):
        return False, f"array ensemble shape {arr.shape[:len(lens)]} but axes metadata say {dict(zip(axes_keys, lens))}", True
    worst, wdet, first, spread, scale = 0.0, "", None, 0.0, 0.0
    for idx in itertools.product(*[range(n) for n in lens]):
        sel = dict(zip(axes_keys, idx))
        ref = np.asarray(scalar_run(sel))
        got = np.asarray(arr[idx])
        if got.shape != ref.shape:
            return False, f"member {sel}: shape {got.shape} vs scalar run {ref.shape}", True
        s = float(np.abs(ref).max())
        scale = max(scale, s)
        if weights is None:
            err = float(np.abs(got - ref).max()) / max(s, 1e-30)
            note = ""
        else:
            f = float(np.prod([weights[k][i] for k, i in sel.items() if k in weights]))
            e1 = float(np.abs(got - ref).max()) / max(s, 1e-30)
            e2 = float(np.abs(got - f * ref).max()) / max(f * s, 1e-30)
            err, note = (e1, " (f=1)") if e1 <= e2 else (e2, f" (f=prod w={f:.4g})")
        if first is None:
            first = ref
        elif first.shape == ref.shape:
            spread = max(spread, float(np.abs(ref - first).max()))
        if err >= worst:
            worst, wdet = err, f"member {sel}: rel. max|member - scalar run|{note} = {err:.3e}"
    return worst <= tol, f"{wdet} (tol {tol}); {int(np.prod(lens))} members; spread between scalar runs {spread / max(scale, 1e-30):.2e}", spread > 100 * tol * scale


def _mean_check(got, stack, lens_keys, dists, tol=TOL):
    """stack: scalar-run measurements arranged [axes in lens_keys order..., base...]; average over the keys whose
    distribution has ensemble_mean; returns list of (name, ok, detail, nontrivial)."""
    keys = [k for k, _ in lens_keys]
    avg = [i for i, k in enumerate(keys) if dists[k].mean]
    unit = all(dists[keys[i]].unit for i in avg)
    spread = float(np.abs(stack - stack.mean(axis=tuple(avg), keepdims=True)).max())
    scale = float(np.abs(stack).max())
    nontriv = spread > 100 * tol * scale
    cands = {}
    if unit:
        cands["mean"] = stack.mean(axis=tuple(avg))
    else:
        n = int(np.prod([stack.shape[i] for i in avg]))
        for pw in (1, 2):
            full = np.ones([1] * stack.ndim)
            for i in avg:
                shp = [1] * stack.ndim
                shp[i] = stack.shape[i]
                full = full * (dists[keys[i]].weights ** pw).reshape(shp)
            num = (full * stack).sum(axis=tuple(avg))
            tot = float(full.sum())  # sum over the averaged axes of the product weights
            for nm, den in (("sum", tot), ("n", float(n)), ("1", 1.0)):
                cands[f"om=w^{pw},N={nm}"] = num / den
    got = np.asarray(got)
    best, bdet = None, ""
    for nm, ref in cands.items():
        if ref.shape != got.shape:
            bdet = f"shape {got.shape} vs expected {ref.shape}"
            continue
        e = float(np.abs(got - ref).max()) / max(float(np.abs(ref).max()), 1e-30)
        if best is None or e < best[0]:
            best = (e, nm)
    plain = stack.mean(axis=tuple(avg))
    ign = (float(np.abs(got - plain).max()) / max(float(np.abs(plain).max()), 1e-30)) if plain.shape == got.shape else float("nan")
    name = "C03/ensemble_mean/uniform-weights" if unit else "C03/ensemble_mean/weighted-mean"
    if best is None:
        return [(name, False, bdet, nontriv)]
    wtxt = "" if unit else ("; weights " + ", ".join(f"{keys[i]}={np.round(dists[keys[i]].weights, 4).tolist()}" for i in avg)
                            + f"; distance to the UNWEIGHTED mean {ign:.3e}")
    return [(name, best[0] <= tol, f"closest convention {best[1]}: rel. max deviation {best[0]:.3e} (tol {tol}); averaged axes "
             f"{[keys[i] for i in avg]} of {keys}{wtxt}", nontriv)]


# ------------------------------------------------------------------------------------------------------------
# CTF / transform families


def _input_waves(case):
    import abtem
    import dask.array as da
    from abtem.core.axes import OrdinalAxis

    gpts, extent = tuple(case["gpts"]), tuple(case["extent"])
    r = np.random.default_rng(case["wave_seed"])
    n = case["stack"]
    shape = ((n,) if n else ()) + gpts
    a = (r.normal(size=shape) + 1j * r.normal(size=shape)).astype(np.complex64)
    axes = [OrdinalAxis(label="stack", values=tuple(range(n)))] if n else []

    def make(lazy):
        arr = a.copy()
        if lazy:
            arr = da.from_array(arr, chunks=((1,) if n else ()) + gpts)
        return abtem.Waves(arr, energy=case["energy"], extent=extent, ensemble_axes_metadata=list(axes))

    return make


def _make_transform(case, kwargs):
    from abtem import transfer as T

    cls = case["cls"]
    e = case["energy"]
    if cls == "CTF":
        return T.CTF(energy=e, soft=case["soft"], **kwargs)
    if cls == "Aperture":
        return T.Aperture(energy=e, soft=case["soft"], **kwargs)
    if cls == "TemporalEnvelope":
        return T.TemporalEnvelope(energy=e, **kwargs)
    if cls == "SpatialEnvelope":
        return T.SpatialEnvelope(energy=e, **kwargs)
    return T.Aberrations(energy=e, **kwargs)


def _run_ctf(case):
    out = []
    scal, dist = _split(case["params"])
    make = _input_waves(case)

    def apply(kwargs, lazy, mb):
        t = _make_transform(case, kwargs)
        w = make(lazy).apply_ctf(t, max_batch=mb) if case["cls"] == "CTF" else t.apply(make(lazy), max_batch=mb)
        if lazy:
            w = w.compute(scheduler="synchronous", progress_bar=False)
        return w

    res = apply({**scal, **{k: d.obj for k, d in dist.items()}}, case["lazy"], case["max_batch"])
    wanted = [(k, "param", (ALIASES[k][1] if k in ALIASES else 1.0) * d.values) for k, d in dist.items()]
    if case["stack"]:
        wanted.append(("stack", "stack", list(range(case["stack"]))))
    averaged = case["family"] == "mean-ctf"
    meas = res.intensity().reduce_ensemble() if averaged else None
    axes = list(res.ensemble_axes_metadata)
    pos, problems = _match_axes(axes, wanted)
    out.append(Res("C03/axes-metadata/values-in-order", not problems,
                   f"result axes {_axes_repr(axes)}; " + ("; ".join(problems) if problems else "every distribution is listed once, in order"),
                   True))
    if problems:
        return out
    order = [pos[i] for i in range(len(axes))]
    lens = {k: d.n for k, d in dist.items()}
    lens["stack"] = case["stack"]
    cache = {}

    def scalar_run(sel):
        key = tuple(sorted((k, i) for k, i in sel.items() if k != "stack"))
        if key not in cache:
            kw = dict(scal)
            for k, i in key:
                kw[k] = float(dist[k].values[i])
            cache[key] = np.asarray(apply(kw, False, "auto").array)
        a = cache[key]
        return a[sel["stack"]] if "stack" in sel else a

    arr = np.asarray(res.array)
    unit = all(d.unit for d in dist.values())
    ok, det, nt = _compare_members(arr, order, lens, scalar_run, weights=None if unit else {k: d.weights for k, d in dist.items()})
    out.append(Res("C03/member-equals-scalar-run" if unit else "C03/weighted-member-proportional", ok,
                   f"{case['cls']} ensemble over {list(dist)}: {det}", nt))
    if averaged:
        keys = [k for k in order]
        full = np.empty([lens[k] for k in keys] + list(arr.shape[len(keys):]), float)
        for idx in itertools.product(*[range(lens[k]) for k in keys]):
            full[idx] = np.abs(scalar_run(dict(zip(keys, idx))).astype(np.complex128)) ** 2
        dd = dict(dist)
        if case["stack"]:
            dd["stack"] = type("S", (), {"mean": False, "unit": True, "weights": np.ones(case["stack"])})()
        for name, ok, det, nt in _mean_check(np.asarray(meas.array), full, [(k, lens[k]) for k in keys], dd):
            kept = [k for k in keys if not dd[k].mean]
            maxes = list(meas.ensemble_axes_metadata)
            p2, prob2 = _match_axes(maxes, [w for w in wanted if w[0] in kept])
            out.append(Res(name, ok and not prob2, f"intensity().reduce_ensemble(): {det}; kept axes {_axes_repr(maxes)}"
                           + (" PROBLEM: " + "; ".join(prob2) if prob2 else ""), nt))
    return out


# ------------------------------------------------------------------------------------------------------------
# builder families


def _potential(case):
    import abtem

    gpts, extent = tuple(case["gpts"]), tuple(case["extent"])
    atoms = tiny_atoms(case["atoms"], size=1.0, height=case["height"], seed=case["atoms_seed"])
    pos = atoms.get_scaled_positions()
    atoms.set_cell([extent[0], extent[1], case["height"]])
    atoms.set_scaled_positions(pos)
    return abtem.Potential(atoms, gpts=gpts, slice_thickness=case["slice_thickness"])


def _tilt_objects(t):
    """returns (tilt argument for abTEM, wanted axes [(key, kind, values)], dists {key: _D-like}, scalar(sel) -> (tx, ty))"""
    from abtem import distributions as D

    mean = bool(t.get("ensemble_mean", False))

    class W:
        def __init__(self, values, weights):
            self.values, self.n, self.mean = np.array(values, float), len(values), mean
            self.weights = np.ones(len(values)) if weights is None else np.array(weights, float)
            self.unit = weights is None

    def dist(vals, w):
        if w is None and not mean:
            return np.array(vals, float)
        return D.from_values(np.array(vals, float), weights=None if w is None else np.array(w, float), ensemble_mean=mean)

    m = t["mode"]
    if m == "scalar":
        return (t["x"], t["y"]), [], {}, lambda sel: (t["x"], t["y"])
    if m == "xdist":
        d = W(t["x"], t.get("weights"))
        return (dist(t["x"], t.get("weights")), t["y"]), [("tilt_x", "tilt_x", d.values)], {"tilt_x": d}, \
            lambda sel: (float(d.values[sel["tilt_x"]]), t["y"])
    if m == "ydist":
        d = W(t["y"], t.get("weights"))
        return (t["x"], dist(t["y"], t.get("weights"))), [("tilt_y", "tilt_y", d.values)], {"tilt_y": d}, \
            lambda sel: (t["x"], float(d.values[sel["tilt_y"]]))
    if m == "xydist":
        dx, dy = W(t["x"], t.get("weights")), W(t["y"], t.get("weights_y"))
        return (dist(t["x"], t.get("weights")), dist(t["y"], t.get("weights_y"))), \
            [("tilt_x", "tilt_x", dx.values), ("tilt_y", "tilt_y", dy.values)], {"tilt_x": dx, "tilt_y": dy}, \
            lambda sel: (float(dx.values[sel["tilt_x"]]), float(dy.values[sel["tilt_y"]]))
    d = W(t["pairs"], t.get("weights"))
    arg = np.array(t["pairs"], float) if (t.get("weights") is None and not mean) else dist(t["pairs"], t.get("weights"))
    return arg, [("tilt", "tilt_pairs", d.values)], {"tilt": d}, lambda sel: tuple(float(v) for v in d.values[sel["tilt"]])


def _scan_objects(sc):
    """returns (scan argument, wanted axes, lens, position(sel) -> (x, y))"""
    import abtem

    if sc["mode"] == "single":
        return tuple(sc["xy"]), [], {}, lambda sel: tuple(sc["xy"])
    if sc["mode"] == "list":
        xy = np.array(sc["xy"], float)
        return [tuple(p) for p in sc["xy"]], [("scan", "positions", xy)], {"scan": len(xy)}, lambda sel: tuple(xy[sel["scan"]])
    if sc["mode"] == "line":
        n = sc["gpts"]
        a, b = np.array(sc["start"], float), np.array(sc["end"], float)
        step = (b - a) / ((n - 1) if (sc["endpoint"] and n > 1) else n)
        pts = a[None] + np.arange(n)[:, None] * step[None]
        scan = abtem.LineScan(start=tuple(sc["start"]), end=tuple(sc["end"]), gpts=n, endpoint=sc["endpoint"])
        return scan, [("scan", "scan", np.linalg.norm(pts - a[None], axis=1))], {"scan": n}, lambda sel: tuple(pts[sel["scan"]])
    cs = []
    for ax in range(2):
        n, e = sc["gpts"][ax], sc["endpoint"][ax]
        step = (sc["end"][ax] - sc["start"][ax]) / ((n - 1) if (e and n > 1) else n)
        cs.append(sc["start"][ax] + np.arange(n) * step)
    scan = abtem.GridScan(start=tuple(sc["start"]), end=tuple(sc["end"]), gpts=tuple(sc["gpts"]), endpoint=tuple(sc["endpoint"]))
    return scan, [("scan_x", "scan", cs[0]), ("scan_y", "scan", cs[1])], {"scan_x": len(cs[0]), "scan_y": len(cs[1])}, \
        lambda sel: (float(cs[0][sel["scan_x"]]), float(cs[1][sel["scan_y"]]))


def _run_builder(case):
    import abtem

    out = []
    fam = case["family"]
    is_probe = fam in ("probe", "mean-probe")
    averaged = fam.startswith("mean-")
    gpts, extent, energy = tuple(case["gpts"]), tuple(case["extent"]), case["energy"]
    scal, dist = _split(case.get("params", {}))
    targ, twanted, tdists, tscalar = _tilt_objects(case["tilt"])
    run = case["run"]
    pot = _potential(case) if run != "build" else None
    det = (lambda: abtem.PixelatedDetector(max_angle=None)) if run == "detect" else (lambda: None)
    if is_probe:
        sarg, swanted, slens, sposition = _scan_objects(case["scan"])
    else:
        sarg, swanted, slens, sposition = None, [], {}, None

    def simulate(kwargs, tilt, scan, lazy, mb):
        if is_probe:
            b = abtem.Probe(energy=energy, soft=case["soft"], tilt=tilt, **({} if run != "build" else dict(extent=extent, gpts=gpts)),
                            **kwargs)
            if run == "build":
                w = b.build(scan=scan, lazy=lazy, max_batch=mb)
            else:
                w = b.multislice(pot, scan=scan, detectors=det(), lazy=lazy, max_batch=mb)
        else:
            w = abtem.PlaneWave(energy=energy, tilt=tilt).multislice(pot, detectors=det(), lazy=lazy, max_batch=mb)
        if lazy:
            w = w.compute(scheduler="synchronous", progress_bar=False)
        return w

    res = simulate({**scal, **{k: d.obj for k, d in dist.items()}}, targ, sarg, case["lazy"], case["max_batch"])
    alld = {**tdists, **dist}
    lens = {k: d.n for k, d in alld.items()}
    lens.update(slens)
    wanted = twanted + [(k, "param", (ALIASES[k][1] if k in ALIASES else 1.0) * d.values) for k, d in dist.items()] + swanted
    kept = [w for w in wanted if not (averaged and w[0] in alld and alld[w[0]].mean)]
    axes = list(res.ensemble_axes_metadata)
    pos, problems = _match_axes(axes, kept)
    out.append(Res("C03/axes-metadata/values-in-order", not problems,
                   f"result axes {_axes_repr(axes)}; " + ("; ".join(problems) if problems else "every distribution is listed once, in order"),
                   True))
    if problems:
        return out
    order = [pos[i] for i in range(len(axes))]
    cache = {}

    def scalar_run(sel):
        key = tuple(sorted(sel.items()))
        if key not in cache:
            kw = dict(scal)
            for k, i in sel.items():
                if k in dist:
                    kw[k] = float(dist[k].values[i])
            scan = [tuple(float(v) for v in sposition(sel))] if is_probe else None
            cache[key] = np.asarray(simulate(kw, tscalar(sel), scan, False, "auto").array)
        return cache[key]

    arr = np.asarray(res.array)
    if not averaged:
        unit = all(d.unit for d in alld.values())
        ok, det_, nt = _compare_members(arr, order, lens, scalar_run,
                                        weights=None if unit else {k: d.weights for k, d in alld.items()})
        out.append(Res("C03/member-equals-scalar-run" if unit else "C03/weighted-member-proportional", ok,
                       f"{'Probe' if is_probe else 'PlaneWave'}.{run} ensemble over {[w[0] for w in wanted]}: {det_}", nt))
        return out
    # averaged: arrange all scalar runs as [averaged keys..., kept keys (result order)..., base...]
    avg_keys = [k for k, d in alld.items() if d.mean]
    keys = avg_keys + order
    first = scalar_run({k: 0 for k in keys})
    full = np.empty([lens[k] for k in keys] + list(first.shape), float)
    for idx in itertools.product(*[range(lens[k]) for k in keys]):
        full[idx] = scalar_run(dict(zip(keys, idx)))
    dd = dict(alld)
    for k in keys:
        if k not in dd:
            dd[k] = type("S", (), {"mean": False, "unit": True, "weights": np.ones(lens[k])})()
    for name, ok, det_, nt in _mean_check(arr, full, [(k, lens[k]) for k in keys], dd):
        out.append(Res(name, ok, f"{'Probe' if is_probe else 'PlaneWave'}.multislice(detectors=PixelatedDetector): {det_}", nt))
    return out


def _run_chain(case):
    """tilt ensemble (builder) -> first potential -> CTF ensemble (apply_ctf) -> second multislice"""
    import abtem

    energy = case["energy"]
    scal, dist = _split(case["params"])
    targ, twanted, tdists, tscalar = _tilt_objects(case["tilt"])
    pot = _potential(case)
    pos = (0.37 * case["extent"][0], 0.61 * case["extent"][1])

    def simulate(kwargs, tilt):
        if case["builder"] == "probe":
            w = abtem.Probe(energy=energy, semiangle_cutoff=20.0, tilt=tilt).multislice(pot, scan=[pos], lazy=False)
        else:
            w = abtem.PlaneWave(energy=energy, tilt=tilt).multislice(pot, lazy=False)
        w = w.apply_ctf(abtem.CTF(energy=energy, **kwargs))
        return w.multislice(pot)

    res = simulate({**scal, **{k: d.obj for k, d in dist.items()}}, targ)
    alld = {**tdists, **dist}
    lens = {k: d.n for k, d in alld.items()}
    wanted = twanted + [(k, "param", (ALIASES[k][1] if k in ALIASES else 1.0) * d.values) for k, d in dist.items()]
    axes = list(res.ensemble_axes_metadata)
    p, problems = _match_axes(axes, wanted)
    out = [Res("C03/axes-metadata/values-in-order", not problems,
               f"result axes {_axes_repr(axes)}; " + ("; ".join(problems) if problems else "every distribution is listed once, in order"), True)]
    if problems:
        return out
    order = [p[i] for i in range(len(axes))]

    def scalar_run(sel):
        kw = dict(scal)
        for k, i in sel.items():
            if k in dist:
                kw[k] = float(dist[k].values[i])
        return np.asarray(simulate(kw, tscalar(sel)).array)

    ok, det, nt = _compare_members(np.asarray(res.array), order, lens, scalar_run)
    out.append(Res("C03/member-equals-scalar-run", ok,
                   f"{case['builder']}(tilt ensemble).multislice -> apply_ctf({list(dist)} ensemble) -> multislice; axes order {order}: {det}", nt))
    return out


def run_case(case):
    import abtem

    abtem.config.set({"device": "cpu"})
    fam = case["family"]
    if fam in ("ctf", "transform", "mean-ctf"):
        return _run_ctf(case)
    if fam == "chain":
        return _run_chain(case)
    return _run_builder(case)
