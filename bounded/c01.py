"""C01 — lazy and eager evaluation give the same simulation results (bounded run-time contract).

Relational contract on the real pipeline entry points
    WavesBuilder.build / _build_validated, Probe.multislice, Probe.scan, PlaneWave.multislice, Waves.multislice,
    ArrayObject.apply_transform (MultisliceTransform, CTF, detectors), Waves.apply_ctf, BaseDetector.detect:

    result(lazy=True, max_batch=b).compute(scheduler=s)  ==  result(lazy=False)
        on .array (values), .shape, type, .axes_metadata (and .metadata, see ASSUMPTIONS),
    the lazy result is the same for every max_batch / dask chunking / scheduler,
    and raises(lazy) <=> raises(eager).

Oracle: the eager result of the very same pipeline (the statement is relational: it fixes no absolute values).
Stages checked in one case:  build (incident waves) -> multislice(+detectors) -> post stage on the eager Waves
(apply_ctf with scalar / ensemble CTF, or detection with every detector kind) so that a difference is attributed
to the stage that introduces it.
"""

from vlib.hx import Res, rng_for, covering

PROPERTY = "C01"

_AXES = {
    "builder": ["probe", "planewave"],
    "potential": ["atoms", "fp_mean", "fp_nomean", "ens_mean", "ens_nomean", "crystal", "crystal_fp", "array"],
    "exit_planes": ["none", "1", "2", "tuple", "open"],
    "detectors": ["none", "waves", "annular", "flexible", "segmented", "pixelated", "two"],
    "scan": ["none", "point", "custom", "line", "grid"],
    "max_batch": [1, 2, "auto"],
    "scheduler": ["synchronous", "threads"],
    "api": ["builder", "waves", "scan"],
    "reuse": ["fresh", "shared_eager_first", "shared_lazy_first"],
    "grid": ["16x16", "15x18", "12x20", "17x13"],
    "post": ["ctf", "ctf_ens"],
}

RULE = ("pairwise covering array (vlib.hx.covering, greedy, seeded) over the discrete axes builder x potential kind x "
        "exit_planes x detector set x scan x max_batch x scheduler x api (builder.multislice / built waves.multislice / "
        "probe.scan) x object reuse (fresh objects per mode / the same potential, detector and builder objects used "
        "eager-then-lazy or lazy-then-eager) x grid (even, odd, non-square) x post stage; continuous parameters (cell "
        "size, slice thicknesses, energy, sigma, seeds, number of configurations, defocus) are seeded samples per row; "
        "plus 5 invalid pipelines for the fail-together clause. PlaneWave rows have no scan (normalised to 'none'). "
        "A case is non-trivial when the compared arrays are not identically zero; for max_batch / chunking clauses "
        "additionally when the dask chunks of the two lazy results really differ (otherwise flagged trivial). "
        "Distinct = distinct case dict. Thorough = 3 covering arrays with different seeds + 600 random rows.")
BOUNDS = {
    "axes": _AXES,
    "atoms": "<= 5 atoms, orthogonal cell 3.2..5 A lateral, 2..4 slices",
    "gpts": "<= 20 per side",
    "configurations": "1..4",
    "scan_positions": "<= 6",
    "rows": {"quick": "1 covering array (~60 rows) + 5 invalid pipelines",
             "thorough": "3 covering arrays + 600 random rows + 5 invalid pipelines"},
}
EXHAUSTIVE = False
ASSUMPTIONS = [
    "values compared with max-abs error <= 1e-5 * max|eager| (float32 pipeline; means are reduced in a different order lazily)",
    "scheduler / max_batch / chunking clauses compare two lazy results with the same tolerance",
    "axes metadata compared structurally (class + dataclass fields, floats to 1e-6 relative); `.metadata` dicts likewise "
    "(obligation */metadata follows DESIGN.md C01 contract; the statement itself names values, shape, type, axes metadata)",
    "schedulers are only sampled (synchronous, threads); concurrency itself is outside what a contract decides",
    "object reuse across modes is part of the domain (a user may compute the same objects lazily and eagerly)",
]
CONTRACTS = [
    "abtem/array.py:ArrayObject.apply_transform",
    "abtem/waves.py:WavesBuilder._build_validated",
    "abtem/waves.py:Probe.multislice",
    "abtem/waves.py:Probe.scan",
    "abtem/waves.py:PlaneWave.multislice",
    "abtem/waves.py:Waves.multislice",
    "abtem/waves.py:Waves.apply_ctf",
    "abtem/multislice.py:multislice_and_detect",
    "abtem/multislice.py:MultisliceTransform._partition_args",
    "abtem/detectors.py:BaseDetector.detect",
]

_BAD = ["no_energy", "annular_outer_too_large", "annular_inner_gt_outer", "exit_plane_out_of_range",
        "ensemble_cell_mismatch"]


# ------------------------------------------------------------------------------------------------
# case generation


def _finish(row, seed, i):
    r = rng_for(seed, "c01", i, sorted(row.items()))
    c = dict(row)
    if c["builder"] == "planewave":
        c["scan"] = "none"
        if c["api"] == "scan":
            c["api"] = "builder"
    if c["builder"] == "probe" and c["api"] == "scan" and c["scan"] == "none":
        c["scan"] = "grid"  # Probe.scan always scans
    c["atoms"] = ["si", "two", "random"][int(r.integers(3))]
    c["aseed"] = int(r.integers(1000))
    c["size"] = [round(float(r.uniform(3.2, 5.0)), 3), round(float(r.uniform(3.2, 5.0)), 3)]
    nsl = int(r.integers(2, 5))
    if r.uniform() < 0.5:
        c["slice_thickness"] = [round(float(t), 3) for t in r.uniform(0.6, 1.4, nsl)]
    else:
        c["slice_thickness"] = round(float(r.uniform(0.8, 1.3)), 3)
    c["nslices"] = nsl
    c["energy"] = float([60e3, 100e3, 200e3, 300e3][int(r.integers(4))])
    c["sigma"] = round(float(r.uniform(0.05, 0.2)), 3)
    c["nconf"] = int(r.integers(2, 5))
    c["fpseed"] = int(r.integers(1, 10_000))
    c["defocus"] = round(float(r.uniform(-60, 60)), 2)
    c["tilt"] = [0.0, 0.0] if r.uniform() < 0.5 else [round(float(r.uniform(-8, 8)), 2), round(float(r.uniform(-8, 8)), 2)]
    c["projection"] = "infinite" if r.uniform() < 0.8 else "finite"
    c["bad"] = "none"
    return c


def cases(tier, seed):
    nseeds = 1 if tier == "quick" else 3
    i = 0
    for s in range(nseeds):
        rows = covering(_AXES, seed=1000 * seed + s, extra_random=0 if tier == "quick" else 200)
        for row in rows:
            yield _finish(row, seed, i)
            i += 1
    # scans cut into blocks of unequal size (5 x 5 positions, max_batch 6 / 9 -> blocks of 3 and 2 along an axis)
    for k, (mb, api, det) in enumerate([(6, "scan", "annular"), (9, "builder", "annular"), (9, "scan", "two"), (6, "builder", "waves")]):
        row = dict(builder="probe", potential=["atoms", "fp_nomean"][k % 2], exit_planes="none", detectors=det, scan="grid5",
                   max_batch=mb, scheduler="synchronous", api=api, reuse="fresh", grid=["16x16", "15x18"][k % 2], post="ctf")
        yield _finish(row, seed, 20_000 + k)
    # invalid pipelines: both modes must fail
    r = rng_for(seed, "c01-bad")
    pots = ["array", "fp_nomean", "atoms", "crystal", "ens_mean"]
    for k, bad in enumerate(_BAD):
        row = dict(builder=["planewave", "probe"][k % 2], potential=pots[k % len(pots)], exit_planes="none",
                   detectors="annular", scan="point", max_batch="auto", scheduler="synchronous", api="builder",
                   reuse="fresh", grid="16x16", post="ctf")
        c = _finish(row, seed, 10_000 + k)
        c["bad"] = bad
        if bad == "exit_plane_out_of_range":
            c["exit_planes"] = "out_of_range"
            c["detectors"] = "waves"
        if bad == "ensemble_cell_mismatch":
            c["potential"] = "ens_nomean"
        yield c


# ------------------------------------------------------------------------------------------------
# construction of the pipeline from the case dict


def _wavelength(energy):
    import math

    e = energy / 1e3  # keV
    return 12.3984244 / math.sqrt(e * (2 * 510.99895 + e))  # Angstrom


def _gpts(c):
    a, b = c["grid"].split("x")
    return int(a), int(b)


def _max_angle(c):
    g = _gpts(c)
    k = min(g[0] / (2 * c["size"][0]), g[1] / (2 * c["size"][1]))
    if c["potential"] in ("crystal", "crystal_fp"):
        pass  # lateral repetitions are 1: same extent and gpts
    return k * _wavelength(c["energy"]) * 1e3  # mrad, full (not anti-aliased) simulated angle


def _thicknesses(c):
    st = c["slice_thickness"]
    if isinstance(st, list):
        return [float(t) for t in st]
    return [float(st)] * c["nslices"]


def _atoms(c, height):
    import numpy as np
    from ase import Atoms

    r = np.random.default_rng(c["aseed"])
    if c["atoms"] == "two":
        sym, pos = ["C", "O"], [[0.3, 0.4, 0.25], [0.7, 0.55, 0.7]]
    elif c["atoms"] == "random":
        n = 5
        sym = [str(s) for s in r.choice(["C", "Si", "Cu"], n)]
        pos = r.uniform(0.05, 0.95, (n, 3))
    else:
        sym = ["Si", "Si", "O"]
        pos = [[0.2, 0.2, 0.2], [0.6, 0.5, 0.55], [0.4, 0.8, 0.85]]
    sx, sy = c["size"]
    return Atoms(sym, positions=np.array(pos, float) * [sx, sy, height], cell=[sx, sy, height], pbc=True)


def _exit_planes(c, n):
    ep = c["exit_planes"]
    if ep == "none":
        return None
    if ep in ("1", "2"):
        return int(ep)
    if ep == "tuple":
        return (0, n - 1) if n > 1 else (0,)
    if ep == "open":
        return (0,)  # a single exit plane that is not the last slice (n >= 2 always)
    if ep == "out_of_range":
        return (0, n + 6)
    raise ValueError(ep)


def _make_potential(c):
    import abtem

    th = _thicknesses(c)
    kind = c["potential"]
    gpts = _gpts(c)
    st = tuple(th) if isinstance(c["slice_thickness"], list) else th[0]
    if kind in ("crystal", "crystal_fp"):
        # unit cell = one slice group, repeated twice along z
        unit_th = th[: max(1, len(th) // 2)]
        height = float(sum(unit_th))
        atoms = _atoms(c, height)
        ust = tuple(unit_th) if isinstance(c["slice_thickness"], list) else unit_th[0]
        n = 2 * len(unit_th)
        ep = _exit_planes(c, n)
        if kind == "crystal":
            unit = abtem.Potential(atoms, gpts=gpts, slice_thickness=ust, projection=c["projection"])
            return abtem.CrystalPotential(unit, (1, 1, 2), exit_planes=ep)
        fp = abtem.FrozenPhonons(atoms, c["nconf"], c["sigma"], seed=c["fpseed"])
        unit = abtem.Potential(fp, gpts=gpts, slice_thickness=ust, projection=c["projection"])
        return abtem.CrystalPotential(unit, (1, 1, 2), exit_planes=ep,
                                      seeds=tuple(range(c["fpseed"], c["fpseed"] + 2)), ensemble_mean=False)
    height = float(sum(th))
    atoms = _atoms(c, height)
    ep = _exit_planes(c, len(th))
    kw = dict(gpts=gpts, slice_thickness=st, projection=c["projection"])
    if kind == "atoms":
        return abtem.Potential(atoms, exit_planes=ep, **kw)
    if kind in ("fp_mean", "fp_nomean"):
        fp = abtem.FrozenPhonons(atoms, c["nconf"], c["sigma"], seed=c["fpseed"], ensemble_mean=kind == "fp_mean")
        return abtem.Potential(fp, exit_planes=ep, **kw)
    if kind in ("ens_mean", "ens_nomean"):
        fp = abtem.FrozenPhonons(atoms, c["nconf"], c["sigma"], seed=c["fpseed"])
        traj = list(fp)
        if c["bad"] == "ensemble_cell_mismatch":
            traj[-1] = traj[-1].copy()
            traj[-1].set_cell(traj[-1].cell.array * 1.5, scale_atoms=True)
        ens = abtem.AtomsEnsemble(traj, ensemble_mean=kind == "ens_mean")
        return abtem.Potential(ens, exit_planes=ep, **kw)
    if kind == "array":
        built = abtem.Potential(atoms, **kw).build(lazy=False)
        return abtem.PotentialArray(built.array.copy(), slice_thickness=built.slice_thickness, extent=built.extent,
                                    exit_planes=ep)
    raise ValueError(kind)


def _detector(name, c):
    import abtem

    m = _max_angle(c)
    if name == "waves":
        return abtem.detectors.WavesDetector()
    if name == "annular":
        if c["bad"] == "annular_outer_too_large":
            return abtem.AnnularDetector(inner=0.3 * m, outer=6.0 * m)
        if c["bad"] == "annular_inner_gt_outer":
            return abtem.AnnularDetector(inner=0.7 * m, outer=0.3 * m)
        return abtem.AnnularDetector(inner=0.3 * m, outer=0.8 * m)
    if name == "flexible":
        return abtem.FlexibleAnnularDetector(step_size=m / 6.0)
    if name == "segmented":
        return abtem.SegmentedDetector(nbins_radial=2, nbins_azimuthal=3, inner=0.15 * m, outer=0.8 * m, rotation=0.3)
    if name == "pixelated":
        return abtem.PixelatedDetector(max_angle=None)
    raise ValueError(name)


def _make_detectors(c):
    d = c["detectors"]
    if d == "none":
        return None
    if d == "two":
        return [_detector("annular", c), _detector("pixelated", c)]
    return _detector(d, c)


def _make_scan(c, extent):
    import abtem
    import numpy as np

    s = c["scan"]
    ex = np.array(extent, float)
    if s == "none":
        return None
    if s == "point":
        return (float(0.3 * ex[0]), float(0.6 * ex[1]))
    if s == "custom":
        return abtem.CustomScan(np.array([[0.1, 0.2], [0.5, 0.5], [0.8, 0.3]]) * ex)
    if s == "line":
        return abtem.LineScan(start=(0.1 * ex[0], 0.2 * ex[1]), end=(0.9 * ex[0], 0.7 * ex[1]), gpts=3)
    if s == "grid":
        return abtem.GridScan(start=(0, 0), end=(0.75 * ex[0], 0.5 * ex[1]), gpts=(3, 2))
    if s == "grid5":
        return abtem.GridScan(start=(0, 0), end=(0.8 * ex[0], 0.9 * ex[1]), gpts=(5, 5))
    raise ValueError(s)


def _make_builder(c):
    import abtem

    e = None if c["bad"] == "no_energy" else c["energy"]
    if c["builder"] == "probe":
        return abtem.Probe(energy=e, semiangle_cutoff=0.45 * _max_angle(c), defocus=c["defocus"])
    return abtem.PlaneWave(energy=e, tilt=tuple(c["tilt"]))


class _Objs:
    def __init__(self, c):
        self.c = c
        self.potential = _make_potential(c)
        self.detectors = _make_detectors(c)
        self.builder = _make_builder(c)
        self.builder.grid.match(self.potential)
        self.scan = _make_scan(c, self.potential.extent) if c["builder"] == "probe" else None


# ------------------------------------------------------------------------------------------------
# running one mode


def _compute(out, scheduler):
    if isinstance(out, (list, tuple)):
        if hasattr(out, "compute"):
            return list(out.compute(scheduler=scheduler, progress_bar=False))
        return [o.compute(scheduler=scheduler, progress_bar=False) for o in out]
    return out.compute(scheduler=scheduler, progress_bar=False)


def _chunks(out):
    outs = list(out) if isinstance(out, (list, tuple)) else [out]
    return [tuple(tuple(int(x) for x in ch) for ch in o.array.chunks) if hasattr(o.array, "chunks") else None
            for o in outs]


def _build(o, lazy, max_batch="auto"):
    if o.c["builder"] == "probe":
        return o.builder.build(scan=o.scan, lazy=lazy, max_batch=max_batch)
    return o.builder.build(lazy=lazy, max_batch=max_batch)


def _multislice(o, lazy, max_batch="auto", rechunk=None):
    c = o.c
    api = c["api"]
    if api == "waves" or rechunk is not None:
        waves = _build(o, lazy, max_batch)
        if rechunk is not None and lazy and len(waves.ensemble_shape):
            waves = waves.rechunk(rechunk)
        dets = o.detectors
        if api == "scan" and dets is None:
            import abtem

            dets = abtem.FlexibleAnnularDetector()  # the documented default of Probe.scan
        return waves.multislice(o.potential, detectors=dets)
    if c["builder"] == "probe":
        if api == "scan":
            kw = {} if o.detectors is None else {"detectors": o.detectors}
            return o.builder.scan(o.potential, scan=o.scan, lazy=lazy, max_batch=max_batch, **kw)
        return o.builder.multislice(o.potential, scan=o.scan, detectors=o.detectors, lazy=lazy, max_batch=max_batch)
    return o.builder.multislice(o.potential, detectors=o.detectors, lazy=lazy, max_batch=max_batch)


def _attempt(f):
    """Run f, return (result, None) or (None, exception)."""
    try:
        return f(), None
    except Exception as e:  # noqa: BLE001 - fail-together is a clause of the property
        return None, e


def _fmt_exc(e):
    import traceback

    tb = traceback.extract_tb(e.__traceback__)
    where = ""
    for fr in reversed(tb):
        if "/abtem/" in fr.filename:
            where = f" at {fr.filename}:{fr.lineno} in {fr.name}"
            break
    return f"{type(e).__name__}: {str(e)[:160]}{where}"


# ------------------------------------------------------------------------------------------------
# comparison


def _norm(v):
    import numpy as np

    if isinstance(v, np.ndarray):
        return [_norm(x) for x in v.tolist()]
    if isinstance(v, (tuple, list)):
        return [_norm(x) for x in v]
    if isinstance(v, dict):
        return {str(k): _norm(x) for k, x in v.items()}
    if isinstance(v, (np.floating,)):
        return float(v)
    if isinstance(v, (np.integer,)):
        return int(v)
    if isinstance(v, (np.bool_,)):
        return bool(v)
    return v


def _same(a, b, rtol=1e-6):
    import math

    if isinstance(a, bool) or isinstance(b, bool):
        return a is b or a == b and type(a) is type(b)
    if isinstance(a, (int, float)) and isinstance(b, (int, float)):
        if isinstance(a, float) or isinstance(b, float):
            if math.isnan(a) and math.isnan(b):
                return True
            return math.isclose(a, b, rel_tol=rtol, abs_tol=1e-9)
        return a == b
    if isinstance(a, list) and isinstance(b, list):
        return len(a) == len(b) and all(_same(x, y, rtol) for x, y in zip(a, b))
    if isinstance(a, dict) and isinstance(b, dict):
        return a.keys() == b.keys() and all(_same(a[k], b[k], rtol) for k in a)
    return type(a) is type(b) and a == b


def _axsig(ax):
    import dataclasses

    if dataclasses.is_dataclass(ax):
        d = {f.name: _norm(getattr(ax, f.name)) for f in dataclasses.fields(ax)}
    else:
        d = {k: _norm(v) for k, v in vars(ax).items()}
    return [type(ax).__name__, d]


def _aslist(o):
    return list(o) if isinstance(o, (list, tuple)) else [o]


def _compare(stage, ref, got, what="lazy vs eager", rtol=1e-5,
             clauses=("values", "shape", "type", "axes-metadata", "metadata"), nontrivial=True):
    """Compare two computed results (single object or list). Returns list of Res for the given stage."""
    import numpy as np

    out = []
    refs, gots = _aslist(ref), _aslist(got)
    list_ok = (isinstance(ref, (list, tuple)) == isinstance(got, (list, tuple))) and len(refs) == len(gots)
    v_ok, v_det, nt = True, [], False
    s_ok, s_det = True, []
    t_ok, t_det = list_ok, [] if list_ok else [f"outputs: {len(refs)} vs {len(gots)}, list-ness {type(ref).__name__} vs {type(got).__name__}"]
    a_ok, a_det = True, []
    m_ok, m_det = True, []
    for k, (r, g) in enumerate(zip(refs, gots)):
        ra, ga = np.asarray(r.array), np.asarray(g.array)
        if type(r) is not type(g):
            t_ok = False
            t_det.append(f"out[{k}] type {type(g).__name__} vs {type(r).__name__}")
        if ra.dtype != ga.dtype:
            t_ok = False
            t_det.append(f"out[{k}] dtype {ga.dtype} vs {ra.dtype}")
        if tuple(r.shape) != tuple(g.shape) or ra.shape != ga.shape:
            s_ok = False
            s_det.append(f"out[{k}] shape {tuple(g.shape)} vs {tuple(r.shape)}")
            v_ok = False
            v_det.append(f"out[{k}] shapes differ, values not comparable")
        else:
            scale = float(np.abs(ra).max()) if ra.size else 0.0
            nt = nt or scale > 0
            finite = bool(np.all(np.isfinite(ra)) and np.all(np.isfinite(ga)))
            err = float(np.abs(ra - ga).max()) if ra.size and finite else (0.0 if finite else float("inf"))
            if not finite or err > rtol * max(scale, 1e-30):
                v_ok = False
                idx = tuple(int(x) for x in np.unravel_index(int(np.argmax(np.abs(ra - ga))), ra.shape)) if ra.size else ()
                lead = ""
                if ra.ndim > 2 and ra.size:
                    # which leading (ensemble) indices are affected
                    e = np.abs(ra - ga).reshape(ra.shape[0], -1).max(axis=1)
                    lead = f"; per-index-of-axis0 max err {[float(f'{x:.3g}') for x in e[:6]]}"
                v_det.append(f"out[{k}] {type(r).__name__}{tuple(r.shape)}: max|{what}|={err:.3e} at {idx}, "
                             f"scale {scale:.3e} (rel {err / max(scale, 1e-30):.2e}){lead}")
        sa, sb = [_axsig(a) for a in r.axes_metadata], [_axsig(a) for a in g.axes_metadata]
        if not _same(sa, sb):
            a_ok = False
            bad = [(x, y) for x, y in zip(sa, sb) if not _same(x, y)] or [(len(sa), len(sb))]
            a_det.append(f"out[{k}] axes differ: {str(bad[0])[:400]}")
        ma, mb = _norm(dict(r.metadata)), _norm(dict(g.metadata))
        if not _same(ma, mb):
            m_ok = False
            ks = [key for key in set(ma) | set(mb) if not _same(ma.get(key, "<missing>"), mb.get(key, "<missing>"))]
            m_det.append(f"out[{k}] metadata differs on {ks[:5]}: {[(ma.get(q), mb.get(q)) for q in ks[:3]]}")
    if not list_ok:
        v_ok = s_ok = False
        v_det.append("number/kind of outputs differ")
        s_det.append("number/kind of outputs differ")
    res = {
        "values": (v_ok, v_det), "shape": (s_ok, s_det), "type": (t_ok, t_det),
        "axes-metadata": (a_ok, a_det), "metadata": (m_ok, m_det),
    }
    for cl in clauses:
        ok, det = res[cl]
        out.append(Res(f"C01/{stage}/{cl}", ok, f"{what}: " + ("; ".join(det) if det else "equal"), nt and nontrivial))
    return out


# ------------------------------------------------------------------------------------------------


def _other_batch(mb):
    return {1: "auto", 2: 1, "auto": 1}.get(mb, "auto")


def run_case(case):
    import numpy as np

    c = case
    out = []
    sched = c["scheduler"]
    mb = c["max_batch"]
    shared = c["reuse"] != "fresh"
    o_shared = None

    def objs():
        nonlocal o_shared
        if shared:
            if o_shared is None:
                o_shared = _Objs(c)
            return o_shared
        return _Objs(c)

    expect_error = c.get("bad", "none") != "none"

    # ---------------- stage: multislice (with its build) — fail-together first -----------------------
    def eager_run():
        o = objs()
        return _multislice(o, False)

    lazy_info = {}

    def lazy_run():
        o = objs()
        lz = _multislice(o, True, max_batch=mb)
        lazy_info["chunks"] = _chunks(lz)
        lazy_info["was_lazy"] = all(hasattr(x.array, "chunks") for x in _aslist(lz))
        return _compute(lz, sched)

    if c["reuse"] == "shared_lazy_first":
        (lz, lz_exc), (eg, eg_exc) = _attempt(lazy_run), _attempt(eager_run)
    else:
        (eg, eg_exc), (lz, lz_exc) = _attempt(eager_run), _attempt(lazy_run)

    together = (eg_exc is None) == (lz_exc is None)
    det = (f"eager: {'ok' if eg_exc is None else _fmt_exc(eg_exc)} | lazy(max_batch={mb},{sched}): "
           f"{'ok' if lz_exc is None else _fmt_exc(lz_exc)}")
    out.append(Res("C01/pipeline/fail-together", together, det, True))
    if eg_exc is not None and lz_exc is not None:
        if expect_error:
            return out
        raise eg_exc  # a valid pipeline that fails in both modes: reported by the driver as C01/no-exception
    if expect_error:
        out.append(Res("C01/pipeline/fail-together", False,
                       f"invalid pipeline ({c['bad']}) did not fail in both modes: {det}", True))
        return out
    if not together:
        return out

    # a lazy=True call that silently computed eagerly would make the comparison vacuous: flagged trivial then
    out += _compare("multislice", eg, lz, nontrivial=lazy_info["was_lazy"])

    # ---------------- independence of max_batch / chunking / scheduler ----------------------------------
    mb2 = _other_batch(mb)
    o2 = objs()
    lz2_obj, e2 = _attempt(lambda: _multislice(o2, True, max_batch=mb2))
    if e2 is None:
        ch2 = _chunks(lz2_obj)
        lz2, e2 = _attempt(lambda: _compute(lz2_obj, "synchronous"))
    if e2 is not None:
        out.append(Res("C01/lazy/max-batch-independent", False,
                       f"max_batch={mb2} raised {_fmt_exc(e2)} while max_batch={mb} succeeded", True))
    else:
        differ = ch2 != lazy_info["chunks"]
        r = _compare("x", lz, lz2, what=f"lazy(max_batch={mb2}) vs lazy(max_batch={mb})",
                     clauses=("values", "shape", "type", "axes-metadata"))
        ok = all(x["ok"] for x in r)
        out.append(Res("C01/lazy/max-batch-independent", ok,
                       f"chunks {lazy_info['chunks']} vs {ch2}; " + "; ".join(x["detail"] for x in r if not x["ok"]),
                       differ and any(x["nontrivial"] for x in r)))

    # chunking: rechunk the lazily built incident waves (ensemble axes) before multislice
    o3 = objs()
    w_l, e3 = _attempt(lambda: _build(o3, True, max_batch=mb))
    if e3 is None and len(w_l.ensemble_shape) > 0:
        n0 = int(w_l.ensemble_shape[0])
        cur = tuple(int(x) for x in w_l.array.chunks[0]) if hasattr(w_l.array, "chunks") else (n0,)
        if n0 == 1:
            first = (1,)
        elif cur == (n0,):
            first = (1, n0 - 1)  # split a single chunk unevenly
        else:
            first = (n0,)  # merge
        rechunk = (first,) + tuple((int(s),) for s in w_l.shape[1:])
        lz3_obj, e3 = _attempt(lambda: _multislice(o3, True, max_batch=mb, rechunk=rechunk))
        if e3 is None:
            ch3 = _chunks(lz3_obj)
            lz3, e3 = _attempt(lambda: _compute(lz3_obj, "synchronous"))
        if e3 is not None:
            out.append(Res("C01/lazy/chunking-independent", False,
                           f"incident waves rechunked to {rechunk}: raised {_fmt_exc(e3)}", True))
        else:
            r = _compare("x", lz, lz3, what=f"lazy(rechunked incident waves {rechunk[0]}) vs lazy",
                         clauses=("values", "shape", "type", "axes-metadata"))
            ok = all(x["ok"] for x in r)
            out.append(Res("C01/lazy/chunking-independent", ok,
                           f"chunks {lazy_info['chunks']} vs {ch3}; " + "; ".join(x["detail"] for x in r if not x["ok"]),
                           ch3 != lazy_info["chunks"] and any(x["nontrivial"] for x in r)))
    else:
        # no ensemble axis on the incident waves: the only chunking is the one induced by max_batch (above)
        out.append(Res("C01/lazy/chunking-independent", True, "incident waves have no ensemble axis to rechunk", False))

    other = "threads" if sched == "synchronous" else "synchronous"
    # NB: ArrayObject.compute() materialises its receiver in place, so a fresh lazy graph is needed here
    o4 = objs()
    lz4, e4 = _attempt(lambda: _compute(_multislice(o4, True, max_batch=mb), other))
    if e4 is not None:
        out.append(Res("C01/lazy/scheduler-independent", False, f"scheduler={other} raised {_fmt_exc(e4)}", True))
    else:
        r = _compare("x", lz, lz4, what=f"compute({other}) vs compute({sched})",
                     clauses=("values", "shape", "type", "axes-metadata"))
        out.append(Res("C01/lazy/scheduler-independent", all(x["ok"] for x in r),
                       "; ".join(x["detail"] for x in r if not x["ok"]) or "equal", any(x["nontrivial"] for x in r)))

    # ---------------- stage: build ------------------------------------------------------------------------
    ob = objs()
    w_e = _build(ob, False)
    ob2 = objs()
    w_lobj = _build(ob2, True, max_batch=mb)
    build_was_lazy = hasattr(w_lobj.array, "chunks")  # before compute(): it materialises the receiver in place
    out += _compare("build", w_e, _compute(w_lobj, sched), nontrivial=build_was_lazy)

    # ---------------- post stage on identical in-memory input waves ------------------------------------------
    import abtem

    # input of the post stages: the eager exit waves of this very pipeline (they carry every ensemble axis of the
    # case: frozen phonons, thickness, scan), whatever detectors the case itself used
    src = None
    for cand in _aslist(eg):
        if type(cand).__name__ == "Waves":
            src = cand
            break
    if src is None:
        os_ = objs()
        if c["builder"] == "probe":
            src = os_.builder.multislice(os_.potential, scan=os_.scan, detectors=None, lazy=False)
        else:
            src = os_.builder.multislice(os_.potential, detectors=None, lazy=False)
    nens = len(src.ensemble_shape)
    chunks = (1,) * nens + (-1, -1) if (c["max_batch"] == 1 and nens) else "auto"
    m = _max_angle(c)
    post = c["post"]
    if True:
        def make_ctf():
            defocus = c["defocus"] + 10.0
            if post == "ctf_ens":
                defocus = abtem.distributions.uniform(defocus - 20.0, defocus + 20.0, 3)
            return abtem.CTF(defocus=defocus, Cs=2e4, semiangle_cutoff=0.6 * m)

        r_e, x_e = _attempt(lambda: src.copy().apply_ctf(make_ctf()))
        r_l, x_l = _attempt(lambda: _compute(src.copy().ensure_lazy(chunks).apply_ctf(make_ctf(), max_batch=mb), sched))
        tog = (x_e is None) == (x_l is None)
        out.append(Res("C01/ctf/fail-together", tog,
                       f"eager: {'ok' if x_e is None else _fmt_exc(x_e)} | lazy: {'ok' if x_l is None else _fmt_exc(x_l)}"))
        if x_e is not None and x_l is not None:
            raise x_e
        if tog:
            out += _compare("ctf", r_e, r_l)
    if True:
        dets = ["annular", "flexible", "segmented", "pixelated", "waves"]
        for name in dets:
            r_e, x_e = _attempt(lambda: _detector(name, c).detect(src.copy()))
            r_l, x_l = _attempt(lambda: _compute(_detector(name, c).detect(src.copy().ensure_lazy(chunks)), sched))
            tog = (x_e is None) == (x_l is None)
            out.append(Res("C01/detect/fail-together", tog,
                           f"{name}: eager: {'ok' if x_e is None else _fmt_exc(x_e)} | lazy: "
                           f"{'ok' if x_l is None else _fmt_exc(x_l)}"))
            if x_e is not None and x_l is not None:
                raise x_e
            if tog:
                out += _compare("detect", r_e, r_l, what=f"{name}: lazy vs eager")
        r_e = src.copy().diffraction_patterns(max_angle=None)
        r_l = _compute(src.copy().ensure_lazy(chunks).diffraction_patterns(max_angle=None), sched)
        out += _compare("detect", r_e, r_l, what="diffraction_patterns: lazy vs eager")
        r_e = src.copy().intensity()
        r_l = _compute(src.copy().ensure_lazy(chunks).intensity(), sched)
        out += _compare("detect", r_e, r_l, what="intensity: lazy vs eager")
    return out
