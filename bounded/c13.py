"""C13 — PolarMeasurements.integrate sums exactly the bins inside the requested limits (bounded run-time contract).

Clauses and obligations (all on the real abtem.measurements.PolarMeasurements.integrate / integrate_radial):
  * limits -> sum of the bins whose angular ranges lie inside the limits
        C13/integrate/radial-limits-sum-bins-inside       (all edge-aligned radial pairs of the case)
        C13/integrate/azimuthal-limits-sum-bins-inside    (all edge-aligned azimuthal pairs of the case)
        C13/integrate/both-limits-sum-bins-inside         (seeded sample of radial x azimuthal pairs)
  * no limits -> total over all bins
        C13/integrate/no-limits-equals-total
  * a partition of the radial / azimuthal range sums to the full integral
        C13/integrate/radial-partition-sums-to-total
        C13/integrate/azimuthal-partition-sums-to-total

Oracle: explicit float64 np.sum over the bins k with  [offset + k*sampling, offset + (k+1)*sampling]  inside
[limit0, limit1] (edge tolerance 1e-6*sampling), computed from the bin geometry the object's own axes metadata states.
Limits are aligned with bin edges: either the float expression  offset + k*sampling  ("exact") or the decimal literal a
user would type for it (rounded to 6 digits; only used when sampling and offset are short decimals).
"""

import math

import numpy as np

from vlib.hx import Res, covering, rng_for

PROPERTY = "C13"
RULE = ("pairwise covering array over (radial bins, azimuthal bins, radial sampling, radial offset, azimuthal offset, "
        "ensemble/scan layout, lazy, source = constructed array | SegmentedDetector output) with seeded bin contents; "
        "inside a case ALL edge-aligned radial pairs and ALL azimuthal pairs are integrated, plus a seeded sample of "
        "combined pairs and partitions; non-trivial = the measurement has non-zero bins and the selection is a proper "
        "subset for at least one pair; distinct = distinct case dict")
BOUNDS = {
    "nbins_radial": [1, 2, 3, 5, 8, 12],
    "nbins_azimuthal": [1, 2, 3, 4, 6, 7, 12],
    "radial_sampling_mrad": [0.1, 0.25, 0.3, 0.5, 0.7, 1.0, 1.1, 2.0, "7/3", "10/7"],
    "radial_offset_mrad": [0.0, 0.3, 1.7, 10.0, 20.5],
    "azimuthal_offset_rad": [0.0, 0.3, -1.1, "pi/4", 2.0],
    "azimuthal_sampling": "2*pi/nbins_azimuthal",
    "ensemble": ["none", "scan 3x2", "ordinal 2 + scan 2x3", "line scan 4", "ordinal 3"],
    "combined_pairs_per_case": {"quick": 40, "thorough": 200},
    "partitions_per_case": {"quick": 4, "thorough": 12},
}
EXHAUSTIVE = False
ASSUMPTIONS = [
    "float32 bin contents; integrals compared with atol = 1e-5 * max|total| against a float64 reference sum",
    "a bin is inside the limits when both of its stated edges are within 1e-6*sampling of the closed limit interval",
    "azimuthal limits stay inside one turn [azimuthal_offset, azimuthal_offset + 2*pi]",
]
CONTRACTS = [
    "abtem/measurements.py:PolarMeasurements.integrate",
    "abtem/measurements.py:PolarMeasurements.integrate_radial",
]

_NR = [1, 2, 3, 5, 8, 12]
_NA = [1, 2, 3, 4, 6, 7, 12]
_RS = [0.1, 0.25, 0.3, 0.5, 0.7, 1.0, 1.1, 2.0, "7/3", "10/7"]
_RO = [0.0, 0.3, 1.7, 10.0, 20.5]
_AO = [0.0, 0.3, -1.1, "pi/4", 2.0]
_ENS = ["none", "scan", "ord+scan", "line", "ord"]


def cases(tier, seed):
    reps = 1 if tier == "quick" else 8
    for rep in range(reps):
        arr = covering(dict(nr=_NR, na=_NA, rs=_RS, ro=_RO, ao=_AO, ens=_ENS, lazy=[False, True],
                            source=["array", "array", "segmented"]), seed=seed * 977 + rep, extra_random=10)
        for i, c in enumerate(arr):
            r = rng_for(seed, "c13", rep, i)
            yield dict(nr=c["nr"], na=c["na"], rs=c["rs"], ro=c["ro"], ao=c["ao"], ens=c["ens"], lazy=bool(c["lazy"]),
                       source=c["source"], seed=int(r.integers(1 << 30)), tier=tier)
    # hand-picked: the smallest inputs on which "two halves add up to the total" is decided
    yield dict(nr=1, na=2, rs=1.0, ro=0.0, ao=0.0, ens="none", lazy=False, source="array", seed=1, tier=tier)
    yield dict(nr=2, na=4, rs=10.0, ro=0.0, ao=0.0, ens="scan", lazy=False, source="array", seed=2, tier=tier)
    yield dict(nr=3, na=4, rs=0.1, ro=0.0, ao="pi/4", ens="none", lazy=False, source="array", seed=3, tier=tier)


def _val(x):
    if isinstance(x, str):
        if x == "pi/4":
            return math.pi / 4
        a, b = x.split("/")
        return float(a) / float(b)
    return float(x)


def _build(case):
    import dask.array as da

    from abtem.core.axes import OrdinalAxis, ScanAxis
    from abtem.measurements import PolarMeasurements

    r = np.random.default_rng(case["seed"])
    nr, na = case["nr"], case["na"]
    rs, ro, ao = _val(case["rs"]), _val(case["ro"]), _val(case["ao"])
    if case["source"] == "segmented":
        # the real pipeline: SegmentedDetector on random waves; geometry comes out of the detector
        import abtem
        from abtem.detectors import SegmentedDetector
        from abtem.waves import Waves

        g = (24, 21)
        es = {"none": (), "scan": (3, 2), "ord+scan": (2, 2, 3), "line": (4,), "ord": (3,)}[case["ens"]]
        a = (r.normal(size=es + g) + 1j * r.normal(size=es + g)).astype(np.complex64)
        md = _axes(case["ens"], OrdinalAxis, ScanAxis)
        if case["lazy"] and es:
            a = da.from_array(a, chunks=(1,) + (-1,) * (len(es) - 1) + (-1, -1))
        w = Waves(a, energy=100e3, extent=(30.0, 26.0), ensemble_axes_metadata=md)
        outer = ro * 0.2 + max(nr * min(rs, 0.8), 3.0)  # a ring >= 3 mrad wide inside the simulated range (~ 14.2 mrad)
        det = SegmentedDetector(nbins_radial=nr, nbins_azimuthal=na, inner=ro * 0.2, outer=outer, rotation=ao,
                                to_cpu=True)
        if case["lazy"] and es:
            # SegmentedDetector.detect on lazy waves is covered by C12; here the measurement is what matters
            w = w.compute(scheduler="synchronous")
        pm = det.detect(w)
        return pm
    es = {"none": (), "scan": (3, 2), "ord+scan": (2, 2, 3), "line": (4,), "ord": (3,)}[case["ens"]]
    a = r.uniform(0.0, 1.0, size=es + (nr, na)).astype(np.float32)
    a *= np.float32(10.0) ** r.integers(-3, 4)
    if case["lazy"]:
        a = da.from_array(a, chunks=tuple(1 if i == 0 else -1 for i in range(len(es))) + (-1, -1))
    return PolarMeasurements(a, radial_sampling=rs, azimuthal_sampling=2 * math.pi / na, radial_offset=ro,
                             azimuthal_offset=ao, ensemble_axes_metadata=_axes(case["ens"], OrdinalAxis, ScanAxis))


def _axes(ens, OrdinalAxis, ScanAxis):
    if ens == "none":
        return []
    if ens == "scan":
        return [ScanAxis(label="x", sampling=0.4, units="Å"), ScanAxis(label="y", sampling=0.5, units="Å")]
    if ens == "ord+scan":
        return [OrdinalAxis(label="p", values=(0, 1)), ScanAxis(label="x", sampling=0.4, units="Å"),
                ScanAxis(label="y", sampling=0.5, units="Å")]
    if ens == "line":
        return [ScanAxis(label="x", sampling=0.4, units="Å")]
    return [OrdinalAxis(label="p", values=(0, 1, 2))]


def _np(x):
    arr = x.array if hasattr(x, "array") else x
    if hasattr(arr, "compute"):
        arr = arr.compute(scheduler="synchronous")
    return np.asarray(arr, dtype=np.float64)


def _short_decimal(x):
    return abs(round(x, 3) - x) < 1e-12


def run_case(case):
    import warnings

    warnings.filterwarnings("ignore")
    pm = _build(case)
    data = _np(pm)
    nr, na = data.shape[-2:]
    rad, azi = pm.axes_metadata[-2], pm.axes_metadata[-1]
    ro, rs, ao, as_ = float(rad.offset), float(rad.sampling), float(azi.offset), float(azi.sampling)
    total = data.sum((-2, -1))
    scale = float(np.abs(total).max())
    atol = 1e-5 * max(scale, 1e-30)
    nz = bool(np.any(data != 0))
    r = np.random.default_rng(case["seed"] + 1)
    literal_ok = _short_decimal(rs) and _short_decimal(ro)

    def redge(k, style):
        v = ro + k * rs
        return round(v, 6) if style == "literal" else v

    def aedge(j):
        return ao + j * as_

    def inside(lim, off, samp, n):
        eps = 1e-6 * samp
        return [k for k in range(n) if off + k * samp >= lim[0] - eps and off + (k + 1) * samp <= lim[1] + eps]

    def expect(rl, al):
        ks = list(range(nr)) if rl is None else inside(rl, ro, rs, nr)
        js = list(range(na)) if al is None else inside(al, ao, as_, na)
        return data[..., ks, :][..., js].sum((-2, -1)), ks, js

    def cmp(got, exp):
        got = _np(got)
        if got.shape != exp.shape:
            return False, f"shape {got.shape} != {exp.shape}"
        err = float(np.max(np.abs(got - exp))) if got.size else 0.0
        return err <= atol, f"max|got-exp|={err:.3e} (got {got.ravel()[:3]}, expected {exp.ravel()[:3]}, atol {atol:.1e})"

    out = []
    # ---- no limits -------------------------------------------------------------------------------
    ok, d = cmp(pm.integrate(), total)
    out.append(Res("C13/integrate/no-limits-equals-total", ok, f"{nr}x{na} bins: {d}", nz))

    # ---- all radial pairs ------------------------------------------------------------------------
    styles = ["exact", "literal"] if literal_ok else ["exact"]
    bad, n, proper = [], 0, False
    for st in styles:
        for k0 in range(nr):
            for k1 in range(k0 + 1, nr + 1):
                rl = (redge(k0, st), redge(k1, st))
                exp, ks, _ = expect(rl, None)
                proper = proper or len(ks) < nr
                got = pm.integrate(radial_limits=rl) if (k0 + k1) % 2 else pm.integrate_radial(rl[0], rl[1])
                ok, d = cmp(got, exp)
                n += 1
                if not ok:
                    bad.append(f"radial_limits={rl!r} ({st}; bins {k0}..{k1 - 1} of {nr}, offset {ro}, sampling {rs}): {d}")
    out.append(Res("C13/integrate/radial-limits-sum-bins-inside", not bad,
                   f"{len(bad)}/{n} edge-aligned radial pairs differ; first: " + " | ".join(bad[:2]), nz and (proper or nr == 1)))

    # ---- all azimuthal pairs ---------------------------------------------------------------------
    bad, n, proper = [], 0, False
    for j0 in range(na):
        for j1 in range(j0 + 1, na + 1):
            al = (aedge(j0), aedge(j1))
            exp, _, js = expect(None, al)
            proper = proper or len(js) < na
            ok, d = cmp(pm.integrate(azimuthal_limits=al), exp)
            n += 1
            if not ok:
                bad.append(f"azimuthal_limits={al!r} (bins {j0}..{j1 - 1} of {na}, offset {ao}, sampling {as_}, radial "
                           f"sampling {rs}): {d}")
    out.append(Res("C13/integrate/azimuthal-limits-sum-bins-inside", not bad,
                   f"{len(bad)}/{n} edge-aligned azimuthal pairs differ; first: " + " | ".join(bad[:2]), nz and (proper or na == 1)))

    # ---- combined pairs --------------------------------------------------------------------------
    ncomb = BOUNDS["combined_pairs_per_case"][case.get("tier", "quick")]
    bad, n = [], 0
    for _ in range(ncomb):
        k0 = int(r.integers(0, nr)); k1 = int(r.integers(k0 + 1, nr + 1))
        j0 = int(r.integers(0, na)); j1 = int(r.integers(j0 + 1, na + 1))
        rl, al = (redge(k0, "exact"), redge(k1, "exact")), (aedge(j0), aedge(j1))
        exp, _, _ = expect(rl, al)
        ok, d = cmp(pm.integrate(radial_limits=rl, azimuthal_limits=al), exp)
        n += 1
        if not ok:
            bad.append(f"radial_limits={rl!r} azimuthal_limits={al!r} (radial {k0}..{k1 - 1}, azimuthal {j0}..{j1 - 1}): {d}")
    out.append(Res("C13/integrate/both-limits-sum-bins-inside", not bad,
                   f"{len(bad)}/{n} combined pairs differ; first: " + " | ".join(bad[:2]), nz))

    # ---- partitions ------------------------------------------------------------------------------
    nparts = BOUNDS["partitions_per_case"][case.get("tier", "quick")]
    full = _np(pm.integrate())

    def partitions(nbins):
        yield list(range(nbins + 1))  # every bin on its own
        if nbins >= 2:
            yield [0, nbins // 2, nbins]  # two "halves"
        for _ in range(nparts):
            ncut = int(r.integers(0, nbins))
            cuts = sorted(r.choice(np.arange(1, nbins), size=min(ncut, nbins - 1), replace=False).tolist()) if nbins > 1 else []
            yield [0] + [int(c) for c in cuts] + [nbins]

    bad, n = [], 0
    for p in partitions(nr):
        s = sum(_np(pm.integrate(radial_limits=(redge(a, "exact"), redge(b, "exact")))) for a, b in zip(p[:-1], p[1:]))
        ok, d = cmp(s, full)
        n += 1
        if not ok:
            bad.append(f"radial cuts {p} (edges {[redge(k, 'exact') for k in p]}): {d}")
    out.append(Res("C13/integrate/radial-partition-sums-to-total", not bad,
                   f"{len(bad)}/{n} radial partitions differ; first: " + " | ".join(bad[:2]), nz))
    bad, n = [], 0
    for p in partitions(na):
        s = sum(_np(pm.integrate(azimuthal_limits=(aedge(a), aedge(b)))) for a, b in zip(p[:-1], p[1:]))
        ok, d = cmp(s, full)
        n += 1
        if not ok:
            bad.append(f"azimuthal cuts {p} (edges {[aedge(k) for k in p]}; offset {ao}, sampling {as_}, radial sampling "
                       f"{rs}): {d}")
    out.append(Res("C13/integrate/azimuthal-partition-sums-to-total", not bad,
                   f"{len(bad)}/{n} azimuthal partitions differ; first: " + " | ".join(bad[:2]), nz))
    return out
