"""C23 — apertures and partial-coherence envelopes stay within physical bounds (bounded run-time contract).

Contract on abtem.transfer.{hard_aperture, soft_aperture, Aperture, TemporalEnvelope, SpatialEnvelope, CTF}
(`_evaluate_kernel` on real grids, `_evaluate_from_angular_grid` on explicit samples):

  aperture A:            A real, finite, 0 <= A <= 1
  hard aperture:         A == 1  <=>  alpha <= cutoff,   A == 0 otherwise                         (exact)
  soft aperture:         alpha <= cutoff - px/2  ==>  A == 1 ;  alpha >= cutoff + px/2  ==>  A == 0
                         (px = the larger of the two angular pixel sizes lambda/(N_x d_x), lambda/(N_y d_y))
  temporal envelope Et:  real, finite, 0 <= Et <= 1, Et(alpha = 0) == 1                  (any focal spread)
  spatial envelope Es:   real, finite, 0 <= Es <= 1, Es(alpha = 0) == 1                  (angular spread >= 0)
  CTF:                   |CTF| <= A  pointwise, where A is the kernel of an independently constructed Aperture with
                         the same cutoff/edge/energy/grid; hence |CTF| <= 1 and CTF == 0 beyond cutoff (+ px/2)

Oracle: the bounds of the statement evaluated on a float64 angle grid rebuilt here from numpy.fft.fftfreq and the
closed relativistic wavelength; for the CTF clause an independent Aperture run. No abTEM formula is re-implemented.
"""

import math

from vlib.hx import Res, covering, rng_for

PROPERTY = "C23"
RULE = ("(aperture) pairwise covering of edge {soft, hard} x host class {Aperture, CTF without aberrations} x gpts "
        "parity (4) x square/non-square x isotropic/anisotropic sampling x grid given by sampling/extent x cutoff regime "
        "{below half a pixel, exactly on a pixel ring, 30 %, 60 %, 95 % of the axis Nyquist angle, beyond the grid "
        "corner, infinite} x number of cutoffs in the ensemble {1 scalar, 2, 3}, plus seeded extras; (hard-exact) "
        "explicit samples alpha in {0, cutoff, nextafter(cutoff, +-)} + random, float64/float32; (temporal) focal "
        "spreads 0..400 A incl. negative and ensembles, on grids and explicit samples; (spatial) angular spreads "
        "0..5 mrad incl. 0 and ensembles x seeded aberration sets up to 5th order (also ensembles); (ctf) all of it "
        "combined, aperture bound against an independent Aperture, then re-evaluated after mutating cutoff/energy/"
        "grid/coefficients. Non-trivial: the kernel is not constant; distinct = distinct case dict")
BOUNDS = {"energy_eV": [2e4, 1e6], "gpts": [2, 36], "sampling_A": [0.04, 0.3], "cutoff_mrad": [0.0, "inf"],
          "focal_spread_A": [-100.0, 400.0], "angular_spread_mrad": [0.0, 5.0],
          "aperture_extra": {"quick": 40, "thorough": 1500}, "hard_exact": {"quick": 30, "thorough": 600},
          "temporal": {"quick": 40, "thorough": 800}, "spatial": {"quick": 60, "thorough": 1500},
          "ctf": {"quick": 90, "thorough": 2500}}
EXHAUSTIVE = False
ASSUMPTIONS = ["float32 pipeline: pixels whose float64 angle lies within 2e-6*cutoff (hard edge) or within 1e-3 pixel of "
               "cutoff -+ px/2 (soft edge) of a decision boundary are not judged on grids; the exact boundary "
               "alpha == cutoff is judged on explicit float64 samples",
               "'half a pixel' = half of the larger of the two angular pixel sizes (the weakest reading)",
               "|CTF| <= aperture + 2e-6 (unit-modulus factor is accurate to float32 rounding)",
               "range checks are exact: min >= 0, max <= 1, value at alpha = 0 == 1 exactly",
               "Wiener filtering (wiener_snr != 0) is outside the quantifier of C23 and is not exercised; flip_phase "
               "(modulus preserving) is",
               "cutoff unit: mrad on the API, rad in the angle grid (factor 1e-3 applied in float64)"]
CONTRACTS = ["abtem/transfer.py:hard_aperture", "abtem/transfer.py:soft_aperture",
             "abtem/transfer.py:Aperture._evaluate_from_angular_grid",
             "abtem/transfer.py:TemporalEnvelope._evaluate_from_angular_grid",
             "abtem/transfer.py:SpatialEnvelope._evaluate_from_angular_grid",
             "abtem/transfer.py:CTF._evaluate_from_angular_grid", "abtem/transfer.py:BaseTransferFunction._evaluate_kernel"]

REGIMES = ["tiny", "on-ring", "0.3", "0.6", "0.95", "beyond", "inf"]
HARMONICS = [(n, m) for n in range(1, 6) for m in range(0, n + 2) if (n + m) % 2 == 1]


# ------------------------------------------------------------------------------------------- generation


def _wavelength(energy):
    from ase import units

    ej = energy * units._e
    return units._hplanck * units._c / math.sqrt(ej * (ej + 2 * units._me * units._c ** 2)) * 1e10


def _energy(r):
    return float(r.choice([20e3, 30e3, 60e3, 80e3, 100e3, 200e3, 300e3, 1e6])) if r.random() < 0.5 \
        else float(10 ** r.uniform(math.log10(2e4), 6))


def _grid_spec(r, parity=None, square=None, iso=None, via=None):
    pa, pb = parity if parity is not None else (int(r.integers(2)), int(r.integers(2)))
    gx = int(r.integers(3, 18)) * 2 + pa
    gy = int(r.integers(3, 18)) * 2 + pb
    if square if square is not None else r.random() < 0.3:
        gy = gx - (gx % 2) + pb
    sx = float(r.uniform(0.04, 0.3))
    sy = sx if (iso if iso is not None else r.random() < 0.4) else float(r.uniform(0.04, 0.3))
    return dict(gpts=[gx, gy], sampling=[sx, sy], via=via or str(r.choice(["sampling", "extent"])))


def _cutoff(r, regime, grid, lam):
    """cutoff in mrad for a regime, relative to the actual angular grid."""
    (gx, gy), (sx, sy) = grid["gpts"], grid["sampling"]
    px = (lam / (gx * sx) * 1e3, lam / (gy * sy) * 1e3)  # mrad
    nyq = min(px[0] * (gx // 2), px[1] * (gy // 2))
    corner = math.hypot(px[0] * (gx // 2), px[1] * (gy // 2))
    if regime == "tiny":
        return float(r.uniform(0.0, 0.45) * min(px))
    if regime == "on-ring":
        k = int(r.integers(1, max(2, min(gx, gy) // 2)))
        return float(k * px[int(r.integers(2))])
    if regime == "beyond":
        return float(corner * r.uniform(1.05, 2.0))
    if regime == "inf":
        return "inf"
    return float(float(regime) * nyq * r.uniform(0.9, 1.1))


def _aberrations(r, lam, amax, big=False):
    p = {}
    nh = int(r.integers(0, 6))
    for j in r.choice(len(HARMONICS), nh, replace=False):
        n, m = HARMONICS[int(j)]
        phase = float(r.uniform(0.5, 400.0 if big else 30.0))
        p[f"C{n}{m}"] = float((-1.0 if r.random() < 0.5 else 1.0) * phase * (n + 1) * lam / (2 * math.pi * amax ** (n + 1)))
        if m:
            p[f"phi{n}{m}"] = float(r.uniform(-math.pi, math.pi))
    return p


def _amax(grid, lam):
    (gx, gy), (sx, sy) = grid["gpts"], grid["sampling"]
    return math.hypot(lam / (gx * sx) * (gx // 2), lam / (gy * sy) * (gy // 2))


def cases(tier, seed):
    axes = dict(soft=[True, False], host=["Aperture", "CTF"], parity=[(0, 0), (0, 1), (1, 0), (1, 1)],
                square=[True, False], iso=[True, False], via=["sampling", "extent"], regime=REGIMES, ncut=[1, 2, 3])
    rows = covering(axes, seed=seed, extra_random=BOUNDS["aperture_extra"][tier])
    for i, row in enumerate(rows):
        r = rng_for(seed, "aperture", i)
        energy = _energy(r)
        lam = _wavelength(energy)
        grid = _grid_spec(r, row["parity"], row["square"], row["iso"], row["via"])
        cut = [_cutoff(r, row["regime"], grid, lam)]
        for _ in range(row["ncut"] - 1):
            cut.append(_cutoff(r, str(r.choice([g for g in REGIMES if g != "inf"])), grid, lam))
        if "inf" in cut:
            cut = ["inf"]
        yield dict(kind="aperture", soft=row["soft"], host=row["host"], energy=energy, grid=grid, cutoff=cut,
                   regime=row["regime"])

    # an ensemble of cutoffs whose length equals the number of grid points along y (shapes that broadcast by accident)
    for soft in (False, True):
        for gpts, ncut in (([12, 3], 3), ([9, 2], 2), ([4, 4], 4)):
            r = rng_for(seed, "aperture-accidental", soft, gpts)
            energy = _energy(r)
            grid = dict(gpts=gpts, sampling=[float(r.uniform(0.1, 0.3)), float(r.uniform(0.1, 0.3))], via="sampling")
            cut = [_cutoff(r, g, grid, _wavelength(energy)) for g in ["0.3", "0.6", "0.95", "on-ring"][:ncut]]
            yield dict(kind="aperture", soft=soft, host="Aperture", energy=energy, grid=grid, cutoff=cut, regime="accidental")

    for i in range(BOUNDS["hard_exact"][tier]):
        r = rng_for(seed, "hard-exact", i)
        c = float(r.choice([5.0, 10.0, 20.0, 20.5, 30.0, 0.1])) if i % 2 == 0 else float(r.uniform(0.5, 60.0))
        yield dict(kind="hard-exact", energy=_energy(r), cutoff=c, dtype=["float64", "float32"][(i // 2) % 2],
                   host=["Aperture", "CTF"][(i // 4) % 2], n=int(r.integers(8, 40)), sseed=int(r.integers(1 << 30)),
                   layout=["1d", "2d"][(i // 8) % 2])

    for i in range(BOUNDS["temporal"][tier]):
        r = rng_for(seed, "temporal", i)
        nf = [1, 1, 2, 3][i % 4]
        fs = [float(r.choice([0.0, 1.0, 10.0, 50.0, 400.0, -30.0])) if r.random() < 0.4 else float(r.uniform(-100, 400))
              for _ in range(nf)]
        yield dict(kind="temporal", energy=_energy(r), grid=_grid_spec(r), focal_spread=fs,
                   host=["TemporalEnvelope", "CTF"][(i // 4) % 2], sseed=int(r.integers(1 << 30)))

    for i in range(BOUNDS["spatial"][tier]):
        r = rng_for(seed, "spatial", i)
        energy = _energy(r)
        lam = _wavelength(energy)
        grid = _grid_spec(r)
        na = [1, 1, 2, 3][i % 4]
        spread = [float(r.choice([0.0, 0.1, 1.0, 5.0])) if r.random() < 0.4 else float(r.uniform(0, 5)) for _ in range(na)]
        p = _aberrations(r, lam, _amax(grid, lam), big=(i % 3 == 0))
        ens = None
        cs = sorted(k for k in p if k.startswith("C"))
        if cs and i % 5 in (1, 3):
            key = cs[int(r.integers(len(cs)))]
            ens = dict(symbol=key, values=[float(p[key] * f) for f in r.uniform(-1, 2, int(r.integers(2, 4)))])
        yield dict(kind="spatial", energy=energy, grid=grid, angular_spread=spread, coeffs=p, ensemble=ens,
                   host=["SpatialEnvelope", "CTF"][(i // 4) % 2], sseed=int(r.integers(1 << 30)))

    for i in range(BOUNDS["ctf"][tier]):
        r = rng_for(seed, "ctf", i)
        energy = _energy(r)
        lam = _wavelength(energy)
        grid = _grid_spec(r, parity=[(0, 0), (0, 1), (1, 0), (1, 1)][i % 4])
        regime = [g for g in REGIMES if g != "inf"][i % 6]
        ncut = [1, 1, 2, 3][(i // 6) % 4]
        cut = [_cutoff(r, regime, grid, lam)] + [_cutoff(r, str(r.choice(["0.3", "0.6", "0.95", "on-ring"])), grid, lam)
                                                 for _ in range(ncut - 1)]
        p = _aberrations(r, lam, _amax(grid, lam), big=(i % 4 == 0))
        ens = None
        cs = sorted(k for k in p if k.startswith("C"))
        if cs and i % 3 == 1:
            key = cs[int(r.integers(len(cs)))]
            ens = dict(symbol=key, values=[float(p[key] * f) for f in r.uniform(-1, 2, int(r.integers(2, 4)))])
        nfs, nas = [0, 1, 2][(i // 2) % 3], [0, 1, 3][(i // 3) % 3]
        mut = None
        if i % 2 == 0:
            g2 = _grid_spec(r)
            e2 = _energy(r)
            mut = dict(energy=e2, grid=g2, cutoff=_cutoff(r, str(r.choice(["0.3", "0.6", "on-ring"])), g2, _wavelength(e2)),
                       defocus=float(r.uniform(-300, 300)), focal_spread=float(r.uniform(0, 100)))
        soft = bool(i % 2 == 0) if i % 5 else bool(i % 2)
        if not soft and ncut > 1 and (i // 6) % 8 not in (2, 3):
            soft = True  # hard edge x ensemble of cutoffs is covered by the aperture group and a few cases here
        yield dict(kind="ctf", soft=soft, energy=energy, grid=grid, cutoff=cut,
                   coeffs=p, ensemble=ens, focal_spread=[float(r.uniform(1, 200)) for _ in range(nfs)],
                   angular_spread=[float(r.uniform(0.05, 4)) for _ in range(nas)], flip_phase=bool(i % 7 == 3),
                   mutate=mut)


# ---------------------------------------------------------------------------------------------- helpers


def _grid_kwargs(grid):
    gpts, samp = tuple(grid["gpts"]), tuple(grid["sampling"])
    if grid["via"] == "sampling":
        return dict(gpts=gpts, sampling=samp)
    return dict(gpts=gpts, extent=(gpts[0] * samp[0], gpts[1] * samp[1]))


def _angles(np, grid, lam):
    (gx, gy), (sx, sy) = grid["gpts"], grid["sampling"]
    kx, ky = np.fft.fftfreq(gx, sx), np.fft.fftfreq(gy, sy)
    alpha = np.sqrt(kx[:, None] ** 2 + ky[None, :] ** 2) * lam
    return alpha, max(lam / (gx * sx), lam / (gy * sy))


def _scalar_or_list(v):
    v = [math.inf if x == "inf" else x for x in v]
    return v[0] if len(v) == 1 else list(v)


def _range(np, k, what):
    """(ok, detail) for: real, finite, within [0, 1]."""
    k = np.asarray(k)
    if np.iscomplexobj(k):
        return False, f"{what}: complex dtype {k.dtype}"
    if not np.all(np.isfinite(k)):
        return False, f"{what}: non-finite values ({int((~np.isfinite(k)).sum())} of {k.size})"
    return bool(k.min() >= 0.0 and k.max() <= 1.0), f"{what}: min={float(k.min())!r} max={float(k.max())!r} dtype={k.dtype}"


def _members(np, k, n_members, base_shape, what):
    """Split the kernel into its ensemble members (leading axis = cutoffs) or explain why that is impossible."""
    k = np.asarray(k)
    want = ((n_members,) if n_members > 1 else ()) + tuple(base_shape)
    if k.shape != want:
        return None, f"{what}: kernel shape {k.shape}, expected {want} ({n_members} cutoff(s) on grid {tuple(base_shape)})"
    return (list(k) if n_members > 1 else [k]), ""


def _edge_check(np, members, cutoffs, soft, alpha, px):
    """hard: 1 <=> alpha <= c ; soft: 1 below c - px/2, 0 above c + px/2. Returns ok, detail, judged_inside, judged_outside."""
    ok, details, n_in, n_out = True, [], 0, 0
    for k, c_mrad in zip(members, cutoffs):
        c = math.inf if c_mrad == "inf" else float(c_mrad) * 1e-3
        if soft:
            inside = alpha <= c - (0.5 + 1e-3) * px
            outside = alpha >= c + (0.5 + 1e-3) * px
        else:
            band = 2e-6 * (c if math.isfinite(c) else 0.0)
            inside = alpha <= c - band
            outside = alpha > c + band
        bad_in = inside & (k != 1.0)
        bad_out = outside & (k != 0.0)
        n_in += int(inside.sum())
        n_out += int(outside.sum())
        if bad_in.any() or bad_out.any():
            ok = False
            which = bad_in if bad_in.any() else bad_out
            i = tuple(int(x[0]) for x in np.nonzero(which))
            details.append(f"cutoff {c_mrad} mrad ({'soft' if soft else 'hard'}): pixel {i} alpha={float(alpha[i]) * 1e3:.6f} mrad "
                           f"(half pixel {px * 500:.6f} mrad) has A={float(k[i])!r}, expected {'1' if bad_in.any() else '0'}; "
                           f"{int(bad_in.sum())} wrong inside, {int(bad_out.sum())} wrong outside")
    return ok, "; ".join(details[:3]) or f"{n_in} pixels judged inside, {n_out} outside", n_in, n_out


# -------------------------------------------------------------------------------------------------- run


def run_case(case):
    import numpy as np

    return globals()["_run_" + case["kind"].replace("-", "_")](np, case)


def _run_aperture(np, case):
    from abtem.transfer import CTF, Aperture

    out = []
    lam = _wavelength(case["energy"])
    grid = case["grid"]
    alpha, px = _angles(np, grid, lam)
    cut = case["cutoff"]
    cls = Aperture if case["host"] == "Aperture" else CTF
    obj = cls(semiangle_cutoff=_scalar_or_list(cut), soft=case["soft"], energy=case["energy"], **_grid_kwargs(grid))
    k = obj._evaluate_kernel()
    if case["host"] == "CTF":
        k = np.asarray(k)
        imag = float(np.abs(k.imag).max()) if np.iscomplexobj(k) else 0.0
        out.append(Res("C23/ctf/aperture-only-is-real", imag == 0.0, f"CTF without aberrations: max|imag|={imag!r}", True))
        k = k.real
    tag = f"{case['host']}(cutoff={cut}, soft={case['soft']}, E={case['energy']!r}, gpts={grid['gpts']}, sampling={grid['sampling']})"
    ok, detail = _range(np, k, tag)
    nt = bool(np.asarray(k).min() != np.asarray(k).max())
    out.append(Res("C23/aperture/in-unit-interval", ok, detail, nt))
    members, why = _members(np, k, len(cut), alpha.shape, tag)
    name = "C23/soft-aperture/one-inside-zero-outside-half-pixel" if case["soft"] else \
        "C23/hard-aperture/one-up-to-cutoff-zero-beyond"
    if members is None:
        out.append(Res(name, False, why, True))
        return out
    ok, detail, n_in, n_out = _edge_check(np, members, cut, case["soft"], alpha, px)
    out.append(Res(name, ok, f"{tag}: {detail}", n_in > 0 and n_out > 0))
    return out


def _run_hard_exact(np, case):
    from abtem.transfer import CTF, Aperture

    out = []
    r = np.random.default_rng(case["sseed"])
    c = np.float64(case["cutoff"]) * 1e-3
    special = [0.0, c, np.nextafter(c, 0.0), np.nextafter(c, 1.0), c * (1 - 1e-12), c * (1 + 1e-12), 2 * c, c / 2]
    alpha = np.concatenate([special, r.uniform(0, 2 * c, case["n"])])
    dt = np.float32 if case["dtype"] == "float32" else np.float64
    alpha = alpha.astype(dt)
    if case["layout"] == "2d":
        alpha = np.resize(alpha, (len(alpha) // 4, 4))
    phi = r.uniform(-np.pi, np.pi, alpha.shape).astype(dt)
    cls = Aperture if case["host"] == "Aperture" else CTF
    obj = cls(semiangle_cutoff=case["cutoff"], soft=False, energy=case["energy"])
    k = np.asarray(obj._evaluate_from_angular_grid(alpha, phi))
    if np.iscomplexobj(k):
        k = k.real if float(np.abs(k.imag).max()) == 0.0 else k
    a64 = alpha.astype(np.float64)
    want = (a64 <= c).astype(np.float64)
    judged = np.ones(a64.shape, bool) if case["dtype"] == "float64" else (np.abs(a64 - c) > 2e-6 * c)
    okr, dr = _range(np, k, "hard aperture on explicit samples")
    out.append(Res("C23/aperture/in-unit-interval", okr, dr, True))
    if k.shape != a64.shape:
        out.append(Res("C23/hard-aperture/one-up-to-cutoff-zero-beyond", False, f"shape {k.shape} != {a64.shape}", True))
        return out
    bad = judged & (k != want)
    i = tuple(int(x[0]) for x in np.nonzero(bad)) if bad.any() else None
    out.append(Res("C23/hard-aperture/one-up-to-cutoff-zero-beyond", not bad.any(),
                   f"{case['host']}(cutoff={case['cutoff']} mrad, soft=False) on explicit {case['dtype']} samples: " +
                   (f"alpha={float(a64[i])!r} rad vs cutoff {float(c)!r} rad -> A={float(k[i])!r}, expected {float(want[i])!r} "
                    f"({int(bad.sum())} wrong)" if i is not None else f"{int(judged.sum())} samples agree, boundary sample "
                    f"alpha==cutoff included: {case['dtype'] == 'float64'}"), True))
    return out


def _envelope_checks(np, k, zero_index, what, out, prefix, nt=True):
    ok, detail = _range(np, k, what)
    k = np.asarray(k)
    out.append(Res(f"{prefix}/in-unit-interval", ok, detail, nt and bool(k.min() != k.max())))
    z = k[zero_index]
    out.append(Res(f"{prefix}/one-at-zero-angle", bool(np.all(z == 1.0)),
                   f"{what}: value(s) at alpha=0: {np.asarray(z).ravel()[:8].tolist()!r}", nt))


def _run_temporal(np, case):
    from abtem.transfer import CTF, TemporalEnvelope

    out = []
    fs = _scalar_or_list(case["focal_spread"])
    grid = case["grid"]
    what = f"{case['host']}(focal_spread={fs}, E={case['energy']!r}, gpts={grid['gpts']}, sampling={grid['sampling']})"
    if case["host"] == "TemporalEnvelope":
        obj = TemporalEnvelope(focal_spread=fs, energy=case["energy"], **_grid_kwargs(grid))
        k = obj._evaluate_kernel()
    else:
        obj = CTF(focal_spread=fs, energy=case["energy"], **_grid_kwargs(grid))
        k = np.asarray(obj._evaluate_kernel())
        imag = float(np.abs(k.imag).max()) if np.iscomplexobj(k) else 0.0
        out.append(Res("C23/ctf/envelope-only-is-real", imag == 0.0, f"{what}: max|imag|={imag!r}", True))
        k = k.real
    nt = any(f != 0.0 for f in case["focal_spread"])
    _envelope_checks(np, k, (Ellipsis, 0, 0), what, out, "C23/temporal-envelope", nt)
    # explicit samples (as CTF.profiles does), first sample alpha = 0
    r = np.random.default_rng(case["sseed"])
    alpha = np.concatenate([[0.0], r.uniform(0, 0.08, 24)]).astype(np.float32 if case["sseed"] % 2 else np.float64)
    env = TemporalEnvelope(focal_spread=fs, energy=case["energy"])
    k2 = env._evaluate_from_angular_grid(alpha, np.zeros_like(alpha))
    _envelope_checks(np, k2, (Ellipsis, 0), what + " on explicit samples", out, "C23/temporal-envelope", nt)
    return out


def _coeff_kwargs(np, case):
    kw = dict(case["coeffs"])
    if case.get("ensemble"):
        kw[case["ensemble"]["symbol"]] = np.array(case["ensemble"]["values"])
    return kw


def _run_spatial(np, case):
    from abtem.transfer import CTF, SpatialEnvelope

    out = []
    spread = _scalar_or_list(case["angular_spread"])
    grid = case["grid"]
    kw = _coeff_kwargs(np, case)
    what = (f"{case['host']}(angular_spread={spread}, E={case['energy']!r}, gpts={grid['gpts']}, sampling={grid['sampling']}, "
            f"coefficients={case['coeffs']}, ensemble={case.get('ensemble')})")
    nt = any(s != 0.0 for s in case["angular_spread"]) and any(v != 0.0 for k_, v in case["coeffs"].items() if k_.startswith("C"))
    if case["host"] == "SpatialEnvelope":
        obj = SpatialEnvelope(angular_spread=spread, energy=case["energy"], **_grid_kwargs(grid), **kw)
        k = obj._evaluate_kernel()
        _envelope_checks(np, k, (Ellipsis, 0, 0), what, out, "C23/spatial-envelope", nt)
    else:
        obj = CTF(angular_spread=spread, energy=case["energy"], **_grid_kwargs(grid), **kw)
        k = np.abs(np.asarray(obj._evaluate_kernel()))
        # |CTF| == spatial envelope here (aberration factor has unit modulus): range up to float32 rounding of the modulus
        ok = bool(np.all(np.isfinite(k)) and k.max() <= 1.0 + 2e-6)
        out.append(Res("C23/ctf/modulus-at-most-one", ok, f"{what}: max|CTF|={float(k.max())!r}", nt))
        z = k[(Ellipsis, 0, 0)]
        out.append(Res("C23/spatial-envelope/one-at-zero-angle", bool(np.all(np.abs(z - 1.0) <= 2e-6)),
                       f"{what}: |CTF| at alpha=0: {np.asarray(z).ravel()[:8].tolist()!r}", nt))
    r = np.random.default_rng(case["sseed"])
    alpha = np.concatenate([[0.0], r.uniform(0, 0.06, 24)]).astype(np.float32 if case["sseed"] % 2 else np.float64)
    phi = r.uniform(-np.pi, np.pi, alpha.shape).astype(alpha.dtype)
    env = SpatialEnvelope(angular_spread=spread, energy=case["energy"], **kw)
    k2 = env._evaluate_from_angular_grid(alpha, phi)
    _envelope_checks(np, k2, (Ellipsis, 0), what + " on explicit samples", out, "C23/spatial-envelope", nt)
    return out


def _ctf_bound(np, ctf_kwargs, soft, cut, energy, grid, out, note=""):
    """|CTF| <= independent Aperture, |CTF| <= 1, CTF == 0 beyond the edge; members matched on the trailing cutoff axis."""
    from abtem.transfer import CTF, Aperture

    lam = _wavelength(energy)
    alpha, px = _angles(np, grid, lam)
    ctf = ctf_kwargs if isinstance(ctf_kwargs, CTF) else CTF(semiangle_cutoff=_scalar_or_list(cut), soft=soft, energy=energy,
                                                             **_grid_kwargs(grid), **ctf_kwargs)
    k = np.abs(np.asarray(ctf._evaluate_kernel()))
    ap = np.asarray(Aperture(semiangle_cutoff=_scalar_or_list(cut), soft=soft, energy=energy,
                             **_grid_kwargs(grid))._evaluate_kernel())
    what = f"{note}CTF(cutoff={cut}, soft={soft}, E={energy!r}, gpts={grid['gpts']}, sampling={grid['sampling']})"
    ncut = len(cut)
    tail = ((ncut,) if ncut > 1 else ()) + alpha.shape
    if k.shape[k.ndim - len(tail):] != tail or ap.shape != tail:
        out.append(Res("C23/ctf/at-most-its-aperture", False,
                       f"{what}: |CTF| shape {k.shape}, aperture shape {ap.shape}, expected trailing {tail}", True))
        return ctf
    fin = bool(np.all(np.isfinite(k)))
    excess = k - ap  # broadcasts over leading ensemble axes
    i = np.unravel_index(int(np.argmax(excess)), excess.shape)
    out.append(Res("C23/ctf/at-most-its-aperture", fin and bool(excess.max() <= 2e-6),
                   f"{what}: max(|CTF| - aperture) = {float(excess.max())!r} at {tuple(int(x) for x in i)} (|CTF|={float(k[i])!r}); "
                   f"finite={fin}", bool(ap.min() != ap.max())))
    out.append(Res("C23/ctf/modulus-at-most-one", fin and bool(k.max() <= 1.0 + 2e-6), f"{what}: max|CTF|={float(k.max())!r}", True))
    # beyond the edge the CTF must vanish, independent of the Aperture implementation
    ok, n_out, worst = True, 0, ""
    for j, c_mrad in enumerate(cut):
        c = float(c_mrad) * 1e-3
        outside = (alpha >= c + (0.5 + 1e-3) * px) if soft else (alpha > c * (1 + 2e-6))
        kj = k[(Ellipsis, j, slice(None), slice(None))] if ncut > 1 else k
        vals = kj[(Ellipsis,) + np.nonzero(outside)] if outside.any() else np.zeros(0)
        n_out += int(outside.sum())
        if vals.size and float(vals.max()) != 0.0:
            ok = False
            worst = f"cutoff {c_mrad} mrad: max |CTF| beyond the edge = {float(vals.max())!r}"
    out.append(Res("C23/ctf/zero-beyond-aperture-edge", ok, f"{what}: {worst or str(n_out) + ' pixels beyond the edge all zero'}",
                   n_out > 0))
    return ctf


def _run_ctf(np, case):
    out = []
    kw = _coeff_kwargs(np, case)
    if case["focal_spread"]:
        kw["focal_spread"] = _scalar_or_list(case["focal_spread"])
    if case["angular_spread"]:
        kw["angular_spread"] = _scalar_or_list(case["angular_spread"])
    if case["flip_phase"]:
        kw["flip_phase"] = True
    note = f"[coefficients={case['coeffs']}, ensemble={case.get('ensemble')}, focal={case['focal_spread']}, angular={case['angular_spread']}, flip={case['flip_phase']}] "
    ctf = _ctf_bound(np, kw, case["soft"], case["cutoff"], case["energy"], case["grid"], out, note)
    mut = case.get("mutate")
    if mut:
        # reuse of the same object after mutation: every bound must follow the new parameters
        g = mut["grid"]
        ctf.energy = mut["energy"]
        ctf.extent = (g["gpts"][0] * g["sampling"][0], g["gpts"][1] * g["sampling"][1])
        ctf.gpts = tuple(g["gpts"])
        g = dict(gpts=[int(n) for n in ctf.gpts], sampling=[float(d) for d in ctf.sampling], via="sampling")
        ctf.semiangle_cutoff = mut["cutoff"]
        ctf.defocus = mut["defocus"]
        ctf.focal_spread = mut["focal_spread"]
        _ctf_bound(np, ctf, case["soft"], [mut["cutoff"]], mut["energy"], g, out,
                   note + f"[after mutation to {mut}] ")
    return out
