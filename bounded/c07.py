"""C07 — thickness series are consistent with truncated simulations (bounded run-time contract).

Contract on Probe/PlaneWave .multislice through a potential with several exit planes
(multislice_and_detect exit-plane bookkeeping, BaseField._exit_plane_after / exit_thicknesses, _validate_exit_planes):

  (truncated)  result[j] == simulate(the first exit_planes[j]+1 slices only)            for every exit plane j >= 0
  (last)       result[last] == simulate(same potential, exit_planes=None)               when the last plane is the last slice
  (entrance)   result[j] == detect(incident wave)                                       when exit_planes[j] == -1
  (axis)       ThicknessAxis.values[j] == sum(slice_thickness[:exit_planes[j]+1])  (0 for the entrance plane),
               and the axis has one entry per exit plane

Oracle: independent simulations through explicitly truncated PotentialArray(array[:p+1], slice_thickness[:p+1]) objects
built per configuration from the non-ensemble builder (never through FieldArray.__getitem__, which keeps the parent's
exit planes — DESIGN.md §8 triage note), the detector applied to the freshly built incident wave, and numpy cumsum.
"""

from vlib.hx import Res, rng_for, covering

PROPERTY = "C07"

_AXES = {
    "kind": ["atoms", "array", "crystal", "fp_nomean", "fp_mean", "ens_nomean"],
    "exit_planes": ["1", "2", "3", "tuple", "tuple_entrance", "tuple_open"],
    "builder": ["probe_point", "probe_line", "planewave"],
    "detectors": ["waves", "annular", "pixelated", "flexible", "two"],
    "lazy": [True, False],
    "thickness": ["uniform", "explicit"],
    "nslices": [2, 3, 4, 5, 6],
    "grid": ["16x16", "15x18", "12x20"],
}

RULE = ("pairwise covering array over potential kind (Potential from Atoms, PotentialArray, CrystalPotential, "
        "FrozenPhonons with/without ensemble mean, AtomsEnsemble) x exit_planes (int 1/2/3, explicit tuple ending at the "
        "last slice, explicit tuple starting with the entrance plane -1, explicit tuple not ending at the last slice) x "
        "builder x detector set x evaluation mode x slice-thickness sequence (uniform / explicit non-uniform) x number of "
        "slices 2..6 x grid parity, plus seeded random rows and 16 fixed boundary rows (single exit plane before the last "
        "slice with ensembles of size 1 and 2 in both modes; int exit_planes >= number of slices); continuous parameters are seeded. Every exit plane of every "
        "case is checked against its own truncated simulation. Non-trivial: more than one exit plane and non-zero arrays. "
        "Distinct = distinct case dict.")
BOUNDS = {"axes": _AXES, "atoms": "<= 5", "configurations": "1..3",
          "rows": {"quick": "covering array + 15 random rows", "thorough": "3 covering arrays + 3 x 150 random rows"}}
EXHAUSTIVE = False
ASSUMPTIONS = [
    "values compared with max-abs error <= 1e-5 * max|reference| (float32 pipeline)",
    "thickness axis values compared with abs tolerance 1e-6 A against numpy cumsum of the slice thicknesses",
    "which slices are exit planes is read from potential.exit_planes (the mapping int -> planes is a separate proof "
    "obligation on _validate_exit_planes); explicit tuples are passed through unchanged",
    "for ensemble potentials the truncated reference is computed per configuration from Potential(list(fp)[k]) and "
    "averaged with numpy when the result has no frozen-phonon axis",
]
CONTRACTS = [
    "abtem/multislice.py:multislice_and_detect",
    "abtem/multislice.py:_validate_potential_ensemble_indices",
    "abtem/potentials/iam.py:_validate_exit_planes",
    "abtem/potentials/iam.py:BaseField._exit_plane_after",
    "abtem/potentials/iam.py:BaseField.exit_thicknesses",
]


def _finish(row, seed, i):
    r = rng_for(seed, "c07", i, sorted((k, str(v)) for k, v in row.items()))
    c = dict(row)
    n = c["nslices"]
    if c["kind"] == "crystal" and n % 2:
        n += 1  # unit cell of n/2 slices repeated twice
    if c["exit_planes"] == "tuple_open" and n < 3:
        n = 3
    c["nslices"] = n
    c["atoms"] = ["si", "two", "random"][int(r.integers(3))]
    c["aseed"] = int(r.integers(1000))
    c["size"] = [round(float(r.uniform(3.2, 5.0)), 3), round(float(r.uniform(3.2, 5.0)), 3)]
    if c["thickness"] == "explicit":
        c["slice_thickness"] = [round(float(t), 3) for t in r.uniform(0.5, 1.5, n)]
    else:
        c["slice_thickness"] = round(float(r.uniform(0.7, 1.3)), 3)
    c["energy"] = float([80e3, 100e3, 200e3, 300e3][int(r.integers(4))])
    c["sigma"] = round(float(r.uniform(0.06, 0.2)), 3)
    c["nconf"] = int(r.integers(2, 4))
    c["fpseed"] = int(r.integers(1, 100_000))
    c["defocus"] = round(float(r.uniform(-50, 50)), 2)
    c["projection"] = "infinite" if r.uniform() < 0.8 else "finite"
    # explicit planes
    if c["exit_planes"] == "tuple":
        inner = sorted(int(x) for x in r.choice(n - 1, size=min(n - 1, int(r.integers(1, 3))), replace=False)) if n > 1 else []
        c["planes"] = inner + [n - 1]
    elif c["exit_planes"] == "tuple_entrance":
        inner = sorted(int(x) for x in r.choice(n - 1, size=min(n - 1, int(r.integers(0, 3))), replace=False)) if n > 1 else []
        c["planes"] = [-1] + inner + [n - 1]
    elif c["exit_planes"] == "tuple_open":
        c["planes"] = sorted(int(x) for x in r.choice(n - 1, size=min(n - 1, int(r.integers(1, 3))), replace=False))
    else:
        c["planes"] = None
    return c


def _edge_rows():
    """Boundary rows kept in every tier: a single exit plane that is not the last slice, for ensembles of size 1 and 2,
    both evaluation modes (the shortcut path of multislice_and_detect without preallocated measurements), and the
    degenerate int exit_planes >= number of slices."""
    rows = []
    for kind in ("fp_nomean", "ens_nomean", "fp_mean", "atoms"):
        for lazy in (True, False):
            for nconf in (1, 2):
                if kind == "atoms" and nconf == 2:
                    continue
                rows.append(dict(kind=kind, exit_planes="tuple_open", builder="planewave" if nconf == 1 else "probe_point",
                                 detectors="waves" if lazy else "pixelated", lazy=lazy, thickness="uniform",
                                 nslices=3 + nconf, grid="16x16", _nconf=nconf, _planes=[1]))
    rows.append(dict(kind="fp_nomean", exit_planes="3", builder="planewave", detectors="waves", lazy=True,
                     thickness="explicit", nslices=2, grid="15x18"))
    rows.append(dict(kind="atoms", exit_planes="3", builder="probe_line", detectors="annular", lazy=False,
                     thickness="explicit", nslices=3, grid="15x18"))
    return rows


def cases(tier, seed):
    reps = 1 if tier == "quick" else 3
    i = 0
    for row in _edge_rows():
        extra = {k: row.pop(k) for k in list(row) if k.startswith("_")}
        c = _finish(row, seed, 50_000 + i)
        if "_nconf" in extra:
            c["nconf"] = extra["_nconf"]
        if "_planes" in extra:
            c["planes"] = extra["_planes"]
        i += 1
        yield c
    i = 0
    for s in range(reps):
        for row in covering(_AXES, seed=707 + 1000 * seed + s, extra_random=15 if tier == "quick" else 150):
            yield _finish(row, seed, i)
            i += 1


# ------------------------------------------------------------------------------------------------


def _wavelength(energy):
    import math

    e = energy / 1e3
    return 12.3984244 / math.sqrt(e * (2 * 510.99895 + e))


def _gpts(c):
    a, b = c["grid"].split("x")
    return int(a), int(b)


def _max_angle(c):
    g = _gpts(c)
    return min(g[0] / (2 * c["size"][0]), g[1] / (2 * c["size"][1])) * _wavelength(c["energy"]) * 1e3


def _thicknesses(c):
    st = c["slice_thickness"]
    return [float(t) for t in st] if isinstance(st, list) else [float(st)] * c["nslices"]


def _atoms(c, height):
    import numpy as np
    from ase import Atoms

    r = np.random.default_rng(c["aseed"])
    if c["atoms"] == "two":
        sym, pos = ["C", "O"], [[0.3, 0.4, 0.25], [0.7, 0.55, 0.7]]
    elif c["atoms"] == "random":
        sym = [str(s) for s in r.choice(["C", "Si", "Cu"], 5)]
        pos = r.uniform(0.05, 0.95, (5, 3))
    else:
        sym = ["Si", "Si", "O"]
        pos = [[0.2, 0.2, 0.2], [0.6, 0.5, 0.55], [0.4, 0.8, 0.85]]
    sx, sy = c["size"]
    return Atoms(sym, positions=np.array(pos, float) * [sx, sy, height], cell=[sx, sy, height], pbc=True)


def _exit_arg(c):
    if c["planes"] is not None:
        return tuple(c["planes"])
    return int(c["exit_planes"])


def _make(c, exit_planes):
    """Return (potential, per-configuration list of (array, thicknesses)) for the case.

    The second item is the oracle material: fully built slice arrays of each configuration obtained from the
    non-ensemble eager builder.
    """
    import abtem
    import numpy as np

    th = _thicknesses(c)
    gpts = _gpts(c)
    kind = c["kind"]
    proj = c["projection"]
    explicit = isinstance(c["slice_thickness"], list)

    def built(atoms, st):
        b = abtem.Potential(atoms, gpts=gpts, slice_thickness=st, projection=proj).build(lazy=False)
        return np.asarray(b.array).copy(), tuple(float(t) for t in b.slice_thickness)

    if kind == "crystal":
        unit_th = th[: len(th) // 2]
        atoms = _atoms(c, float(sum(unit_th)))
        ust = tuple(unit_th) if explicit else unit_th[0]
        unit = abtem.Potential(atoms, gpts=gpts, slice_thickness=ust, projection=proj)
        pot = abtem.CrystalPotential(unit, (1, 1, 2), exit_planes=exit_planes)
        arr, t = built(atoms, ust)
        return pot, [(np.concatenate([arr, arr]), t + t)]
    atoms = _atoms(c, float(sum(th)))
    st = tuple(th) if explicit else th[0]
    kw = dict(gpts=gpts, slice_thickness=st, projection=proj, exit_planes=exit_planes)
    if kind == "atoms":
        return abtem.Potential(atoms, **kw), [built(atoms, st)]
    if kind == "array":
        arr, t = built(atoms, st)
        pot = abtem.PotentialArray(arr.copy(), slice_thickness=t, extent=tuple(c["size"]), exit_planes=exit_planes)
        return pot, [(arr, t)]
    fp = abtem.FrozenPhonons(atoms, c["nconf"], c["sigma"], seed=c["fpseed"], ensemble_mean=kind == "fp_mean")
    configs = list(fp)
    if kind in ("fp_nomean", "fp_mean"):
        pot = abtem.Potential(fp, **kw)
    elif kind == "ens_nomean":
        pot = abtem.Potential(abtem.AtomsEnsemble([a.copy() for a in configs], ensemble_mean=False), **kw)
    else:
        raise ValueError(kind)
    return pot, [built(a, st) for a in configs]


def _detector(name, c):
    import abtem

    m = _max_angle(c)
    if name == "waves":
        return abtem.detectors.WavesDetector()
    if name == "annular":
        return abtem.AnnularDetector(inner=0.3 * m, outer=0.8 * m)
    if name == "flexible":
        return abtem.FlexibleAnnularDetector(step_size=m / 6.0)
    if name == "pixelated":
        return abtem.PixelatedDetector(max_angle=None)
    raise ValueError(name)


def _detectors(c):
    if c["detectors"] == "two":
        return [_detector("annular", c), _detector("pixelated", c)]
    return [_detector(c["detectors"], c)]


def _builder(c, potential):
    import abtem

    m = _max_angle(c)
    ex = potential.extent
    if c["builder"] == "planewave":
        b = abtem.PlaneWave(energy=c["energy"])
        b.grid.match(potential)
        return b, None
    b = abtem.Probe(energy=c["energy"], semiangle_cutoff=0.45 * m, defocus=c["defocus"])
    b.grid.match(potential)
    if c["builder"] == "probe_point":
        return b, (0.3 * ex[0], 0.6 * ex[1])
    return b, abtem.LineScan(start=(0.1 * ex[0], 0.2 * ex[1]), end=(0.8 * ex[0], 0.7 * ex[1]), gpts=2)


def _simulate(c, potential, lazy):
    b, scan = _builder(c, potential)
    dets = _detectors(c)
    if scan is None:
        out = b.multislice(potential, detectors=dets, lazy=lazy)
    else:
        out = b.multislice(potential, scan=scan, detectors=dets, lazy=lazy)
    if lazy:
        if isinstance(out, (list, tuple)):
            out = out.compute(scheduler="synchronous", progress_bar=False) if hasattr(out, "compute") else [
                o.compute(scheduler="synchronous", progress_bar=False) for o in out]
        else:
            out = out.compute(scheduler="synchronous", progress_bar=False)
    return list(out) if isinstance(out, (list, tuple)) else [out]


def _incident_detect(c, potential):
    b, scan = _builder(c, potential)
    waves = b.build(lazy=False) if scan is None else b.build(scan=scan, lazy=False)
    return [d.detect(waves) for d in _detectors(c)]


def run_case(case):
    import abtem
    import numpy as np

    c = case
    out = []
    pot, material = _make(c, _exit_arg(c))
    planes = tuple(int(p) for p in pot.exit_planes)
    n = int(pot.num_slices)
    th = np.array(pot.slice_thickness, float)
    cum = np.cumsum(th)
    nconf = len(material)
    mode = "lazy" if c["lazy"] else "eager"
    multi = len(planes) > 1

    series = _simulate(c, pot, c["lazy"])

    # ---- references -------------------------------------------------------------------------------
    extent = tuple(float(x) for x in pot.extent)
    trunc = {}  # plane -> list over configurations of list over detectors of arrays
    for p in sorted(set(planes)):
        if p < 0:
            continue
        per_conf = []
        for arr, t in material:
            tp = abtem.PotentialArray(arr[: p + 1].copy(), slice_thickness=tuple(t[: p + 1]), extent=extent)
            per_conf.append([np.asarray(o.array) for o in _simulate(c, tp, False)])
        trunc[p] = per_conf
    incident = [np.asarray(o.array) for o in _incident_detect(c, pot)] if -1 in planes else None
    full = None
    if planes[-1] == n - 1:
        pot_full, _ = _make(c, None)
        full = _simulate(c, pot_full, c["lazy"])

    for d, res in enumerate(series):
        types = [type(a).__name__ for a in res.axes_metadata]
        got = np.asarray(res.array)
        name = f"out[{d}] {type(res).__name__}{tuple(res.shape)} axes {types[:-2] if len(types) > 2 else types} ({mode}, kind={c['kind']}, planes={planes}, n={n})"
        ti = types.index("ThicknessAxis") if "ThicknessAxis" in types else None
        fi = types.index("FrozenPhononsAxis") if "FrozenPhononsAxis" in types else None

        # ---- thickness axis -----------------------------------------------------------------------------
        expected_vals = [0.0 if p < 0 else float(cum[p]) for p in planes]
        if multi:
            if ti is None:
                out.append(Res("C07/thickness-axis/cumulative", False, f"{name}: no ThicknessAxis for {len(planes)} exit planes", True))
                continue
            vals = [float(v) for v in res.axes_metadata[ti].values]
            ok = len(vals) == len(planes) and res.shape[ti] == len(planes) and all(
                abs(a - b) <= 1e-6 for a, b in zip(vals, expected_vals))
            out.append(Res("C07/thickness-axis/cumulative", ok,
                           f"{name}: ThicknessAxis.values={vals} expected cumulative thickness {expected_vals}; "
                           f"axis length {res.shape[ti]} for {len(planes)} planes", True))
            if res.shape[ti] != len(planes):
                continue
        else:
            out.append(Res("C07/thickness-axis/cumulative", ti is None or res.shape[ti] == 1,
                           f"{name}: single exit plane", False))

        # bring (config, plane) to the front
        g = got
        if multi:
            g = np.moveaxis(g, ti, 0)
            if fi is not None:
                g = np.moveaxis(g, fi + (1 if fi < ti else 0), 1)  # -> (plane, conf, ...)
        else:
            g = g[None]
            if fi is not None:
                g = np.moveaxis(g, fi + 1, 1)
        # g: (plane, [conf], ...)
        for j, p in enumerate(planes):
            gj = g[j]
            if p < 0:
                ref_conf = [incident[d]] * nconf
                ob = "C07/entrance-plane/equals-incident"
            else:
                ref_conf = [trunc[p][k][d] for k in range(nconf)]
                ob = "C07/exit-plane/equals-truncated"
            if fi is not None:
                ref = np.stack(ref_conf)
            elif nconf > 1:
                ref = np.mean(np.stack(ref_conf).astype(np.complex128 if np.iscomplexobj(ref_conf[0]) else np.float64), axis=0)
            else:
                ref = ref_conf[0]
            if gj.shape != ref.shape:
                out.append(Res(ob, False, f"{name}: plane {j} (after slice {p}) has shape {gj.shape}, reference {ref.shape}", True))
                continue
            scale = float(np.abs(ref).max())
            tol = 1e-5 * max(scale, 1e-30)
            if fi is not None:
                err = np.abs(gj - ref).reshape(nconf, -1).max(axis=1)
                errs = [float(f"{e:.3g}") for e in err]
                e = float(err.max())
            else:
                e = float(np.abs(gj - ref).max())
                errs = e
            what = "detect(incident wave)" if p < 0 else f"simulation through slices [0..{p}] only"
            out.append(Res(ob, e <= tol,
                           f"{name}: exit plane {j} (after slice {p}, z={expected_vals[j]:.3f}) vs {what}: "
                           f"max abs err {errs} (per configuration if a list), scale {scale:.3e}", scale > 0))
        # ---- last plane vs full simulation ---------------------------------------------------------------------
        if full is not None:
            f = np.asarray(full[d].array)
            gl = np.take(got, -1, axis=ti) if multi else got
            if gl.shape != f.shape:
                out.append(Res("C07/last-plane/equals-full", False,
                               f"{name}: last plane shape {gl.shape} vs full simulation {f.shape}", True))
            else:
                scale = float(np.abs(f).max())
                e = float(np.abs(gl - f).max())
                out.append(Res("C07/last-plane/equals-full", e <= 1e-5 * max(scale, 1e-30),
                               f"{name}: last exit plane vs the same {mode} simulation with exit_planes=None: "
                               f"max abs err {e:.3e}, scale {scale:.3e}", multi and scale > 0))
    return out
