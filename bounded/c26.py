"""C26 — Bloch-wave dynamical diffraction conserves intensity (bounded run-time contract on the real code).

Contract on abtem.bloch.BlochWaves / BlochwaveEnsemble .calculate_diffraction_patterns and
BlochWaves.calculate_scattering_matrix, for a crystal, orientation, energy and thickness list:

    sum-to-one            for every thickness (and every ensemble member) the intensities sum to 1 (no absorption)
    zero-thickness        at thickness 0 the pattern is the direct beam: I(000) = 1, every other reflection 0
    lazy-equals-eager     calculate_diffraction_patterns(lazy=True).compute() == (lazy=False), same reflections
    expm-equals-eigen     |S(z)[:, 000]|^2 from the matrix-exponential scattering matrix equals the intensities of the
                          eigen-decomposition path at the same z

Oracles: the conservation law, the analytic zero-thickness result, an independent run of the other path.
Dense linear algebra (eigh, expm) is trusted (DESIGN §7).
"""

import numpy as np

from vlib.hx import Res, covering, rng_for

PROPERTY = "C26"
CRYSTALS = ["sc_po", "fcc_cu", "bcc_fe", "diamond_si", "rocksalt", "ortho_p", "ortho_c", "tetra_i", "hcp_mg", "hex_bn"]
ORIENT = ["zone", "matrix", "rotate_scalar", "rotate_multi", "ens_xy", "ens_x_y", "ens_z_deg"]
RULE = ("pairwise covering array over crystal {simple cubic, fcc, bcc, diamond, rock salt, orthorhombic P (random basis), "
        "orthorhombic C-centred, tetragonal I, hcp, hexagonal BN} x sg_max x g_max x energy x orientation {zone axis, "
        "orientation_matrix, rotate scalar, rotate multi-axis, ensemble (N,2) angles, ensemble two 1-D axes, ensemble in "
        "degrees} x structure-factor form {StructureFactor, prebuilt StructureFactorArray (lazy array for the lazy run, eager "
        "array for the eager run), Atoms} x thickness list "
        "kind {list with 0, scalar 0, scalar, int scalar, unsorted, array} x thermal sigma x use_wave_eq x centering "
        "{auto, P}, plus seeded random extra rows. Non-trivial: more than one beam and at some thickness more than 0.1% "
        "of the intensity is diffracted. Distinct = distinct case dict.")
BOUNDS = {
    "crystals": CRYSTALS, "sg_max": [0.02, 0.05, 0.1], "g_max": [1.0, 1.3], "energy": [60e3, 100e3, 200e3, 300e3],
    "orientation": ORIENT, "sf_form": ["factor", "array", "atoms"],
    "thickness": ["list0", "scalar0", "scalar", "int_scalar", "unsorted", "array"],
    "thermal_sigma": [0.0, 0.08], "use_wave_eq": [False, True], "centering": ["auto", "P"],
    "max_tilt_rad": 0.06, "max_thickness_A": 600.0,
    "extra_random_cases": {"quick": 25, "thorough": 400},
}
EXHAUSTIVE = False
ASSUMPTIONS = [
    "abTEM's Bloch-wave model contains the obliquity factor M_g = (1 + g_z/k0)^(-1/2) (psi = M expm(iA'z) M^-1 psi0), so "
    "the conserved quantity is sum_g I_g / M_g^2; the plain intensity sum is therefore required to lie in "
    "[min M^2 - 1e-5, max M^2 + 1e-5], which is 1 +- 1e-5 whenever all beams have g_z = 0 (zone axis, ZOLZ only) and "
    "deviates by at most ~2e-3 for tilts <= 0.06 rad",
    "zero-thickness: |I(000) - 1| <= 1e-5 and every other intensity <= 1e-5",
    "lazy vs eager: max abs difference <= 1e-6 (single orientation, same float64 code) / 1e-5 (float32 ensembles)",
    "expm vs eigen: max abs intensity difference <= 5e-5 (both paths run in complex128; numerical noise measured "
    "<= 3e-6 on zone-axis inputs)",
    "scipy.linalg.expm and numpy.linalg.eigh are trusted",
]
CONTRACTS = ["abtem/bloch/dynamical.py:BlochWaves.calculate_diffraction_patterns",
             "abtem/bloch/dynamical.py:BlochwaveEnsemble.calculate_diffraction_patterns",
             "abtem/bloch/dynamical.py:calculate_dynamical_scattering", "abtem/bloch/dynamical.py:calculate_structure_matrix",
             "abtem/bloch/dynamical.py:calculate_scattering_matrix", "abtem/bloch/utils.py:retrieve_structure_factor_values"]

OB_SUM = "C26/diffraction/intensities-sum-to-one"
OB_ZERO = "C26/diffraction/zero-thickness-is-direct-beam"
OB_LAZY = "C26/diffraction/lazy-equals-eager"
OB_EXPM = "C26/scattering-matrix/expm-equals-eigen"


def cases(tier, seed):
    axes = dict(crystal=CRYSTALS, sg_max=BOUNDS["sg_max"], g_max=BOUNDS["g_max"], energy=BOUNDS["energy"],
                orientation=ORIENT, sf_form=BOUNDS["sf_form"], thickness=BOUNDS["thickness"],
                thermal_sigma=BOUNDS["thermal_sigma"], use_wave_eq=BOUNDS["use_wave_eq"], centering=BOUNDS["centering"])
    rows = covering(axes, seed=seed + 26, extra_random=BOUNDS["extra_random_cases"][tier])
    for k, row in enumerate(rows):
        c = dict(row)
        c["data_seed"] = k
        yield c
    # smallest ensemble on which member results can get mixed up (two different tilts, eager path)
    yield dict(crystal="fcc_cu", sg_max=0.1, g_max=1.2, energy=200e3, orientation="ens_xy", sf_form="factor",
               thickness="list0", thermal_sigma=0.08, use_wave_eq=False, centering="auto", data_seed=1001)
    yield dict(crystal="fcc_cu", sg_max=0.1, g_max=1.2, energy=200e3, orientation="ens_x_y", sf_form="factor",
               thickness="list0", thermal_sigma=0.08, use_wave_eq=False, centering="auto", data_seed=1002)


def _atoms(kind, r):
    from ase import Atoms
    from ase.build import bulk

    if kind == "sc_po":
        return bulk("Po", "sc", a=3.35)
    if kind == "fcc_cu":
        return bulk("Cu", cubic=True)
    if kind == "bcc_fe":
        return bulk("Fe", cubic=True)
    if kind == "diamond_si":
        return bulk("Si", cubic=True)
    if kind == "rocksalt":
        return bulk("NaCl", "rocksalt", a=5.64, cubic=True)
    if kind == "ortho_p":
        cell = [3.1, 4.2, 5.3]
        pos = r.uniform(0, 1, (3, 3)) * cell
        return Atoms("SiOC", positions=pos, cell=cell, pbc=True)
    if kind == "ortho_c":  # textbook C centring: (0,0,0)+ and (1/2,1/2,0)+
        cell = np.array([3.4, 4.6, 5.1])
        base = np.array([[0.1, 0.2, 0.3], [0.35, 0.6, 0.75]])
        frac = np.concatenate([base, base + [0.5, 0.5, 0.0]]) % 1.0
        return Atoms("SiOSiO", positions=frac * cell, cell=cell, pbc=True)
    if kind == "tetra_i":  # body-centred tetragonal
        cell = np.array([3.0, 3.0, 4.4])
        base = np.array([[0.0, 0.0, 0.0], [0.0, 0.5, 0.25]])
        frac = np.concatenate([base, base + 0.5]) % 1.0
        return Atoms("TiOTiO", positions=frac * cell, cell=cell, pbc=True)
    if kind == "hcp_mg":
        return bulk("Mg")
    if kind == "hex_bn":
        a, c = 2.5, 6.6
        cell = [[a, 0, 0], [-a / 2, a * np.sqrt(3) / 2, 0], [0, 0, c]]
        frac = np.array([[0, 0, 0], [1 / 3, 2 / 3, 0], [1 / 3, 2 / 3, 0.5], [0, 0, 0.5]])
        at = Atoms("BNBN", cell=cell, pbc=True)
        at.set_scaled_positions(frac)
        return at
    raise ValueError(kind)


def _thicknesses(kind, r):
    t1 = float(np.round(r.uniform(20, 200), 1))
    t2 = float(np.round(r.uniform(200, BOUNDS["max_thickness_A"]), 1))
    if kind == "list0":
        return [0.0, t1, t2]
    if kind == "scalar0":
        return 0.0
    if kind == "scalar":
        return t1
    if kind == "int_scalar":
        return int(t2)
    if kind == "unsorted":
        return [t2, 0.0, t1, t1]
    if kind == "array":
        return np.array([0.0, t1, t2, 2 * t2])
    raise ValueError(kind)


def _build(case, lazy_array=True):
    """returns (bloch object, is_ensemble, rng); a prebuilt StructureFactorArray is lazy or eager as requested"""
    from abtem.bloch import BlochWaves, StructureFactor

    r = rng_for(case["data_seed"], "C26", case["crystal"])
    atoms = _atoms(case["crystal"], r)
    g_max = case["g_max"]
    kw = dict(energy=case["energy"], sg_max=case["sg_max"], use_wave_eq=case["use_wave_eq"])
    form = case["sf_form"]
    if form == "atoms":
        first = atoms
    else:
        sf = StructureFactor(atoms, g_max=2 * g_max, thermal_sigma=case["thermal_sigma"], centering=case["centering"])
        first = sf if form == "factor" else sf.build(lazy=lazy_array)
    tilt = BOUNDS["max_tilt_rad"]
    ang = r.uniform(-tilt, tilt, (3, 3))
    o = case["orientation"]
    cent = case["centering"] if form in ("factor",) else "auto"
    if o == "matrix":
        from scipy.spatial.transform import Rotation

        R = Rotation.from_euler("xyz", ang[0]).as_matrix()
        return BlochWaves(first, g_max=g_max, orientation_matrix=R, centering=cent, **kw), False, r
    bw = BlochWaves(first, g_max=g_max, centering=cent, **kw)
    if o == "zone":
        return bw, False, r
    if o == "rotate_scalar":
        return bw.rotate("x", float(ang[0, 0]), "y", float(ang[0, 1])), False, r
    if o == "rotate_multi":
        return bw.rotate("xyz", np.array(ang[0])), False, r
    if o == "ens_xy":
        a = np.array(ang[:, :2])
        a[0] = 0.0  # first member: zone axis
        return bw.rotate("xy", a), True, r
    if o == "ens_x_y":
        return bw.rotate("x", np.array([0.0, float(ang[0, 0])]), "y", np.array([float(ang[1, 1]), 0.0, float(ang[2, 1])])), True, r
    if o == "ens_z_deg":
        return bw.rotate("xz", np.array([[0.0, 0.0], [1.5, 30.0], [-2.0, 77.0]]), degrees=True), True, r
    raise ValueError(o)


def run_case(case):
    import warnings

    warnings.filterwarnings("ignore")
    # a prebuilt StructureFactorArray only supports the evaluation mode it was built in (BlochWaves: lazy array <->
    # lazy=True; BlochwaveEnsemble: eager array for both modes, its blocks run the eager single-orientation code)
    ens_case = case["orientation"].startswith("ens_")
    b, is_ens, r = _build(case, lazy_array=not ens_case)
    b_eager = _build(case, lazy_array=False)[0] if case["sf_form"] == "array" else b
    th = _thicknesses(case["thickness"], r)
    th_list = [float(x) for x in np.atleast_1d(np.asarray(th, dtype=float))]
    scalar_th = np.ndim(th) == 0

    eager = b_eager.calculate_diffraction_patterns(th, lazy=False)
    ea = np.asarray(eager.array, dtype=np.float64)
    lazy = b.calculate_diffraction_patterns(th, lazy=True)
    hkl_lazy = np.asarray(lazy.miller_indices)
    la = np.asarray(lazy.array.compute(scheduler="synchronous"), dtype=np.float64)
    hkl = np.asarray(eager.miller_indices)
    nbeams = len(hkl)
    out = []
    where0 = np.where(np.all(hkl == 0, axis=1))[0]
    # arrays as (..., thickness, beams)
    e2 = ea[..., None, :] if scalar_th else ea
    diffracted = bool(nbeams > 1 and len(where0) == 1 and np.any(e2[..., where0[0]] < 0.999))
    nt = diffracted

    # sum to one
    sums = e2.sum(-1)
    lsum = (la[..., None, :] if scalar_th else la).sum(-1) if la.shape == ea.shape else None
    from abtem.core.energy import energy2wavelength

    rlv = np.asarray(eager.reciprocal_lattice_vectors, dtype=np.float64)
    gz = (hkl.astype(np.float64) @ rlv)[..., 2]  # (..., beams), broadcast over ensemble/thickness axes
    m2 = 1.0 / (1.0 + gz * energy2wavelength(case["energy"]))
    lo, hi = float(m2.min()) - 1e-5, float(m2.max()) + 1e-5
    dev = float(np.abs(sums - 1).max())
    devl = float(np.abs(lsum - 1).max()) if lsum is not None else float("nan")
    ok = bool(np.all((sums >= lo) & (sums <= hi))) and (lsum is None or bool(np.all((lsum >= lo) & (lsum <= hi))))
    out.append(Res(OB_SUM, ok, f"max |sum(I)-1| eager {dev:.3e}, lazy {devl:.3e}; allowed interval [{lo:.6f}, {hi:.6f}] "
                   f"(obliquity factors), thicknesses {th_list}, eager sums {np.round(sums, 6).tolist()}, {nbeams} beams", nt))

    # zero thickness
    zi = [i for i, t in enumerate(th_list) if t == 0.0]
    if zi:
        if len(where0) != 1:
            out.append(Res(OB_ZERO, False, f"reflection (0,0,0) occurs {len(where0)} times among the {nbeams} beams", True))
        else:
            for name, arr in (("eager", e2), ("lazy", (la[..., None, :] if scalar_th else la) if la.shape == ea.shape else None)):
                if arr is None:
                    continue
                z = arr[..., zi, :]
                d0 = float(np.abs(z[..., where0[0]] - 1).max())
                rest = float(np.abs(np.delete(z, where0[0], axis=-1)).max()) if nbeams > 1 else 0.0
                out.append(Res(OB_ZERO, d0 <= 1e-5 and rest <= 1e-5,
                               f"{name}: thickness 0: |I(000)-1|={d0:.3e}, max other intensity={rest:.3e}", nbeams > 1))

    # lazy == eager
    tol = 1e-5 if is_ens else 1e-6
    if not np.array_equal(hkl, hkl_lazy) or la.shape != ea.shape:
        out.append(Res(OB_LAZY, False, f"shape/reflections differ: eager {ea.shape}, lazy {la.shape}", nt))
    else:
        d = np.abs(la - ea)
        i = np.unravel_index(int(np.argmax(d)), d.shape)
        out.append(Res(OB_LAZY, float(d.max()) <= tol,
                       f"max |lazy-eager| = {float(d.max()):.3e} at index {tuple(int(x) for x in i)} (lazy {la[i]!r}, eager "
                       f"{ea[i]!r}, hkl {hkl[i[-1]].tolist()}), ensemble shape {ea.shape[:-1]}", nt))

    # expm path vs eigen path (single orientation objects only: BlochwaveEnsemble has no scattering matrix)
    if not is_ens and len(where0) == 1:
        worst, wt = 0.0, None
        for k, t in enumerate(th_list):
            S = np.asarray(b.calculate_scattering_matrix(float(t)))
            I = np.abs(S[:, where0[0]].astype(np.complex128)) ** 2
            ref = e2[k]
            dd = float(np.abs(I - ref).max())
            if dd >= worst:
                worst, wt = dd, t
        out.append(Res(OB_EXPM, worst <= 5e-5, f"max | |S(z)[:,000]|^2 - I_eigen | = {worst:.3e} at z={wt} over z in {th_list}, "
                       f"{nbeams} beams", nt))
    return out
