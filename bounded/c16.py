"""C16 — measurement resampling and source-size filtering conserve what they promise (bounded run-time contract).

Clauses and obligations
  * DiffractionPatterns.interpolate preserves the total intensity of each pattern
        C16/DiffractionPatterns.interpolate/preserves-total-intensity
  * Images.interpolate (Fourier method) returns the input unchanged at the same grid, preserves the image mean otherwise
        C16/Images.interpolate/fft-same-grid-identity
        C16/Images.interpolate/fft-preserves-mean
  * gaussian_source_size before integrating == integrating first, then the same Gaussian filter (as documented)
        C16/DiffractionPatterns.gaussian_source_size/commutes-with-integration
        C16/PolarMeasurements.gaussian_source_size/commutes-with-integration

One clause group per case (case["clause"]); the target grid of DiffractionPatterns.interpolate is one documented form
per case ('uniform', one float, two floats, gpts) so that an exception in one form is reported (C16/no-exception) without
hiding the others.

Oracles: np.sum per pattern before/after; the input array itself; np.mean per image; the commutation law of the statement
evaluated with abTEM's own documented counterpart (integrate_radial / integrate, then Images.gaussian_filter with the
same sigma, periodic boundary) on an *eagerly computed copy* of the same data, so lazy/chunked inputs are compared
with the single-block result.
"""

import numpy as np

from vlib.hx import Res, close, covering, rng_for

PROPERTY = "C16"
RULE = ("pairwise covering arrays per clause group: dp_interp (pattern shape, sampling anisotropy, ensemble, lazy, "
        "fftshift, target form), img_interp (image shape, dtype, ensemble, lazy, target form), source (scan shape, scan "
        "sampling, leading ensemble axis, chunking of the scan axes, sigma form, integration route) with seeded "
        "contents; non-trivial = non-constant data and (for source) sigma > 0.3 scan pixels; distinct = distinct case")
BOUNDS = {
    "pattern_gpts": "8..24, odd/even, non-square", "image_gpts": "6..24, odd/even, non-square",
    "dp_targets": ["uniform", "float coarser", "float finer", "two floats", "gpts"],
    "image_targets": ["same gpts", "same sampling", "gpts up", "gpts down", "gpts mixed", "sampling value"],
    "scan_shapes": [[6, 5], [8, 8], [12, 7], [16, 9], [24, 6]],
    "sigma_A": "0.2..1.5 x scan sampling, scalar or two values",
    "chunking": ["eager", "lazy one block", "lazy scan axis 0 split", "lazy both scan axes split", "lazy leading axis split"],
}
EXHAUSTIVE = False
ASSUMPTIONS = [
    "float32: totals/means compared with rtol 1e-4; identity and commutation with atol 1e-4 * max|reference|",
    "Images.interpolate is used with its default normalization ('values')",
    "the Gaussian filter after integration is Images.gaussian_filter(sigma) with the default periodic boundary",
]
CONTRACTS = [
    "abtem/measurements.py:DiffractionPatterns.interpolate",
    "abtem/measurements.py:Images.interpolate",
    "abtem/measurements.py:DiffractionPatterns.gaussian_source_size",
    "abtem/measurements.py:PolarMeasurements.gaussian_source_size",
    "abtem/measurements.py:_gaussian_source_size",
    "abtem/measurements.py:_BaseMeasurement2D.gaussian_filter",
]

_PG = [(8, 8), (9, 9), (12, 15), (16, 11), (24, 17), (13, 20)]
_IG = [(6, 6), (7, 7), (10, 13), (16, 9), (24, 24), (15, 20)]
_SCAN = [(6, 5), (8, 8), (12, 7), (16, 9), (24, 6)]


def cases(tier, seed):
    reps = 1 if tier == "quick" else 8
    for rep in range(reps):
        for i, c in enumerate(covering(dict(gpts=_PG, aniso=[1.0, 0.8, 1.37], ens=["none", "e3", "scan"], lazy=[False, True],
                                            fftshift=[True, True, False],
                                            target=["uniform", "coarser", "finer", "two", "gpts"]),
                                       seed=seed * 31 + rep, extra_random=4)):
            r = rng_for(seed, "c16dp", rep, i)
            yield dict(clause="dp_interp", gpts=list(c["gpts"]), sampling=[round(float(r.uniform(0.02, 0.08)), 4)] * 2,
                       aniso=c["aniso"], ens=c["ens"], lazy=bool(c["lazy"]), fftshift=bool(c["fftshift"]),
                       target=c["target"], factor=round(float(r.uniform(1.15, 2.2)), 3), seed=int(r.integers(1 << 30)))
        for i, c in enumerate(covering(dict(gpts=_IG, dtype=["float", "float", "complex"], ens=["none", "e3", "e2x2"],
                                            lazy=[False, True],
                                            target=["same_gpts", "same_sampling", "up", "down", "mixed", "sampling"]),
                                       seed=seed * 37 + rep, extra_random=4)):
            r = rng_for(seed, "c16im", rep, i)
            yield dict(clause="img_interp", gpts=list(c["gpts"]), dtype=c["dtype"], ens=c["ens"], lazy=bool(c["lazy"]),
                       target=c["target"],
                       sampling=[float(r.choice([0.1, 0.05, 0.2, 0.3, 0.137])), float(r.choice([0.1, 0.07, 0.25, 0.3]))],
                       factor=round(float(r.uniform(1.1, 2.3)), 3), seed=int(r.integers(1 << 30)))
        for i, c in enumerate(covering(dict(scan=_SCAN, lead=[False, True],
                                            chunk=["eager", "one", "split0", "split01", "lead"],
                                            sigma=["scalar", "two", "small"], route=["radial", "radial", "polar"],
                                            source=["random", "random", "pipeline"]),
                                       seed=seed * 41 + rep, extra_random=4)):
            r = rng_for(seed, "c16src", rep, i)
            yield dict(clause="source", scan=list(c["scan"]), lead=bool(c["lead"]), chunk=c["chunk"], sigma_kind=c["sigma"],
                       route=c["route"], source=c["source"],
                       scan_sampling=[round(float(r.uniform(0.2, 0.6)), 3), round(float(r.uniform(0.2, 0.6)), 3)],
                       sigma_px=[round(float(r.uniform(0.5, 1.5)), 3), round(float(r.uniform(0.4, 1.2)), 3)],
                       seed=int(r.integers(1 << 30)))


def _np(x):
    arr = x.array if hasattr(x, "array") else x
    if hasattr(arr, "compute"):
        arr = arr.compute(scheduler="synchronous")
    return np.asarray(arr)


def _lazy(a, lazy, nens):
    if not lazy:
        return a
    import dask.array as da

    return da.from_array(a, chunks=tuple(1 if i == 0 else -1 for i in range(nens)) + (-1, -1))


def _ens_axes(ens):
    from abtem.core.axes import OrdinalAxis, ScanAxis

    if ens == "none":
        return (), []
    if ens == "e3":
        return (3,), [OrdinalAxis(label="p", values=(0, 1, 2))]
    if ens == "e2x2":
        return (2, 2), [OrdinalAxis(label="p", values=(0, 1)), OrdinalAxis(label="q", values=(0, 1))]
    return (3, 2), [ScanAxis(label="x", sampling=0.4, units="Å"), ScanAxis(label="y", sampling=0.5, units="Å")]


def _dp_interp(case):
    from abtem.measurements import DiffractionPatterns

    r = np.random.default_rng(case["seed"])
    es, md = _ens_axes(case["ens"])
    g = tuple(case["gpts"])
    a = r.uniform(0.0, 1.0, es + g).astype(np.float32)
    # a bright centre on a weak background, like a diffraction pattern
    c = (0, 0) if not case["fftshift"] else (g[0] // 2, g[1] // 2)
    a[..., c[0], c[1]] += 25.0
    samp = (case["sampling"][0], round(case["sampling"][1] * case["aniso"], 5))
    dp = DiffractionPatterns(_lazy(a, case["lazy"], len(es)), sampling=samp, fftshift=case["fftshift"],
                             ensemble_axes_metadata=md, metadata={"energy": 100e3})
    t, f = case["target"], case["factor"]
    if t == "uniform":
        kw = dict(sampling="uniform")
    elif t == "coarser":
        kw = dict(sampling=round(max(samp) * f, 5))
    elif t == "finer":
        kw = dict(sampling=round(min(samp) / f, 5))
    elif t == "two":
        kw = dict(sampling=(round(samp[0] * f, 5), round(samp[1] * 1.3, 5)))
    else:
        kw = dict(gpts=(max(4, int(g[0] / f)), max(4, int(g[1] / 1.3))))
    new = dp.interpolate(**kw)
    n = _np(new)
    tot0 = a.astype(np.float64).sum((-2, -1))
    tot1 = n.astype(np.float64).sum((-2, -1))
    ok, d = close(tot1, tot0, rtol=1e-4, atol=0.0)
    ok = ok and bool(np.all(np.isfinite(n))) and n.shape[:-2] == a.shape[:-2]
    return [Res("C16/DiffractionPatterns.interpolate/preserves-total-intensity", ok,
                f"interpolate({kw}) of {g} pattern(s) sampling {samp} -> {n.shape[-2:]} sampling {new.sampling}: totals {d}",
                n.shape[-2:] != g)]


def _img_interp(case):
    from abtem.measurements import Images

    r = np.random.default_rng(case["seed"])
    es, md = _ens_axes(case["ens"])
    g = tuple(case["gpts"])
    a = r.uniform(0.0, 1.0, es + g).astype(np.float32) + 0.5
    if case["dtype"] == "complex":
        a = (a + 1j * r.normal(size=es + g)).astype(np.complex64)
    samp = tuple(case["sampling"])
    im = Images(_lazy(a, case["lazy"], len(es)), sampling=samp, ensemble_axes_metadata=md)
    t, f = case["target"], case["factor"]
    same = t in ("same_gpts", "same_sampling")
    if t == "same_gpts":
        kw = dict(gpts=g)
    elif t == "same_sampling":
        kw = dict(sampling=im.sampling)
    elif t == "up":
        kw = dict(gpts=(int(g[0] * f) + 1, int(g[1] * f)))
    elif t == "down":
        kw = dict(gpts=(max(2, int(g[0] / f)), max(2, int(g[1] / f) + 1)))
    elif t == "mixed":
        kw = dict(gpts=(int(g[0] * f), max(2, int(g[1] / f))))
    else:
        kw = dict(sampling=(round(samp[0] * f, 4), round(samp[1] / f, 4)))
    new = im.interpolate(method="fft", **kw)
    n = _np(new)
    scale = float(np.abs(a).max())
    out = []
    if same:
        if n.shape == a.shape:
            ok, d = close(n, a, rtol=0.0, atol=1e-4 * scale)
        else:
            ok, d = False, f"grid changed: {a.shape[-2:]} -> {n.shape[-2:]} (extent {im.extent}, sampling {im.sampling})"
        ok = ok and np.allclose(new.sampling, samp, rtol=1e-9)
        out.append(Res("C16/Images.interpolate/fft-same-grid-identity", ok,
                       f"interpolate({kw}) of {g} image(s) sampling {samp}: {d}; new sampling {new.sampling}", True))
    m0 = a.astype(np.complex128).mean((-2, -1))
    m1 = n.astype(np.complex128).mean((-2, -1))
    ok, d = close(np.stack([m1.real, m1.imag]), np.stack([m0.real, m0.imag]), rtol=0.0, atol=1e-4 * scale)
    out.append(Res("C16/Images.interpolate/fft-preserves-mean", ok and n.shape[:-2] == a.shape[:-2],
                   f"interpolate({kw}) of {g} image(s) -> {n.shape[-2:]}: means {d}", n.shape != a.shape or not same))
    return out


def _source(case):
    import dask.array as da

    from abtem.core.axes import OrdinalAxis, ScanAxis
    from abtem.measurements import DiffractionPatterns

    r = np.random.default_rng(case["seed"])
    sx, sy = case["scan"]
    ss = tuple(case["scan_sampling"])
    lead = (2,) if case["lead"] else ()
    if case["source"] == "pipeline":
        import abtem

        from vlib.hx import tiny_atoms

        ext = (sx * ss[0], sy * ss[1])
        atoms = tiny_atoms("si", size=1.0, height=4.0)
        atoms.set_cell([ext[0], ext[1], 4.0], scale_atoms=True)
        g = (18, 16)
        pot = abtem.Potential(atoms, gpts=g, slice_thickness=2.0, projection="infinite")
        lam_mrad = 1e3 * 0.037014 / min(ext)  # 100 keV
        probe = abtem.Probe(energy=100e3, semiangle_cutoff=round(2.5 * lam_mrad, 3),
                            defocus=np.array([0.0, 30.0]) if case["lead"] else 10.0)
        scan = abtem.GridScan(start=(0, 0), end=ext, gpts=(sx, sy), endpoint=False)
        dp0 = probe.scan(pot, scan=scan, detectors=abtem.PixelatedDetector(max_angle="full"), lazy=False)
        a = np.asarray(dp0.array, np.float32)
        kw = dict(sampling=dp0.sampling, fftshift=dp0.fftshift, ensemble_axes_metadata=dp0.ensemble_axes_metadata,
                  metadata=dp0.metadata)
        ss = tuple(float(m.sampling) for m in dp0.ensemble_axes_metadata[-2:])
    else:
        g = (10, 11)
        a = r.uniform(0.0, 1.0, lead + (sx, sy) + g).astype(np.float32)
        a *= (1.0 + 3.0 * r.uniform(size=lead + (sx, sy, 1, 1))).astype(np.float32)  # contrast between scan positions
        md = ([OrdinalAxis(label="p", values=(0, 1))] if case["lead"] else []) + [
            ScanAxis(label="x", sampling=ss[0], units="Å"), ScanAxis(label="y", sampling=ss[1], units="Å")]
        kw = dict(sampling=(0.05, 0.045), fftshift=True, ensemble_axes_metadata=md, metadata={"energy": 100e3})
    nl = len(lead)
    ch = case["chunk"]
    if ch == "eager":
        arr = a
    else:
        chunks = {"one": (-1,) * nl + (-1, -1), "split0": (-1,) * nl + (max(2, sx // 3), -1),
                  "split01": (-1,) * nl + (max(2, sx // 2), max(2, sy // 2)), "lead": (1,) * nl + (-1, -1)}[ch]
        arr = da.from_array(a, chunks=chunks + (-1, -1))
    dp = DiffractionPatterns(arr, **kw)
    ref = DiffractionPatterns(a.copy(), **kw)
    sp = case["sigma_px"]
    if case["sigma_kind"] == "scalar":
        sigma = round(sp[0] * min(ss), 4)
    elif case["sigma_kind"] == "two":
        sigma = (round(sp[0] * ss[0], 4), round(sp[1] * ss[1], 4))
    else:
        sigma = round(0.35 * min(ss), 4)
    amax = min(ref.max_angles)
    inner, outer = round(0.15 * amax, 3), round(0.8 * amax, 3)
    if case["route"] == "radial":
        got = _np(dp.gaussian_source_size(sigma).integrate_radial(inner, outer))
        exp = _np(ref.integrate_radial(inner, outer).gaussian_filter(sigma))
        name = "C16/DiffractionPatterns.gaussian_source_size/commutes-with-integration"
        what = f"integrate_radial({inner},{outer})"
    else:
        pm, pr = (x.polar_binning(nbins_radial=3, nbins_azimuthal=4, inner=inner, outer=outer, rotation=0.2) for x in (dp, ref))
        got = _np(pm.gaussian_source_size(sigma).integrate())
        exp = _np(pr.integrate().gaussian_filter(sigma))
        name = "C16/PolarMeasurements.gaussian_source_size/commutes-with-integration"
        what = f"polar_binning(3,4,{inner},{outer}).integrate()"
    plain = _np(ref.integrate_radial(inner, outer))
    scale = float(np.abs(exp).max())
    ok, d = close(got, exp, rtol=0.0, atol=1e-4 * max(scale, 1e-30))
    moved = float(np.abs(exp - plain).max()) > 2e-4 * scale if case["route"] == "radial" else True
    return [Res(name, ok, f"scan {case['scan']} sampling {ss} lead {lead} chunks {ch} sigma {sigma} Å, {what}: "
                          f"filter-then-integrate vs integrate-then-filter: {d}", moved and scale > 0)]


def run_case(case):
    import warnings

    warnings.filterwarnings("ignore")
    return {"dp_interp": _dp_interp, "img_interp": _img_interp, "source": _source}[case["clause"]](case)
