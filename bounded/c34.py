"""C34 — temporary configuration changes are always undone (bounded run-time contract on abtem.config.set).

Contract (relational, on every context of every history):
    snap = deepcopy(abtem.config.config)            # before the `set` object is constructed
    with abtem.config.set(...): <body: further contexts, possibly an exception>
    ensures  abtem.config.config == snap            # deep, type-exact, incl. absence of keys that did not exist
The oracle is the statement itself: a deep copy taken before entering.  The contract is evaluated at the exit of
EVERY context of a history (an inner context is itself "a nesting"), for normal exits and for exits through an
exception (propagating to the top or caught at an intermediate level, after which the history continues normally).

A history is a tree: node = {"k": [entry ids set by this context], "ch": [child nodes run sequentially in the body],
"r": None | p  (raise after p children have run), "c": bool (the exception leaving this context is caught directly
around it)}.  A chain nesting is a tree whose nodes have at most one child.
"""

import copy
import itertools

from vlib.hx import Res, rng_for

PROPERTY = "C34"

# key universe: (spelling given to config.set, how, kind of value)
ENTRIES = [
    dict(id=0, key="device", how="arg", val="scalar", note="existing flat"),
    dict(id=1, key="dask.lazy", how="arg", val="scalar", note="existing nested"),
    dict(id=2, key="dask.chunk_size", how="arg", val="scalar", note="existing nested, '_' spelling of chunk-size"),
    dict(id=3, key="dask.chunk-size", how="arg", val="scalar", note="existing nested, '-' spelling"),
    dict(id=4, key="verif_new", how="arg", val="scalar", note="new flat, '_' spelling"),
    dict(id=5, key="verif-new", how="arg", val="scalar", note="new flat, '-' spelling (alias of 4 once 4 exists)"),
    dict(id=6, key="vnest.sub.leaf", how="arg", val="scalar", note="new nested, three levels"),
    dict(id=7, key="vnest.sub", how="arg", val="dict", note="new nested, dict-valued, overlaps 6"),
    dict(id=8, key="visualize", how="arg", val="dict", note="existing dict replaced by a dict"),
    dict(id=9, key="visualize.cmap", how="arg", val="scalar", note="existing nested below 8"),
    dict(id=10, key="fftw.brand_new", how="arg", val="scalar", note="new leaf below an existing dict"),
    dict(id=11, key="dask__lazy", how="kwargs", val="scalar", note="existing nested, keyword spelling"),
    dict(id=12, key="vnest__sub__other", how="kwargs", val="scalar", note="new nested, keyword spelling"),
    dict(id=13, key="fftw.threads", how="arg", val="same", note="existing nested, set to the value it already has"),
    dict(id=14, key="precision", how="arg", val="none", note="existing flat, set to None"),
]
N_ENT = len(ENTRIES)
CORE = list(range(13))  # the ids used for the exhaustive part

RULE = ("exhaustive enumeration of chain nestings of abtem.config.set contexts: depth<=3 with one key per context over "
        "13 key spellings (existing/new, flat/nested, '_'/'-'/keyword spellings, dict-valued, overlapping paths), "
        "depth<=2 with one or two keys per context (ordered pairs, arg and kwargs mixed in one call; thorough: depth 3 with "
        "one-or-two keys on levels 1-2 and one key on level 3); every chain x every "
        "exception variant (none; raised in the body of level d after the inner contexts closed, caught around level "
        "c<=d, history continues normally afterwards); plus seeded random context TREES (sibling contexts, up to 9 "
        "keys per context incl. same-value and None values). The contract is evaluated at the exit of every context. "
        "A history is non-trivial when the configuration inside the innermost body differs from the snapshot; "
        "distinct = distinct tree.")
BOUNDS = {
    "key_universe": [e["key"] + (" (kwargs)" if e["how"] == "kwargs" else "") for e in ENTRIES],
    "quick": {"chain_single_depth": 3, "chain_pair_depth": 2, "random_trees": 3000, "tree_nodes_max": 6},
    "thorough": {"chain_single_depth": 3, "chain_pair_depth": 3, "random_trees": 200000, "tree_nodes_max": 8,
                 "pair_depth3_note": "levels 1 and 2 one-or-two keys, level 3 one key"},
    "exception_variants": "none | raise at level d (1..D) after inner contexts closed, caught at level c (1..d)",
}
EXHAUSTIVE = True  # for the chain nestings named in BOUNDS; the random trees are an additional sample
ASSUMPTIONS = [
    "deep equality is type-exact (True != 1, dict vs non-dict) and ignores dict insertion order",
    "key paths never pass through a scalar value (config.set raises TypeError there: not a valid input)",
    "exceptions are raised in context bodies, not inside config.set.__init__",
    "single-threaded use of the global configuration",
]
CONTRACTS = ["abtem/core/config.py:set.__init__", "abtem/core/config.py:set._assign", "abtem/core/config.py:set.__exit__"]

OB_NORMAL = "C34/set/restore-normal-exit"
OB_EXC = "C34/set/restore-exception-exit"
OB_ABSENT = "C34/set/absent-keys-stay-absent"
OB_AFTER_CATCH = "C34/set/restore-after-caught-exception-continues"


# ------------------------------------------------------------------------------------------------
# enumeration


def _options(width):
    singles = [[i] for i in CORE]
    if width == "single":
        return singles
    return singles + [[i, j] for i in CORE for j in CORE if i != j]


def _exc_variants(depth):
    out = [None]
    for d in range(1, depth + 1):
        for c in range(1, d + 1):
            out.append([d, c])
    return out


def cases(tier, seed):
    b = BOUNDS[tier]
    # chains, one key per context: one case per (first level, depth); run_case enumerates the completions
    for depth in range(1, b["chain_single_depth"] + 1):
        for first in _options("single"):
            yield dict(kind="chains", width="single", depth=depth, prefix=[first])
    # chains, one or two keys per context
    for depth in range(1, b["chain_pair_depth"] + 1):
        for first in _options("pair"):
            if depth == 1 and len(first) == 1:
                continue  # already above
            c = dict(kind="chains", width="pair", depth=depth, prefix=[first])
            if depth == 3:
                c["last_width"] = "single"
            yield c
    # random trees, in batches
    nb = 250 if tier == "quick" else 2000
    for k in range(b["random_trees"] // nb):
        yield dict(kind="trees", batch=k, n=nb, nodes_max=b["tree_nodes_max"], seed=seed)


def _chain_tree(levels, exc):
    """levels: list of id-lists, outermost first; exc: None or [d, c] (1-based)."""
    node = None
    for i in range(len(levels), 0, -1):
        n = dict(k=levels[i - 1], ch=[node] if node is not None else [], r=None, c=False)
        if exc is not None:
            if exc[0] == i:
                n["r"] = len(n["ch"])
            if exc[1] == i:
                n["c"] = True
        node = n
    return node


def _random_tree(r, nodes_max):
    budget = [int(r.integers(1, nodes_max + 1))]

    def mk(depth):
        budget[0] -= 1
        nk = int(r.choice([1, 1, 2, 3, 5, 9]))
        ks = [int(x) for x in r.choice(N_ENT, size=nk, replace=False)]
        ch = []
        while budget[0] > 0 and depth < 4 and r.random() < 0.6:
            ch.append(mk(depth + 1))
        rr = int(r.integers(0, len(ch) + 1)) if r.random() < 0.35 else None
        return dict(k=ks, ch=ch, r=rr, c=bool(r.random() < 0.5))

    return mk(1)


# ------------------------------------------------------------------------------------------------
# execution of one history against the real abtem.config.set


class _Boom(Exception):
    pass


def _same(a, b):
    if type(a) is not type(b):
        return False
    if isinstance(a, dict):
        if a.keys() != b.keys():
            return False
        return all(_same(a[k], b[k]) for k in a)
    if isinstance(a, (list, tuple)):
        return len(a) == len(b) and all(_same(x, y) for x, y in zip(a, b))
    return a == b


def _diff(a, b, path=""):
    """first difference between two nested dicts, as text (a = observed, b = expected)."""
    if isinstance(a, dict) and isinstance(b, dict):
        for k in b:
            if k not in a:
                return f"key {path + str(k)!r} missing (expected {b[k]!r})"
        for k in a:
            if k not in b:
                return f"key {path + str(k)!r} left behind with value {a[k]!r} (did not exist before)"
        for k in a:
            if not _same(a[k], b[k]):
                return _diff(a[k], b[k], path + str(k) + ".")
        return ""
    return f"{path.rstrip('.')!r}: observed {a!r}, expected {b!r}"


def _leftover(a, b, path=""):
    """path of a key (at any level) that `a` has and `b` does not have, else ''."""
    if isinstance(a, dict) and isinstance(b, dict):
        for k in a:
            if k not in b:
                return path + str(k)
            sub = _leftover(a[k], b[k], path + str(k) + ".")
            if sub:
                return sub
    return ""


class _Run:
    def __init__(self, cfgmod):
        self.m = cfgmod
        self.cfg = cfgmod.config
        self.counter = 0
        self.fail = {}  # obligation -> detail (first)
        self.seen = {}  # obligation -> number of evaluations
        self.changed = False

    def value(self, e):
        self.counter += 1
        tok = f"tok{self.counter}"
        if e["val"] == "scalar":
            return tok
        if e["val"] == "dict":
            return {"cmap": tok, "leaf": tok + "L", "extra": {"deep": self.counter}}
        if e["val"] == "none":
            return None
        if e["val"] == "same":
            return copy.deepcopy(self.m.get(e["key"]))
        raise AssertionError(e)

    def make(self, ids):
        arg, kw = {}, {}
        for i in ids:
            e = ENTRIES[i]
            (kw if e["how"] == "kwargs" else arg)[e["key"]] = self.value(e)
        if arg and kw:
            return self.m.set(arg, **kw)
        if kw:
            return self.m.set(**kw)
        return self.m.set(arg)

    def note(self, ob, ok, detail):
        self.seen[ob] = self.seen.get(ob, 0) + 1
        if not ok and ob not in self.fail:
            self.fail[ob] = detail

    def node(self, n, had_caught):
        snap = copy.deepcopy(self.cfg)
        raised = False
        try:
            with self.make(n["k"]):
                if not self.changed and not _same(self.cfg, snap):
                    self.changed = True
                for j, ch in enumerate(n["ch"]):
                    if n["r"] is not None and n["r"] == j:
                        raise _Boom()
                    had_caught = self.node(ch, had_caught) or had_caught
                if n["r"] is not None and n["r"] >= len(n["ch"]):
                    raise _Boom()
        except _Boom:
            raised = True
        ok = _same(self.cfg, snap)
        d = "" if ok else _diff(self.cfg, snap)
        if raised:
            self.note(OB_EXC, ok, d)
        else:
            self.note(OB_NORMAL, ok, d)
            if had_caught:
                self.note(OB_AFTER_CATCH, ok, d)
        left = "" if ok else _leftover(self.cfg, snap)
        self.note(OB_ABSENT, not left, f"key {left!r} did not exist before the context and exists after it")
        if raised and not n["c"]:
            raise _Boom()
        return had_caught or raised


def _run_history(cfgmod, tree, pristine):
    """returns (fail dict, seen dict, nontrivial)"""
    run = _Run(cfgmod)
    try:
        try:
            run.node(tree, False)
        except _Boom:
            pass
        # the whole history is over: the configuration must be the pristine one
        ok = _same(cfgmod.config, pristine)
        if not ok:
            run.note(OB_NORMAL if not run.seen.get(OB_EXC) else OB_EXC, False,
                     "after the whole history: " + _diff(cfgmod.config, pristine))
    finally:
        if not _same(cfgmod.config, pristine):
            cfgmod.config.clear()
            cfgmod.config.update(copy.deepcopy(pristine))
    return run.fail, run.seen, run.changed


def _describe(tree):
    def d(n):
        ks = ",".join(ENTRIES[i]["key"] + ("(kw)" if ENTRIES[i]["how"] == "kwargs" else "") for i in n["k"])
        s = f"set[{ks}]"
        inner = [d(c) for c in n["ch"]]
        if n["r"] is not None:
            inner.insert(min(n["r"], len(inner)), "RAISE")
        if inner:
            s += "{" + "; ".join(inner) + "}"
        if n["c"]:
            s = "try(" + s + ")"
        return s

    return d(tree)


def _histories(case):
    if case["kind"] == "history":
        yield case["tree"]
    elif case["kind"] == "chains":
        depth, prefix = case["depth"], case["prefix"]
        opts = _options(case["width"])
        nrest = depth - len(prefix)
        pools = [opts] * nrest
        if case.get("last_width") and nrest:
            pools = pools[:-1] + [_options(case["last_width"])]
        for rest in itertools.product(*pools):
            levels = list(prefix) + [list(x) for x in rest]
            for exc in _exc_variants(depth):
                yield _chain_tree(levels, exc)
    elif case["kind"] == "trees":
        r = rng_for(case["seed"], "C34-trees", case["batch"])
        for _ in range(case["n"]):
            yield _random_tree(r, case["nodes_max"])
    else:
        raise ValueError(case["kind"])


def run_case(case):
    import abtem  # noqa: F401
    from abtem.core import config as cfgmod

    assert abtem.config is cfgmod or abtem.config.config is cfgmod.config
    pristine = copy.deepcopy(cfgmod.config)
    fails, seen = {}, {}
    nhist = nontriv = 0
    try:
        for tree in _histories(case):
            f, s, ch = _run_history(cfgmod, tree, pristine)
            nhist += 1
            nontriv += bool(ch)
            for ob, n in s.items():
                seen[ob] = seen.get(ob, 0) + n
            for ob, det in f.items():
                if ob not in fails:
                    fails[ob] = f"history {_describe(tree)} tree={tree}: {det}"
    finally:
        cfgmod.config.clear()
        cfgmod.config.update(copy.deepcopy(pristine))
    out = []
    for ob in (OB_NORMAL, OB_EXC, OB_ABSENT, OB_AFTER_CATCH):
        if seen.get(ob):
            out.append(Res(ob, ob not in fails,
                           fails.get(ob, f"{nhist} histories, {seen[ob]} context exits checked, {nontriv} non-trivial"),
                           nontriv > 0))
    return out
