"""C35 — axis metadata behaves like the value sequences it describes (bounded run-time contracts).

Contracts on abtem.core.axes: axis_to_dict / axis_from_dict (and the AxisMetadata.to_dict / from_dict methods),
OrdinalAxis.__getitem__, OrdinalAxis.concatenate, LinearAxis.coordinates — for *every* AxisMetadata dataclass that the
module defines (discovered by inspection, so new classes are picked up).

Oracles (from the statement):
  * round trip:   same class and every dataclass field equal (containers compared element-wise, NumPy scalars by value),
                  and abTEM's own `==` agrees
  * slicing:      ax[item].values == the Python/NumPy selection of ax.values (tuple slicing for slices, [values[i] for i
                  in index] for index arrays, mask selection for boolean arrays, (values[i],) for an integer)
  * concatenate:  a.concatenate(b).values == a.values + b.values
  * coordinates:  coordinates(n)[i] == offset + i*sampling, len == n
The untouched fields must survive slicing/concatenation (they describe the same axis), and the operands must not change.
"""

import dataclasses
import itertools

import numpy as np

from vlib.hx import Res, rng_for

PROPERTY = "C35"
VALUE_KINDS = ["int", "float", "npfloat", "str", "pair", "ndarray1d", "list", "mixedlen_str", "single", "empty", "ndarray2d"]
RULE = ("all AxisMetadata dataclasses found in abtem.core.axes x seeded field values (labels incl. unicode/empty, units "
        "incl. None, flags, python and NumPy floats, negative/tiny/huge sampling) x for ordinal classes 11 kinds of "
        "`values` (ints, floats, NumPy floats, strings, 2-tuples, 1-D/2-D ndarrays, list, a single number, empty) x "
        "operation in {roundtrip, getitem, concatenate, coordinates}; getitem items: ints (python/NumPy, negative), slices "
        "(all sign/step/out-of-range forms incl. empty results), lists, int arrays, boolean masks. Non-trivial: the "
        "selection is a proper subset / the axis has non-default fields / n > 1.")
BOUNDS = {"n_values": [0, 7], "n_coordinates": [0, 40], "variants_per_class": {"quick": 4, "thorough": 12},
          "items_per_axis": {"quick": 10, "thorough": 30}, "value_kinds": VALUE_KINDS}
EXHAUSTIVE = False
ASSUMPTIONS = [
    "field equality: containers (tuple/list/ndarray) element-wise, NumPy scalars by value, floats exactly",
    "coordinates: |c_i - (offset + i*sampling)| <= 1e-12 * (|offset| + n*|sampling|) (np.linspace rounding); 1e-6 when "
    "offset or sampling is given as np.float32 (NumPy then computes the end point in single precision)",
    "ScaleAxis is not an AxisMetadata subclass and is not covered",
]
CONTRACTS = ["abtem/core/axes.py:axis_to_dict", "abtem/core/axes.py:axis_from_dict", "abtem/core/axes.py:AxisMetadata.to_dict",
             "abtem/core/axes.py:AxisMetadata.from_dict", "abtem/core/axes.py:OrdinalAxis.__getitem__",
             "abtem/core/axes.py:OrdinalAxis.concatenate", "abtem/core/axes.py:LinearAxis.coordinates"]


def _classes():
    import inspect

    from abtem.core import axes as A

    out = []
    for name, obj in vars(A).items():
        if inspect.isclass(obj) and issubclass(obj, A.AxisMetadata) and dataclasses.is_dataclass(obj) and obj.__module__ == A.__name__:
            out.append(name)
    return sorted(out)


def _ri(r, lo, hi):
    return int(r.integers(lo, hi + 1))


def _gen_item(r, n, j):
    """JSON token for one index expression on a length-n axis."""
    c = j % 10
    if c == 0 and n:
        return ["i", _ri(r, -n, n - 1)]
    if c == 1 and n:
        return ["I", _ri(r, -n, n - 1)]  # numpy integer
    if c == 2:
        return ["s", [None, None, None, _ri(r, 0, n), -_ri(r, 1, n + 1)][_ri(r, 0, 4)],
                [None, None, _ri(r, 0, n + 2), -_ri(r, 0, n + 1)][_ri(r, 0, 3)], [None, 1, 2, 3][_ri(r, 0, 3)]]
    if c == 3:
        return ["s", [None, n - 1, n + 3, -1][_ri(r, 0, 3)], [None, 0, -n - 2, None][_ri(r, 0, 3)], [-1, -2, -3][_ri(r, 0, 2)]]
    if c == 4 and n:
        return ["l", [_ri(r, -n, n - 1) for _ in range(_ri(r, 1, 5))]]
    if c == 5 and n:
        return ["a", [_ri(r, -n, n - 1) for _ in range(_ri(r, 0, 5))]]
    if c == 6:
        return ["b", [bool(r.random() < 0.5) for _ in range(n)]]
    if c == 7:
        a = _ri(r, 0, n)
        return ["s", a, a, None]  # empty
    if c == 8:
        return ["s", None, None, None]
    return ["s", _ri(r, 0, max(n - 1, 0)), None, None]


def cases(tier, seed):
    nvar = BOUNDS["variants_per_class"][tier]
    nitems = BOUNDS["items_per_axis"][tier]
    r = rng_for(seed, "c35-cases")
    s = 0
    for cls in _classes():
        from abtem.core import axes as A

        klass = getattr(A, cls)
        ordinal = issubclass(klass, A.OrdinalAxis)
        linear = issubclass(klass, A.LinearAxis)
        for v in range(nvar):
            kinds = VALUE_KINDS if ordinal else [None]
            for vk in kinds:
                if ordinal and tier == "quick" and (v + VALUE_KINDS.index(vk)) % 2 and vk not in ("pair", "ndarray2d", "empty"):
                    continue
                n = 0 if vk == "empty" else (1 if vk == "single" else _ri(r, 1, 7))
                s += 1
                base = dict(cls=cls, variant=v, values_kind=vk, n=n, s=s)
                yield dict(base, op="roundtrip")
                if ordinal:
                    for j in range(nitems if vk != "ndarray2d" else 3):
                        s += 1
                        yield dict(base, op="getitem", item=_gen_item(r, n, j + v), s=s)
                    s += 1
                    yield dict(base, op="concatenate", n_other=[_ri(r, 0, 4), _ri(r, 1, 3)], s=s)
            if linear:
                for n in sorted({0, 1, 2, _ri(r, 3, 40), _ri(r, 3, 40)}):
                    s += 1
                    yield dict(cls=cls, variant=v, values_kind=None, n=n, op="coordinates", s=s)


# ------------------------------------------------------------------------------------------------ run


def _values(kind, n, r):
    if kind == "int":
        return tuple(int(x) for x in r.integers(-50, 50, size=n))
    if kind == "float":
        return tuple(float(x) for x in np.round(r.normal(size=n) * 10, 3))
    if kind == "npfloat":
        return tuple(np.cumsum(r.uniform(0.5, 2.0, size=n)).astype(np.float32))
    if kind == "str":
        return tuple(f"v{i}" for i in range(n))
    if kind == "mixedlen_str":
        return tuple("ab" * (i % 3) + f"é{i}" for i in range(n))
    if kind == "pair":
        return tuple((float(np.round(r.normal(), 3)), float(i)) for i in range(n))
    if kind == "ndarray1d":
        return np.cumsum(r.uniform(0.5, 2.0, size=n))
    if kind == "ndarray2d":
        return r.normal(size=(n, 2))
    if kind == "list":
        return [float(i) * 1.5 for i in range(n)]
    if kind == "single":
        return 3.25
    if kind == "empty":
        return ()
    raise KeyError(kind)


def _make(case, r, n=None, values=None):
    """An axis of class case['cls'] with seeded non-default field values."""
    from abtem.core import axes as A

    klass = getattr(A, case["cls"])
    v = case["variant"]
    kw = {}
    for f in dataclasses.fields(klass):
        name = f.name
        if v == 0 and name != "values":
            continue  # variant 0: all defaults
        if name == "label":
            kw[name] = ["x", "", "tilt_x", "Å-axis é", "C10"][(v + len(case["cls"])) % 5]
        elif name == "units":
            kw[name] = ["Å", "mrad", "1/Å", "", "nm"][v % 5] if (v % 4 or f.default is not None) else None
        elif name == "tex_label":
            kw[name] = [None, "$x$", "$\\alpha_{cut}$"][v % 3]
        elif name == "tex_units":
            kw[name] = [None, "$\\mathrm{\\AA}$"][v % 2]
        elif name == "_default_type":
            kw[name] = ["index", "overlay", "range"][v % 3]
        elif f.type in ("bool", bool):
            kw[name] = bool((v + len(name)) % 2)
        elif name == "sampling":
            kw[name] = [0.05, -0.25, 1e-9, 3.0e6, np.float32(0.1), np.float64(0.3), 1.0][v % 7]
        elif name == "offset":
            kw[name] = [0.0, -12.5, 1e7, np.float32(2.5), -1e-9, 0.1][v % 6]
        elif name == "direction":
            kw[name] = "xy"[v % 2]
    if any(f.name == "values" for f in dataclasses.fields(klass)):
        kw["values"] = _values(case["values_kind"], case["n"] if n is None else n, r) if values is None else values
    return klass(**kw), kw


def _norm(v):
    if isinstance(v, np.ndarray):
        return _norm(v.tolist())
    if isinstance(v, (tuple, list)):
        return [_norm(x) for x in v]
    if isinstance(v, np.generic):
        return v.item()
    return v


def _fields(ax, skip=()):
    d = {f.name: _norm(getattr(ax, f.name)) for f in dataclasses.fields(ax) if f.name not in skip}
    d["__class__"] = type(ax).__name__
    return d


def _tag(case):
    return " ".join(f"{k}={case[k]}" for k in case if k != "s")


def _run_roundtrip(case):
    from abtem.core import axes as A

    r = rng_for(0, "c35", case["s"])
    ax, kw = _make(case, r)
    before = _fields(ax)
    tag = _tag(case)
    out = []
    nt = case["variant"] != 0 or case["values_kind"] not in (None, "empty")
    for name, to_d, from_d in (("axis_to_dict", A.axis_to_dict, A.axis_from_dict),
                               ("AxisMetadata.to_dict", lambda a: a.to_dict(), A.AxisMetadata.from_dict)):
        d = to_d(ax)
        back = from_d(d)
        ok = type(back) is type(ax) and _fields(back) == before
        out.append(Res(f"C35/{name}/roundtrip-fields", ok, f"{tag}: got {_fields(back)} expected {before}", nt))
        eq = bool(back == ax) and bool(ax == back)
        out.append(Res(f"C35/{name}/roundtrip-eq", eq,
                       f"{tag}: from_dict(to_dict(ax)) == ax is {back == ax} (ax == ax is {ax == ax}); fields {before}", nt))
        missing = [f.name for f in dataclasses.fields(ax) if f.name not in d]
        out.append(Res(f"C35/{name}/all-fields-serialized", not missing and d.get("type") == type(ax).__name__,
                       f"{tag}: fields missing from the dict: {missing}; type entry {d.get('type')!r}", True))
    out.append(Res("C35/axis_to_dict/receiver-unchanged", _fields(ax) == before, f"{tag}: axis changed by serialization", True))
    return out


def _select(values, tok):
    """Reference selection on a plain Python sequence."""
    values = list(values)
    n = len(values)
    k = tok[0]
    if k in ("i", "I"):
        return [values[tok[1]]], (int(tok[1]) if k == "i" else np.int64(tok[1]))
    if k == "s":
        sl = slice(tok[1], tok[2], tok[3])
        return values[sl], sl
    if k == "l":
        return [values[i] for i in tok[1]], list(tok[1])
    if k == "a":
        return [values[i] for i in tok[1]], np.array(tok[1], dtype=int)
    if k == "b":
        return [x for x, m in zip(values, tok[1]) if m], np.array(tok[1], dtype=bool)
    raise KeyError(k)


def _run_getitem(case):
    r = rng_for(0, "c35", case["s"])
    ax, kw = _make(case, r)
    vals0 = _norm(ax.values)
    before = _fields(ax)
    exp, item = _select(ax.values, case["item"])
    res = ax[item]
    tag = _tag(case)
    got = _norm(res.values)
    out = [Res("C35/OrdinalAxis.getitem/values", isinstance(res.values, tuple) and got == _norm(exp),
               f"{tag}: values {vals0}[{case['item']}] -> {got}, expected {_norm(exp)} (type {type(res.values).__name__})",
               len(exp) != len(vals0) or got != vals0)]
    # the selected entries are the very objects of the value sequence (a tuple entry stays a tuple), and the sliced axis
    # is the axis one would build from the selected values
    same_types = len(res.values) == len(exp) and all(type(a) is type(b) for a, b in zip(res.values, exp))
    out.append(Res("C35/OrdinalAxis.getitem/entry-types-kept", same_types,
                   f"{tag}: entry types {[type(a).__name__ for a in res.values]} vs {[type(b).__name__ for b in exp]}", len(exp) > 0))
    try:
        rebuilt = type(ax)(**{**kw, "values": tuple(exp)})
        if case.get("values_kind") == "ndarray2d":
            # `==` on axes whose entries are arrays is the recorded finding of axis_to_dict/roundtrip-eq: compare field-wise
            eq = _fields(res) == _fields(rebuilt)
        else:
            eq = bool(res == rebuilt)
        det = f"{tag}: ax[item] == {type(ax).__name__}(values=values[item]) is {eq}"
    except Exception as e:  # noqa: BLE001
        eq, det = False, f"{tag}: comparing ax[item] with the axis rebuilt from values[item] raised {type(e).__name__}: {e}"
    out.append(Res("C35/OrdinalAxis.getitem/equals-axis-of-selected-values", eq, det, len(exp) > 0))
    ok = type(res) is type(ax) and _fields(res, skip=("values",)) == _fields(ax, skip=("values",))
    out.append(Res("C35/OrdinalAxis.getitem/other-fields-kept", ok,
                   f"{tag}: got {_fields(res, skip=('values',))} from {_fields(ax, skip=('values',))}", case["variant"] != 0))
    out.append(Res("C35/OrdinalAxis.getitem/receiver-unchanged", _fields(ax) == before, f"{tag}: receiver changed", True))
    out.append(Res("C35/OrdinalAxis.getitem/len", len(res) == len(exp), f"{tag}: len {len(res)} vs {len(exp)}", True))
    return out


def _run_concatenate(case):
    r = rng_for(0, "c35", case["s"])
    a, kw = _make(case, r)
    kind = case["values_kind"] if case["values_kind"] not in ("single", "empty") else "float"
    others = []
    for n in case["n_other"]:
        o, _ = _make(dict(case, values_kind=kind), r, n=n)
        others.append(o)
    befores = [_fields(x) for x in [a] + others]
    res = a
    exp = list(a.values)
    for o in others:
        res = res.concatenate(o)
        exp = exp + list(o.values)
    tag = _tag(case)
    got = _norm(res.values)
    out = [Res("C35/OrdinalAxis.concatenate/values", isinstance(res.values, tuple) and got == _norm(exp),
               f"{tag}: got {got} expected {_norm(exp)}", len(exp) > len(a.values))]
    ok = type(res) is type(a) and _fields(res, skip=("values",)) == _fields(a, skip=("values",))
    out.append(Res("C35/OrdinalAxis.concatenate/other-fields-kept", ok,
                   f"{tag}: got {_fields(res, skip=('values',))} from {_fields(a, skip=('values',))}", case["variant"] != 0))
    out.append(Res("C35/OrdinalAxis.concatenate/operands-unchanged", [_fields(x) for x in [a] + others] == befores,
                   f"{tag}: an operand changed", True))
    return out


def _run_coordinates(case):
    r = rng_for(0, "c35", case["s"])
    ax, kw = _make(case, r)
    n = case["n"]
    c = ax.coordinates(n)
    off, smp = float(ax.offset), float(ax.sampling)
    ref = np.array([off + i * smp for i in range(n)], dtype=float)
    tag = _tag(case)
    scale = abs(off) + n * abs(smp)
    cc = np.asarray(c, dtype=float)
    single = isinstance(ax.offset, np.float32) or isinstance(ax.sampling, np.float32)
    tol = (1e-6 if single else 1e-12) * scale
    ok = len(c) == n and cc.shape == ref.shape and (n == 0 or bool(np.all(np.abs(cc - ref) <= tol)))
    err = float(np.max(np.abs(cc - ref))) if (n and cc.shape == ref.shape) else 0.0
    return [Res("C35/LinearAxis.coordinates/affine", ok,
                f"{tag}: offset={off!r} sampling={smp!r}: len {len(c)} (expected {n}), max|c_i-(offset+i*sampling)|={err:.3e}, "
                f"first {list(cc[:3])} vs {list(ref[:3])}", n > 1)]


def run_case(case):
    return dict(roundtrip=_run_roundtrip, getitem=_run_getitem, concatenate=_run_concatenate,
                coordinates=_run_coordinates)[case["op"]](case)
