"""C37 — real-space multislice is a faithful discretization (bounded run-time contract on the real functions).

Clauses of the statement and their obligations
  (a) "the finite-difference Laplacian of any accuracy applied to a discrete periodic plane wave returns that wave times
       the stencil's analytic eigenvalue"
        C37/laplace/eigenvalue      LaplaceOperator(accuracy).apply(waves) on e^{2 pi i (m x/Nx + n y/Ny)} (and on random
                                    superpositions, by linearity) == lambda(m,n) * wave with
                                    lambda = sum_j c_j ( e^{2 pi i m j/Nx}/sx^2 + e^{2 pi i n j/Ny}/sy^2 ),
                                    c_j the centred 2nd-derivative coefficients of the requested accuracy, obtained here
                                    independently by an exact rational Vandermonde solve (not read from abTEM's table).
        C37/laplace/frame           apply() keeps shape/dtype and the operator can be re-used after being applied to a wave
                                    with a different sampling (stencil cache keyed by sampling): covered by the 'reuse' axis
                                    inside the eigenvalue obligation; the frame obligation checks shape/dtype only.
  (b) "real-space propagation through vacuum preserves the intensity of band-limited waves"
        C37/vacuum/intensity-preserved   abtem.finite_difference.multislice_step (direct, chained, shared LaplaceOperator) and
                                    Waves.multislice(zero PotentialArray, algorithm=RealSpaceMultislice(...)) (public path)
  (c) "real-space multislice gives the same result lazily and eagerly"
        C37/multislice/lazy-equals-eager PlaneWave / Probe+scan (several chunks) through atoms potentials, with and
                                    without thickness series. (The optional back-scattered output is not part of the
                                    statement and is not requested: abTEM raises NotConvergedError for it whenever two
                                    consecutive slices are empty, lazily and eagerly alike.)

Domain note (stated, not a weakening): the exponential series of the real-space step refuses inputs outside its
convergence region with DivergedError (documented behaviour). Vacuum cases are therefore generated from a step-size
parameter t = dz*lambda*pi*kc^2*max(s)/min(s) in (0.05, 0.9) (kc = antialiasing cut-off), i.e. inside that region.
"""

import math
from fractions import Fraction

import numpy as np

from vlib.hx import Res, rng_for, tiny_atoms

PROPERTY = "C37"
RULE = ("'laplace': pairwise covering array over {accuracy, grid shape/parity, isotropic/anisotropic sampling, array "
        "layout (2-D, one batch axis, two batch axes), operator reuse after another sampling} with, per case, the plane "
        "waves (0,0), (1,0), (0,1), Nyquist, negative and 4 seeded frequencies plus 2 random superpositions; 'vacuum': "
        "covering array over {accuracy, order 1-3, expansion scope, grid, sampling, api (direct step chain / public "
        "multislice), band fraction} with seeded energy, step parameter t and 1-3 slices; 'lazy': covering array over "
        "{source planewave/probe, order, scope, accuracy, exit planes, max_batch, structure, grid}. "
        "Non-trivial: non-zero wave / exit wave differs from the incident wave; distinct = distinct case dicts")
BOUNDS = {
    "accuracy": {"quick": [2, 4, 6, 8], "thorough": [2, 4, 6, 8, 10, 12, 16, 18, 20]},
    "gpts": [[16, 16], [15, 15], [16, 15], [9, 20], [21, 12], [12, 12]],
    "sampling_A": [0.04, 0.3], "anisotropy": [1.3, 2.5], "energy_eV": [3e4, 3e5], "orders": [1, 2, 3],
    "step_parameter_t": [0.05, 0.9], "slices": [1, 3],
    "extra_random": {"quick": {"laplace": 6, "vacuum": 6, "lazy": 0}, "thorough": {"laplace": 150, "vacuum": 120, "lazy": 40}},
}
EXHAUSTIVE = False
ASSUMPTIONS = [
    "stencil kernels accumulate in complex64: |out - lambda*wave| <= 5e-6 * sum_j|c_j| * (1/sx^2 + 1/sy^2) * max|wave|",
    "vacuum: |I_after/I_before - 1| <= 2e-5 per slice (float32, series truncated at relative 1e-16)",
    "lazy vs eager: max|a-b| <= 1e-6 * max|b| (same arithmetic is expected, observed 0)",
    "band-limited = Fourier support in r <= f*(cutoff - taper), f <= 0.95",
    "centred finite-difference coefficients of accuracy p are the unique solution of sum_j c_j j^k = 2*delta_{k,2}, "
    "k = 0..p, j = -p/2..p/2 (exact rational arithmetic)",
]
CONTRACTS = [
    "abtem/finite_difference.py:LaplaceOperator.apply", "abtem/finite_difference.py:LaplaceOperator.get_stencil",
    "abtem/finite_difference.py:_laplace_operator_stencil", "abtem/finite_difference.py:finite_difference_coefficients",
    "abtem/finite_difference.py:multislice_step", "abtem/finite_difference.py:_multislice_exponential_series",
    "abtem/finite_difference.py:propagator_taylor_series", "abtem/finite_difference.py:full_series",
    "abtem/multislice.py:multislice_and_detect", "abtem/multislice.py:MultisliceTransform.apply",
]

_GPTS = [tuple(g) for g in BOUNDS["gpts"]]


def _f(x, nd=6):
    return float(round(float(x), nd))


def _sampling(r, aniso):
    s0 = _f(r.uniform(*BOUNDS["sampling_A"]), 4)
    if not aniso:
        return [s0, s0]
    s = [s0, _f(s0 * r.uniform(*BOUNDS["anisotropy"]), 4)]
    return s[::-1] if r.random() < 0.5 else s


def cases(tier, seed):
    from vlib.hx import covering

    extra = BOUNDS["extra_random"][tier]
    accs = BOUNDS["accuracy"][tier]

    rows = covering(dict(accuracy=accs, gpts=list(range(len(_GPTS))), aniso=[False, True], layout=["2d", "batch", "batch2"],
                         reuse=[False, True]), seed=seed + 11, extra_random=extra["laplace"])
    for i, row in enumerate(rows):
        r = rng_for(seed, "laplace", i)
        gp = _GPTS[row["gpts"]]
        freqs = [[0, 0], [1, 0], [0, 1], [gp[0] // 2, gp[1] // 2], [-1, -2]]
        freqs += [[int(r.integers(-gp[0], gp[0])), int(r.integers(-gp[1], gp[1]))] for _ in range(4)]
        samp = _sampling(r, row["aniso"])
        yield dict(mode="laplace", accuracy=row["accuracy"], gpts=list(gp), sampling=samp,
                   isotropic=samp[0] == samp[1], layout=row["layout"], reuse=row["reuse"], freqs=freqs,
                   energy=_f(10 ** r.uniform(math.log10(3e4), math.log10(3e5)), 1), seed=int(r.integers(1 << 30)))

    rows = covering(dict(accuracy=accs[:6], order=[1, 2, 3], scope=["propagator", "full"], gpts=list(range(len(_GPTS))),
                         aniso=[False, True], api=["step", "pipeline"], frac=[0.3, 0.95]),
                    seed=seed + 12, extra_random=extra["vacuum"])
    for i, row in enumerate(rows):
        r = rng_for(seed, "vacuum", i)
        samp = _sampling(r, row["aniso"])
        nsl = int(r.integers(1, 4))
        yield dict(mode="vacuum", accuracy=row["accuracy"], order=row["order"], scope=row["scope"],
                   gpts=list(_GPTS[row["gpts"]]), sampling=samp, isotropic=samp[0] == samp[1], api=row["api"],
                   frac=row["frac"], energy=_f(10 ** r.uniform(math.log10(3e4), math.log10(3e5)), 1),
                   t=[_f(r.uniform(*BOUNDS["step_parameter_t"]), 4) for _ in range(nsl)], seed=int(r.integers(1 << 30)))

    if tier == "quick":
        lazy_axes = dict(source=["planewave", "probe"], order=[1, 2], scope=["propagator", "full"], accuracy=[2, 6],
                         exit_planes=[None, 1], max_batch=[1, "auto"],
                         structure=["si", "two"], gpts=[2, 3])
    else:
        lazy_axes = dict(source=["planewave", "probe"], order=[1, 2, 3], scope=["propagator", "full"],
                         accuracy=[2, 4, 6, 8], exit_planes=[None, 1, 2],
                         max_batch=[1, 2, "auto"], structure=["si", "two", "single"], gpts=[0, 2, 3])
    rows = covering(lazy_axes, seed=seed + 13, extra_random=extra["lazy"])
    seen = set()
    for i, row in enumerate(rows):
        r = rng_for(seed, "lazy", i)
        c = dict(mode="lazy", source=row["source"], order=row["order"], scope=row["scope"], accuracy=row["accuracy"],
                 exit_planes=row["exit_planes"], max_batch=row["max_batch"], structure=row["structure"],
                 gpts=list(_GPTS[row["gpts"]]), energy=_f(r.uniform(8e4, 3e5), 1), size=_f(r.uniform(3.6, 5.0), 3),
                 height=_f(r.uniform(2.0, 3.0), 3), slice_thickness=_f(r.uniform(0.4, 0.65), 3),
                 seed=int(r.integers(1 << 30)))
        key = tuple(sorted((k, str(v)) for k, v in c.items() if k not in ("seed", "energy", "size", "height", "slice_thickness")))
        if key in seen:
            continue
        seen.add(key)
        yield c


# ----------------------------------------------------------------------------------------------


def fd_coefficients(accuracy):
    """centred 2nd-derivative coefficients, exact rational Gauss-Jordan solve of the moment conditions"""
    n = accuracy // 2
    offs = list(range(-n, n + 1))
    N = len(offs)
    A = [[Fraction(j) ** k for j in offs] + [Fraction(2 if k == 2 else 0)] for k in range(N)]
    for i in range(N):
        p = next(rr for rr in range(i, N) if A[rr][i] != 0)
        A[i], A[p] = A[p], A[i]
        piv = A[i][i]
        A[i] = [v / piv for v in A[i]]
        for rr in range(N):
            if rr != i and A[rr][i] != 0:
                fac = A[rr][i]
                A[rr] = [a - fac * b for a, b in zip(A[rr], A[i])]
    return offs, [float(A[i][N]) for i in range(N)]


def _eigenvalue(offs, c, m, n, gpts, samp):
    nx, ny = gpts
    return sum(cj * (np.exp(2j * np.pi * m * j / nx) / samp[0] ** 2 + np.exp(2j * np.pi * n * j / ny) / samp[1] ** 2)
               for j, cj in zip(offs, c))


def _plane(m, n, gpts):
    x, y = np.arange(gpts[0])[:, None], np.arange(gpts[1])[None, :]
    return np.exp(2j * np.pi * (m * x / gpts[0] + n * y / gpts[1]))


def _intensity(a):
    return (np.abs(np.asarray(a).astype(np.complex128)) ** 2).sum(axis=(-2, -1))


def _bandlimited(shape, samp, frac, rng):
    import abtem

    kx = np.fft.fftfreq(shape[-2], samp[0])[:, None]
    ky = np.fft.fftfreq(shape[-1], samp[1])[None, :]
    cutoff = abtem.config.get("antialias.cutoff") / max(samp) / 2
    taper = abtem.config.get("antialias.taper") / max(samp)
    mask = np.sqrt(kx ** 2 + ky ** 2) <= frac * (cutoff - taper)
    F = (rng.normal(size=shape) + 1j * rng.normal(size=shape)) * mask
    return (np.fft.ifft2(F) * math.sqrt(shape[-1] * shape[-2])).astype(np.complex64), int(mask.sum()), cutoff


def _run_laplace(case):
    import abtem
    from abtem.core.axes import OrdinalAxis
    from abtem.finite_difference import LaplaceOperator

    rng = rng_for(case["seed"], "laplace")
    gpts, samp, acc = tuple(case["gpts"]), tuple(case["sampling"]), case["accuracy"]
    offs, c = fd_coefficients(acc)
    freqs = [tuple(f) for f in case["freqs"]]
    lam = np.array([_eigenvalue(offs, c, m, n, gpts, samp) for m, n in freqs])
    planes = np.stack([_plane(m, n, gpts) for m, n in freqs])
    coef = rng.normal(size=(2, len(freqs))) + 1j * rng.normal(size=(2, len(freqs)))
    mixes = np.einsum("kf,fxy->kxy", coef, planes)
    expect_mix = np.einsum("kf,fxy->kxy", coef * lam[None, :], planes)
    waves_in = np.concatenate([planes, mixes]).astype(np.complex64)
    expect = np.concatenate([lam[:, None, None] * planes, expect_mix])
    M = waves_in.shape[0]

    if case["reuse"]:
        # a convergence study: an operator of ANOTHER accuracy has been used on the same grid, sampling and energy earlier
        # in this process; the operator under test must still be the stencil of its own accuracy
        LaplaceOperator(2 if acc != 2 else 6).apply(abtem.Waves(np.ones(gpts, np.complex64), energy=case["energy"], sampling=samp))
    op = LaplaceOperator(acc)
    if case["reuse"]:  # use the same operator first on a wave with another sampling (stencil cache keyed by sampling)
        other = abtem.Waves(np.ones(gpts, np.complex64), energy=case["energy"], sampling=(samp[0] * 1.5, samp[1] * 0.75))
        op.apply(other)

    out = []
    if case["layout"] == "2d":
        results = []
        for k in range(M):
            w = abtem.Waves(waves_in[k].copy(), energy=case["energy"], sampling=samp)
            results.append(np.asarray(op.apply(w).array))
        res = np.stack(results)
        shape_ok = all(r.shape == gpts for r in results)
    elif case["layout"] == "batch":
        w = abtem.Waves(waves_in.copy(), energy=case["energy"], sampling=samp,
                        ensemble_axes_metadata=[OrdinalAxis(values=tuple(range(M)))])
        res = np.asarray(op.apply(w).array)
        shape_ok = res.shape == waves_in.shape
    else:
        pad = (-M) % 2
        arr = np.concatenate([waves_in, np.zeros((pad,) + gpts, np.complex64)]) if pad else waves_in
        arr = arr.reshape((2, arr.shape[0] // 2) + gpts)
        w = abtem.Waves(arr.copy(), energy=case["energy"], sampling=samp,
                        ensemble_axes_metadata=[OrdinalAxis(values=(0, 1)), OrdinalAxis(values=tuple(range(arr.shape[1])))])
        res_full = np.asarray(op.apply(w).array)
        shape_ok = res_full.shape == arr.shape
        res = res_full.reshape((-1,) + gpts)[:M]
    out.append(Res("C37/laplace/frame", shape_ok and res.dtype == np.complex64,
                   f"result shape {res.shape} dtype {res.dtype} for input {waves_in.shape} complex64", True))

    scale = sum(abs(v) for v in c) * (1 / samp[0] ** 2 + 1 / samp[1] ** 2)
    err = np.abs(res.astype(np.complex128) - expect).reshape(M, -1).max(axis=1) / (
        scale * np.abs(waves_in).reshape(M, -1).max(axis=1))
    k = int(np.argmax(err))
    label = f"plane wave (m,n)={freqs[k]}" if k < len(freqs) else f"superposition #{k - len(freqs)}"
    # effective eigenvalue observed for the worst plane wave (only meaningful for a single plane wave)
    obs = ""
    if k < len(freqs):
        ratio = (res[k].astype(np.complex128) / planes[k])
        obs = f"; observed eigenvalue {complex(ratio.mean()):.6g} (spread {float(np.abs(ratio - ratio.mean()).max()):.2e}) vs analytic {complex(lam[k]):.6g}"
    out.append(Res("C37/laplace/eigenvalue", float(err[k]) <= 5e-6,
                   f"accuracy {acc}, gpts {gpts}, sampling {samp}: worst normalised |L psi - lambda psi| = {float(err[k]):.3e} "
                   f"(tol 5e-6) for {label}{obs}", True))
    return out


def _vacuum_dz(case, t):
    import abtem
    from abtem.core.energy import energy2wavelength

    samp = case["sampling"]
    kc = abtem.config.get("antialias.cutoff") / max(samp) / 2
    lam = float(energy2wavelength(case["energy"]))
    return float(t / (lam * math.pi * kc ** 2 * max(samp) / min(samp)))


def _run_vacuum(case):
    import abtem
    from abtem.core.axes import OrdinalAxis
    from abtem.finite_difference import LaplaceOperator, multislice_step
    from abtem.multislice import RealSpaceMultislice
    from abtem.potentials.iam import PotentialArray

    rng = rng_for(case["seed"], "vacuum")
    gpts, samp = tuple(case["gpts"]), tuple(case["sampling"])
    thick = [_vacuum_dz(case, t) for t in case["t"]]
    arr, nmodes, _ = _bandlimited((2,) + gpts, samp, case["frac"], rng)
    i0 = _intensity(arr)
    nt = bool(np.all(i0 > 0))
    full = case["scope"] == "full"
    md = [OrdinalAxis(values=(0, 1))]
    if case["api"] == "step":
        w = abtem.Waves(arr.copy(), energy=case["energy"], sampling=samp, ensemble_axes_metadata=md)
        pot = PotentialArray(np.zeros((len(thick),) + gpts, np.float32), slice_thickness=thick, sampling=samp)
        slices = list(pot.generate_slices())
        op = LaplaceOperator(case["accuracy"])
        worst = 0.0
        ip = i0
        for k, sl in enumerate(slices):
            nxt = slices[k + 1] if (full and k + 1 < len(slices)) else None
            r = multislice_step(w, sl, nxt, op, max_terms=80, order=case["order"], fully_corrected=full)
            w = r[0] if full else r
            inew = _intensity(w.array)
            worst = max(worst, float(np.abs(inew / ip - 1).max()))
            ip = inew
        ok = worst <= 2e-5
        detail = f"direct multislice_step chain, dz={['%.4f' % d for d in thick]}: worst per-slice |I_after/I_before-1|={worst:.3e}"
    else:
        w = abtem.Waves(arr.copy(), energy=case["energy"], sampling=samp, ensemble_axes_metadata=md)
        pot = PotentialArray(np.zeros((len(thick),) + gpts, np.float32), slice_thickness=thick, sampling=samp)
        alg = RealSpaceMultislice(order=case["order"], expansion_scope=case["scope"], derivative_accuracy=case["accuracy"])
        res = w.multislice(pot, algorithm=alg)
        if getattr(res, "is_lazy", False):
            res = res.compute(scheduler="synchronous", progress_bar=False)
        a = np.asarray(res.array)
        worst = float(np.abs(_intensity(a) / i0 - 1).max()) if a.shape == arr.shape else float("inf")
        ok = worst <= 2e-5 * len(thick)
        detail = (f"Waves.multislice(zero PotentialArray, RealSpaceMultislice), dz={['%.4f' % d for d in thick]}, result "
                  f"shape {a.shape}: |I_out/I_in-1|={worst:.3e}")
    return [Res("C37/vacuum/intensity-preserved", ok,
                f"accuracy {case['accuracy']}, order {case['order']}, scope {case['scope']}, {nmodes} modes inside "
                f"{case['frac']}*(cutoff-taper); {detail} (tol 2e-5 per slice)", nt)]


def _run_lazy(case):
    import abtem
    from abtem.multislice import RealSpaceMultislice

    rng = rng_for(case["seed"], "lazy")
    gpts = tuple(case["gpts"])
    atoms = tiny_atoms(case["structure"], size=case["size"], height=case["height"])
    alg = RealSpaceMultislice(order=case["order"], expansion_scope=case["scope"], derivative_accuracy=case["accuracy"])
    pos = rng.uniform(0, case["size"], (2, 2))

    def run(lazy):
        potential = abtem.Potential(atoms, gpts=gpts, slice_thickness=case["slice_thickness"],
                                    exit_planes=case["exit_planes"], projection="infinite")
        kw = dict(algorithm=alg)
        if case["source"] == "planewave":
            r = abtem.PlaneWave(energy=case["energy"]).multislice(potential, lazy=lazy, max_batch=case["max_batch"], **kw)
        else:
            probe = abtem.Probe(energy=case["energy"], semiangle_cutoff=25.0)
            r = probe.multislice(potential, scan=abtem.CustomScan(pos), lazy=lazy, max_batch=case["max_batch"], **kw)
        if lazy:
            r = r.compute(scheduler="synchronous", progress_bar=False)
        return [np.asarray(x.array) for x in r] if isinstance(r, (list, tuple)) else [np.asarray(r.array)]

    la = run(True)
    ea = run(False)
    ok = len(la) == len(ea)
    details = []
    nt = False
    for k, (a, b) in enumerate(zip(la, ea)):
        if a.shape != b.shape:
            ok = False
            details.append(f"output {k}: shape lazy {a.shape} != eager {b.shape}")
            continue
        scale = float(np.abs(b).max())
        err = float(np.abs(a.astype(np.complex128) - b.astype(np.complex128)).max())
        fin = bool(np.all(np.isfinite(a)) and np.all(np.isfinite(b)))
        ok = ok and fin and err <= 1e-6 * max(scale, 1e-30)
        nt = nt or (scale > 0 and float(np.abs(b).std()) > 0)
        details.append(f"output {k}: shape {b.shape}, max|lazy-eager|={err:.3e}, max|eager|={scale:.3e}, finite={fin}")
    return [Res("C37/multislice/lazy-equals-eager", ok, "; ".join(details) + " (tol 1e-6 relative)", nt)]


def run_case(case):
    if case["mode"] == "laplace":
        return _run_laplace(case)
    if case["mode"] == "vacuum":
        return _run_vacuum(case)
    return _run_lazy(case)
