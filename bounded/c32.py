"""C32 — API calls do not modify caller-owned inputs (bounded run-time contract on the real code).

Frame conditions, evaluated by snapshotting before and comparing after the call:

  Atoms side   `assigns nothing` on the ase.Atoms argument of orthogonalize_cell, standardize_cell, Potential (construction,
               eager/lazy build, through FrozenPhonons, multislice), FrozenPhonons (construction, iteration, randomize),
               StructureFactor (construction, build, potentials), BlochWaves (construction, diffraction patterns, rotate):
               positions, cell and numbers are bit-for-bit what they were.  A second group of public helpers of
               abtem.atoms that return new Atoms (pad_atoms, cut_cell, rotate_atoms_to_plane, flip_atoms,
               wrap_with_tolerance, best_orthogonal_cell) is checked under its own obligation name.
  Measurement side  every public method of Images / DiffractionPatterns / RealSpaceLineProfiles /
               ReciprocalSpaceLineProfiles / PolarMeasurements that returns a new measurement (found by reflection; methods
               that are in-place or I/O by contract are excluded by name) leaves the receiver's array (values, dtype, shape,
               laziness) and its metadata dict (deep equality) unchanged; also arithmetic operators and indexing.

Oracle: the statement itself (deep copies taken before the call).
"""

import copy
import inspect

import numpy as np

from vlib.hx import Res, rng_for

PROPERTY = "C32"

STRUCTS = ["ortho_in", "ortho_out", "hex", "hex_out", "fcc_prim", "ortho_noise", "nopbc_cubic", "rot_z", "permuted",
           "mixed_pbc"]
ORTHO = ["ortho_in", "ortho_out", "nopbc_cubic", "mixed_pbc"]
BUILDABLE = ["ortho_in", "ortho_out", "hex", "hex_out", "fcc_prim", "nopbc_cubic", "mixed_pbc"]
ALL = STRUCTS
NOT_PERMUTED = [k for k in STRUCTS if k != "permuted"]  # BlochWaves raises in ravel_hkl for permuted cell vectors

# (obligation group, variant name, structures in the domain of the call)
ATOM_CALLS = [
    ("orthogonalize_cell", "default", ["ortho_in", "ortho_out", "hex", "hex_out", "fcc_prim", "ortho_noise", "nopbc_cubic", "mixed_pbc"]),
    ("orthogonalize_cell", "origin", ["ortho_in", "ortho_out", "hex", "hex_out", "fcc_prim", "ortho_noise", "nopbc_cubic", "mixed_pbc"]),
    ("orthogonalize_cell", "return_transform", ["ortho_in", "ortho_out", "hex", "hex_out", "fcc_prim", "ortho_noise", "nopbc_cubic"]),
    ("orthogonalize_cell", "plane_xz", ["ortho_in", "ortho_out", "ortho_noise", "nopbc_cubic"]),
    ("orthogonalize_cell", "max_repetitions", ["hex", "hex_out", "fcc_prim"]),
    ("standardize_cell", "default", ["ortho_in", "ortho_out", "nopbc_cubic", "permuted", "mixed_pbc"]),
    ("Potential", "construct", BUILDABLE + ["ortho_noise"]),
    ("Potential", "build_eager", BUILDABLE),
    ("Potential", "build_lazy_compute", BUILDABLE),
    ("Potential", "infinite", BUILDABLE),
    ("Potential", "plane_origin", ORTHO),
    ("Potential", "box_nonperiodic", ORTHO),
    ("Potential", "via_frozen_phonons_eager", BUILDABLE),
    ("Potential", "via_frozen_phonons_lazy", BUILDABLE),
    ("Potential", "multislice", BUILDABLE),
    ("Potential", "via_frozen_phonons_zero_sigma_eager", BUILDABLE),
    ("Potential", "via_frozen_phonons_zero_sigma_lazy", BUILDABLE),
    ("FrozenPhonons", "construct", ALL),
    ("FrozenPhonons", "iterate", ALL),
    ("FrozenPhonons", "dict_sigmas_directions", ALL),
    ("FrozenPhonons", "randomize", ALL),
    ("FrozenPhonons", "configurations_are_private_copies", ALL),
    ("StructureFactor", "construct", ALL),
    ("StructureFactor", "build", ALL),
    ("StructureFactor", "potential_3d", ALL),
    ("StructureFactor", "projected_potential", ORTHO),
    ("BlochWaves", "from_atoms", NOT_PERMUTED),
    ("BlochWaves", "from_structure_factor_rotate", NOT_PERMUTED),
    ("atoms-helpers", "pad_atoms", ["ortho_in", "ortho_out", "hex", "hex_out", "ortho_noise", "nopbc_cubic", "mixed_pbc"]),
    ("atoms-helpers", "rotate_atoms_to_plane", ORTHO),
    ("atoms-helpers", "flip_atoms", ALL),
    ("atoms-helpers", "wrap_with_tolerance", ALL),
    ("atoms-helpers", "best_orthogonal_cell", ["hex", "fcc_prim", "ortho_in"]),
    ("atoms-helpers", "cut_cell", ORTHO + ["hex", "fcc_prim"]),
]

MTYPES = ["images", "diffraction", "line_real", "line_reciprocal", "polar"]
# methods that are in-place / I-O / device / plotting / constructors by contract: not "methods that return a new measurement"
EXCLUDED = {"compute", "copy_to_device", "to_gpu", "to_cpu", "from_array_and_metadata", "from_zarr", "to_zarr", "to_tiff",
            "to_hyperspy", "to_quantem", "to_data_array", "show", "generate_blocks", "ensemble_blocks",
            "set_ensemble_axes_metadata", "apply_transform", "get_items", "get_from_metadata", "index_diffraction_spots",
            "integrate_disc", "width",
            # raise for every input on the unchanged tree for reasons unrelated to C32 (not usable as a probe)
            "scan_noise", "tile_scan", "to_image_ensemble"}

RULE = ("Atoms side: every (function variant x structure kind in the variant's domain) x seeded random positions, structure "
        "kinds = {orthogonal with atoms inside, with atoms outside the cell, hexagonal, hexagonal with atoms outside, fcc "
        "primitive, orthogonal with 1e-8 off-diagonal noise, non-periodic cubic, cell rotated about z, permuted axes, mixed "
        "pbc}. Measurement side: every public method found by reflection on the five measurement classes (minus the "
        "excluded in-place/I-O names) x {eager, lazy} x {real, complex} x ensemble shape {(), (3,), (2,3)} restricted to the "
        "combinations the method accepts, x two initial metadata dicts; plus operators and indexing. A case is "
        "non-trivial when the call returned without being a no-op on an empty input; distinct = distinct case dict.")
BOUNDS = {"structures": STRUCTS, "atoms_seeds": {"quick": 2, "thorough": 12}, "measurement_types": MTYPES,
          "ensemble_shapes": [[], [3], [2, 3]], "metadata_variants": 2, "atoms_max": 8, "gpts_max": 24}
EXHAUSTIVE = False
ASSUMPTIONS = [
    "equality is exact: numpy.array_equal on positions, cell, numbers (and pbc reported in the detail only); array bytes, "
    "dtype, shape, laziness and deep equality of the metadata dict for measurements",
    "lazy receivers are compared through their computed values and the identity of the dask graph name",
    "methods named in EXCLUDED are in-place, I/O or constructors by contract, or unusable on the unchanged tree",
]
CONTRACTS = ["abtem/atoms.py:orthogonalize_cell", "abtem/atoms.py:standardize_cell", "abtem/potentials/iam.py:Potential.__init__",
             "abtem/potentials/iam.py:Potential.build", "abtem/inelastic/phonons.py:FrozenPhonons.__init__",
             "abtem/bloch/dynamical.py:StructureFactor.__init__", "abtem/bloch/dynamical.py:BlochWaves.__init__",
             "abtem/measurements.py:BaseMeasurements.real", "abtem/measurements.py:BaseMeasurements.imag",
             "abtem/measurements.py:BaseMeasurements.phase", "abtem/measurements.py:BaseMeasurements.abs",
             "abtem/measurements.py:BaseMeasurements.intensity", "abtem/measurements.py:(all public measurement methods)"]

OB_M_ARRAY = "C32/measurement-methods/receiver-array-unchanged"
OB_M_META = "C32/measurement-methods/receiver-metadata-unchanged"


# ------------------------------------------------------------------------------------------------
# measurement method table

_T = ("images", "diffraction", "line_real", "line_reciprocal", "polar")


def _method_specs():
    """name -> list of dict(types, kwargs (callable of ctx or dict), requires) describing accepted combinations."""
    anyens = [[], [3], [2, 3]]
    S = {}

    def add(name, types=_T, kwargs=None, cplx=(False, True), lazy=(False, True), ens=anyens):
        S.setdefault(name, []).append(dict(types=types, kwargs=kwargs or {}, cplx=cplx, lazy=lazy, ens=ens))

    add("abs")
    for n in ("real", "imag", "phase", "intensity"):
        add(n, cplx=(True,))
    add("copy")
    add("lazy")
    add("ensure_lazy")
    add("squeeze")
    add("expand_dims")
    add("reduce_ensemble")
    add("normalize_ensemble")
    add("no_base_chunks")
    add("to_measurement_ensemble")
    add("rechunk", lazy=(True,), kwargs={"chunks": "auto"})
    for n in ("sum", "mean", "std", "min", "max"):
        add(n, kwargs={"axis": 0}, ens=[[3], [2, 3]])
    add("poisson_noise", kwargs={"total_dose": 1.0e4, "seed": 1}, cplx=(False,))
    add("apply_func", kwargs="FUNC", lazy=(False,))
    add("relative_difference", kwargs="OTHER", lazy=(False,))
    add("crop", types=("images",), kwargs={"extent": (1.0, 1.2)})
    add("crop", types=("diffraction",), kwargs={"max_angle": 5.0})
    add("gaussian_filter", types=("images", "diffraction"), kwargs={"sigma": 0.3})
    add("gaussian_source_size", types=("diffraction", "polar"), kwargs={"sigma": 0.4}, ens=[[2, 3]])
    add("interpolate", types=("images",), kwargs={"sampling": 0.1})
    add("interpolate", types=("diffraction",), kwargs={"sampling": 0.04})
    add("interpolate", types=("line_real",), kwargs={"sampling": 0.05}, cplx=(False,))
    add("interpolate", types=("line_reciprocal",), kwargs={"sampling": 0.01}, cplx=(False,))
    add("interpolate_line", types=("images",), kwargs={"start": (0.1, 0.1), "end": (1.2, 1.4)}, lazy=(False,))
    add("interpolate_line", types=("diffraction",), kwargs={"start": (0.0, 0.0), "end": (0.1, 0.1)}, lazy=(False,))
    add("interpolate_line_at_position", types=("images", "diffraction"),
        kwargs={"center": (0.8, 0.9), "angle": 30.0, "extent": 1.0}, lazy=(False,))
    add("tile", types=("images",), kwargs={"repetitions": (2, 1)})
    add("tile", types=("line_real",), kwargs={"repetitions": 2})
    add("diffractograms", types=("images",))
    add("integrate_gradient", types=("images",), cplx=(True,))
    add("azimuthal_average", types=("diffraction",))
    add("bandlimit", types=("diffraction",), kwargs={"inner": 1.0, "outer": 6.0})
    add("block_direct", types=("diffraction",))
    add("center_of_mass", types=("diffraction",))
    add("integrated_center_of_mass", types=("diffraction",), ens=[[2, 3]])
    add("integrate_radial", types=("diffraction",), kwargs={"inner": 0.0, "outer": 6.0})
    add("integrate_radial", types=("polar",), kwargs={"inner": 0.0, "outer": 4.0})
    add("polar_binning", types=("diffraction",), kwargs={"nbins_radial": 3, "nbins_azimuthal": 4, "inner": 0.0, "outer": 6.0},
        cplx=(False,))
    add("radial_binning", types=("diffraction",), kwargs={"step_size": 2.0, "inner": 0.0, "outer": 6.0}, cplx=(False,))
    add("integrate", types=("polar",))
    add("differentials", types=("polar",), kwargs={"direction_1": ((0, 1), (0, 2)), "direction_2": ((0, 0), (0, 3))}, ens=[[2, 3]])
    add("to_diffraction_patterns", types=("polar",), kwargs={"gpts": (12, 12)})
    # operators and indexing (return new measurements)
    add("__add__", kwargs="OTHER_POS")
    add("__sub__", kwargs="OTHER_POS")
    add("__mul__", kwargs="SCALAR_POS")
    add("__truediv__", kwargs="SCALAR_POS")
    add("__getitem__", kwargs="INDEX", ens=[[3], [2, 3]])
    return S


def _classes():
    from abtem import measurements as M

    return {"images": M.Images, "diffraction": M.DiffractionPatterns, "line_real": M.RealSpaceLineProfiles,
            "line_reciprocal": M.ReciprocalSpaceLineProfiles, "polar": M.PolarMeasurements}


def _public_methods(cls):
    out = []
    for n, f in inspect.getmembers(cls):
        if n.startswith("_") or not callable(f) or isinstance(inspect.getattr_static(cls, n), property):
            continue
        out.append(n)
    return out


def cases(tier, seed):
    # ---- atoms side
    nseeds = BOUNDS["atoms_seeds"][tier]
    for group, variant, kinds in ATOM_CALLS:
        for kind in kinds:
            for s in range(nseeds):
                yield dict(side="atoms", group=group, variant=variant, struct=kind, data_seed=s)
    # ---- measurement side: reflection decides which methods exist; the table says how to call them
    specs = _method_specs()
    classes = _classes()
    k = 0
    for mtype in MTYPES:
        names = [n for n in _public_methods(classes[mtype]) if n not in EXCLUDED]
        names += [n for n in specs if n.startswith("__")]
        for name in names:
            if name not in specs:
                # a public method the table does not know: evaluated with no arguments (may be reported as a harness gap)
                yield dict(side="measurement", mtype=mtype, method=name, lazy=False, cplx=False, ens=[3], md=0, unknown=True)
                continue
            for sp in specs[name]:
                if mtype not in sp["types"]:
                    continue
                for lazy in sp["lazy"]:
                    for cplx in sp["cplx"]:
                        enss = sp["ens"] if tier == "thorough" else [sp["ens"][k % len(sp["ens"])], sp["ens"][-1]]
                        for ens in {tuple(e) for e in enss}:
                            k += 1
                            for md in ((0, 1) if tier == "thorough" else (k % 2,)):
                                yield dict(side="measurement", mtype=mtype, method=name, lazy=lazy, cplx=cplx, ens=list(ens), md=md)


# ------------------------------------------------------------------------------------------------
# atoms side


def _structure(kind, seed):
    from ase import Atoms
    from ase.build import bulk, graphene

    r = rng_for(seed, "C32-struct", kind)
    if kind in ("ortho_in", "ortho_out", "ortho_noise", "mixed_pbc", "rot_z", "permuted"):
        cell = np.array([4.0, 4.6, 3.2]) * r.uniform(0.9, 1.1, 3)
        frac = r.uniform(0.05, 0.95, (4, 3))
        a = Atoms("SiSiOC", positions=frac * cell, cell=cell, pbc=True)
        if kind == "ortho_out":
            a.positions[0] += [-1.3 * cell[0], 0.0, 0.4 * cell[2]]
            a.positions[2] += [0.2 * cell[0], 1.1 * cell[1], -0.7 * cell[2]]
            a.positions[3, 2] = -1e-9
        if kind == "ortho_noise":
            c = np.array(a.cell)
            c[0, 1], c[2, 0], c[1, 2] = 3e-8, -2e-9, 5e-7
            a.set_cell(c)
        if kind == "mixed_pbc":
            a.pbc = [True, True, False]
        if kind == "rot_z":
            a.rotate(30.0, "z", rotate_cell=True)
        if kind == "permuted":
            c = np.array(a.cell)
            a.set_cell(c[[2, 0, 1]], scale_atoms=False)
        return a
    if kind in ("hex", "hex_out"):
        a = graphene(vacuum=2.0)
        a.pbc = True
        a.positions += r.uniform(-0.05, 0.05, a.positions.shape)
        if kind == "hex_out":
            a.positions[0] += [-3.0, 4.0, 0.0]
        return a
    if kind == "fcc_prim":
        a = bulk("Cu", "fcc", a=3.6)
        return a
    if kind == "nopbc_cubic":
        a = bulk("Fe", "bcc", a=2.87, cubic=True)
        a.pbc = False
        a.positions += r.uniform(0.0, 0.2, a.positions.shape)
        return a
    raise ValueError(kind)


def _atoms_call(group, variant, a):
    import abtem
    from abtem import atoms as A

    sched = dict(scheduler="synchronous")
    potkw = dict(sampling=0.4, slice_thickness=1.0)
    syms = sorted(set(a.get_chemical_symbols()))
    if group == "orthogonalize_cell":
        if variant == "default":
            return abtem.orthogonalize_cell(a)
        if variant == "origin":
            return abtem.orthogonalize_cell(a, origin=(0.5, 0.25, 0.0))
        if variant == "return_transform":
            return abtem.orthogonalize_cell(a, return_transform=True)
        if variant == "plane_xz":
            return abtem.orthogonalize_cell(a, plane="xz")
        if variant == "max_repetitions":
            return abtem.orthogonalize_cell(a, max_repetitions=3)
    if group == "standardize_cell":
        return abtem.standardize_cell(a)
    if group == "Potential":
        if variant == "construct":
            return abtem.Potential(a, **potkw)
        if variant == "build_eager":
            return abtem.Potential(a, **potkw).build(lazy=False)
        if variant == "build_lazy_compute":
            return abtem.Potential(a, **potkw).build(lazy=True).compute(**sched)
        if variant == "infinite":
            return abtem.Potential(a, projection="infinite", **potkw).build(lazy=False)
        if variant == "plane_origin":
            return abtem.Potential(a, plane="xz", origin=(0.3, 0.2, 0.1), **potkw).build(lazy=False)
        if variant == "box_nonperiodic":
            return abtem.Potential(a, box=(6.0, 6.0, 6.0), periodic=False, **potkw).build(lazy=False)
        if variant == "via_frozen_phonons_eager":
            fp = abtem.FrozenPhonons(a, num_configs=2, sigmas=0.1, seed=1)
            return abtem.Potential(fp, **potkw).build(lazy=False)
        if variant == "via_frozen_phonons_lazy":
            fp = abtem.FrozenPhonons(a, num_configs=2, sigmas=0.1, seed=1)
            return abtem.Potential(fp, **potkw).build(lazy=True).compute(**sched)
        if variant == "multislice":
            return abtem.PlaneWave(energy=100e3).multislice(abtem.Potential(a, **potkw)).compute(**sched)
        if variant.startswith("via_frozen_phonons_zero_sigma"):  # vanishing displacements: still a private configuration
            fp = abtem.FrozenPhonons(a, num_configs=2, sigmas=[0.0, {s_: 0.0 for s_ in syms}][len(syms) % 2], seed=1)
            pot = abtem.Potential(fp, **potkw)
            return pot.build(lazy=False) if variant.endswith("eager") else pot.build(lazy=True).compute(**sched)
    if group == "FrozenPhonons":
        if variant == "construct":
            return abtem.FrozenPhonons(a, num_configs=2, sigmas=0.1, seed=1)
        if variant == "iterate":
            fp = abtem.FrozenPhonons(a, num_configs=3, sigmas=0.1, seed=1)
            return [c for c in fp], len(fp)
        if variant == "dict_sigmas_directions":
            fp = abtem.FrozenPhonons(a, num_configs=2, sigmas={s: 0.07 for s in syms}, directions="xy", seed=3)
            return [c for c in fp]
        if variant == "randomize":
            return abtem.FrozenPhonons(a, num_configs=2, sigmas=0.1, seed=1).randomize(a)
        if variant == "configurations_are_private_copies":
            # what a caller may do with the configurations it is handed (also with vanishing displacements): edit them
            outs = []
            for sig in (0.1, 0.0):
                fp = abtem.FrozenPhonons(a, num_configs=2, sigmas=sig, seed=1)
                for cfg in [fp.randomize(a)] + [c for c in fp]:
                    cfg = cfg.atoms if hasattr(cfg, "atoms") and not hasattr(cfg, "positions") else cfg
                    if hasattr(cfg, "positions"):
                        cfg.positions[:] += 0.37
                        cfg.wrap()
                    outs.append(cfg)
            return outs
    if group == "StructureFactor":
        from abtem.bloch import StructureFactor

        sf = StructureFactor(a, g_max=2.0, thermal_sigma=0.05)
        if variant == "construct":
            return sf
        if variant == "build":
            return sf.build(lazy=False), sf.build(lazy=True).compute(**sched)
        if variant == "potential_3d":
            return np.asarray(sf.get_potential_3d(lazy=False))
        if variant == "projected_potential":
            return sf.get_projected_potential(slice_thickness=1.0, lazy=False)
    if group == "BlochWaves":
        from abtem.bloch import BlochWaves, StructureFactor

        if variant == "from_atoms":
            bw = BlochWaves(a, energy=100e3, sg_max=0.05, g_max=1.0)
            return bw.calculate_diffraction_patterns([0.0, 50.0], lazy=False)
        if variant == "from_structure_factor_rotate":
            bw = BlochWaves(StructureFactor(a, g_max=2.0), energy=100e3, sg_max=0.05, g_max=1.0).rotate("x", 0.02, "y", 0.01)
            return bw.calculate_diffraction_patterns(40.0, lazy=True).compute(**sched)
    if group == "atoms-helpers":
        if variant == "pad_atoms":
            return A.pad_atoms(a, margins=2.0)
        if variant == "rotate_atoms_to_plane":
            return A.rotate_atoms_to_plane(a, "xz")
        if variant == "flip_atoms":
            return A.flip_atoms(a)
        if variant == "wrap_with_tolerance":
            return A.wrap_with_tolerance(a)
        if variant == "best_orthogonal_cell":
            return A.best_orthogonal_cell(a.cell)
        if variant == "cut_cell":
            return A.cut_cell(a, cell=(5.0, 5.0, 4.0))
    raise ValueError((group, variant))


def _run_atoms(case):
    a = _structure(case["struct"], case["data_seed"])
    snap = dict(positions=a.positions.copy(), cell=np.array(a.cell).copy(), numbers=a.numbers.copy(), pbc=np.array(a.pbc).copy())
    _atoms_call(case["group"], case["variant"], a)
    changed = []
    if a.positions.shape != snap["positions"].shape or not np.array_equal(a.positions, snap["positions"]):
        if a.positions.shape == snap["positions"].shape:
            d = np.abs(a.positions - snap["positions"])
            i = int(np.argmax(d.max(axis=1)))
            changed.append(f"positions (atom {i}: {snap['positions'][i].tolist()} -> {a.positions[i].tolist()})")
        else:
            changed.append(f"positions shape {snap['positions'].shape} -> {a.positions.shape}")
    if not np.array_equal(np.array(a.cell), snap["cell"]):
        changed.append(f"cell ({snap['cell'].tolist()} -> {np.array(a.cell).tolist()})")
    if a.numbers.shape != snap["numbers"].shape or not np.array_equal(a.numbers, snap["numbers"]):
        changed.append(f"numbers ({snap['numbers'].tolist()} -> {a.numbers.tolist()})")
    extra = "" if np.array_equal(np.array(a.pbc), snap["pbc"]) else f" [pbc also changed: {snap['pbc'].tolist()} -> {np.array(a.pbc).tolist()}]"
    ob = f"C32/{case['group']}/atoms-argument-unchanged"
    return [Res(ob, not changed, (f"{case['group']}[{case['variant']}] on '{case['struct']}' modified the caller's " + "; ".join(changed) + extra)
                if changed else f"{case['group']}[{case['variant']}] on '{case['struct']}': unchanged{extra}", True)]


# ------------------------------------------------------------------------------------------------
# measurement side


def _make_measurement(mtype, lazy, cplx, ens, md, seed=1):
    import dask.array as da
    from abtem.core.axes import ScanAxis

    classes = _classes()
    r = rng_for(seed, "C32-meas", mtype, cplx, tuple(ens))
    base = {"images": (8, 10), "diffraction": (9, 9), "line_real": (16,), "line_reciprocal": (16,), "polar": (4, 6)}[mtype]
    ens = tuple(ens)
    a = r.uniform(0.1, 1.0, ens + base).astype(np.float32)
    if cplx:
        a = (a + 1j * r.uniform(0.1, 1.0, ens + base)).astype(np.complex64)
    if lazy:
        a = da.from_array(a, chunks=(1,) * len(ens) + base)
    axes = [ScanAxis(label="xy"[i % 2], sampling=0.3 + 0.1 * i, units="Å") for i in range(len(ens))]
    metadata = [{"energy": 100e3}, {"energy": 100e3, "label": "my label", "units": "e/Å^2", "custom": {"nested": [1, 2, {"k": "v"}]}}][md]
    metadata = copy.deepcopy(metadata)
    cls = classes[mtype]
    if mtype == "images":
        return cls(a, sampling=(0.2, 0.25), ensemble_axes_metadata=axes, metadata=metadata)
    if mtype == "diffraction":
        return cls(a, sampling=(0.05, 0.05), fftshift=True, ensemble_axes_metadata=axes, metadata=metadata)
    if mtype == "line_real":
        return cls(a, sampling=0.1, ensemble_axes_metadata=axes, metadata=metadata)
    if mtype == "line_reciprocal":
        return cls(a, sampling=0.02, ensemble_axes_metadata=axes, metadata=metadata)
    if mtype == "polar":
        return cls(a, radial_sampling=2.0, azimuthal_sampling=float(np.pi / 3), ensemble_axes_metadata=axes, metadata=metadata)
    raise ValueError(mtype)


def _values(m):
    a = m.array
    if hasattr(a, "compute"):
        a = a.compute(scheduler="synchronous")
    return np.asarray(a)


def _run_measurement(case):
    mtype, name = case["mtype"], case["method"]
    lazy, cplx, ens, md = case["lazy"], case["cplx"], case["ens"], case["md"]
    m = _make_measurement(mtype, lazy, cplx, ens, md)
    specs = _method_specs()
    if case.get("unknown"):
        sig = inspect.signature(getattr(m, name))
        req = [p for p in sig.parameters.values() if p.default is p.empty and p.kind in (p.POSITIONAL_ONLY, p.POSITIONAL_OR_KEYWORD)]
        if req:
            return [Res(OB_M_ARRAY, True, f"{mtype}.{name}: public method unknown to the harness table and it needs arguments "
                        f"{[p.name for p in req]}: NOT evaluated (harness gap)", False)]
    kwargs = {}
    if not case.get("unknown"):
        for sp in specs[name]:
            if mtype in sp["types"]:
                kwargs = sp["kwargs"]
                break
    args = ()
    if kwargs == "FUNC":
        kwargs = {"func": lambda x: x * 2}
    elif kwargs == "OTHER":
        kwargs = {"other": _make_measurement(mtype, lazy, cplx, ens, md, seed=2)}
    elif kwargs == "OTHER_POS":
        args, kwargs = (_make_measurement(mtype, lazy, cplx, ens, md, seed=2),), {}
    elif kwargs == "SCALAR_POS":
        args, kwargs = (2.5,), {}
    elif kwargs == "INDEX":
        args, kwargs = (1,), {}

    md0 = copy.deepcopy(m.metadata)
    md_id = id(m.metadata)
    v0 = _values(m).copy()
    dtype0, shape0, lazy0 = m.array.dtype, tuple(m.shape), m.is_lazy
    name0 = m.array.name if lazy0 else None
    axes0 = copy.deepcopy(m.axes_metadata)

    res = getattr(m, name)(*args, **kwargs)
    # use the result the way a caller would (forces lazy graphs, exposes in-place work done at compute time)
    if res is not m and hasattr(res, "array") and (isinstance(res.array, np.ndarray) or hasattr(res.array, "dask")):
        _values(res)

    problems_a, problems_m = [], []
    if m.is_lazy != lazy0:
        problems_a.append(f"laziness {lazy0} -> {m.is_lazy}")
    v1 = _values(m)
    if tuple(m.shape) != shape0 or v1.shape != v0.shape:
        problems_a.append(f"shape {shape0} -> {tuple(m.shape)}")
    elif m.array.dtype != dtype0:
        problems_a.append(f"dtype {dtype0} -> {m.array.dtype}")
    elif not np.array_equal(v1, v0, equal_nan=True):
        problems_a.append(f"{int((v1 != v0).sum())} of {v0.size} values changed")
    if lazy0 and m.is_lazy and m.array.name != name0:
        problems_a.append("dask graph of the receiver replaced")
    if m.metadata != md0 or id(m.metadata) != md_id and m.metadata != md0:
        diff = {k: (md0.get(k, "<absent>"), m.metadata.get(k, "<absent>")) for k in set(md0) | set(m.metadata)
                if md0.get(k, "<absent>") != m.metadata.get(k, "<absent>")}
        problems_m.append(f"metadata keys changed (before, after): {diff}")
    try:
        same_axes = all(x == y for x, y in zip(axes0, m.axes_metadata)) and len(axes0) == len(m.axes_metadata)
    except Exception:  # noqa: BLE001
        same_axes = True
    if not same_axes:
        problems_m.append("axes metadata of the receiver changed")
    tag = f"{mtype}.{name}({', '.join(k for k in (kwargs if isinstance(kwargs, dict) else {}))}) lazy={lazy} complex={cplx} ensemble={tuple(ens)} metadata#{md}"
    nt = res is not None
    return [Res(OB_M_ARRAY, not problems_a, f"{tag}: " + ("; ".join(problems_a) if problems_a else "array unchanged"), nt),
            Res(OB_M_META, not problems_m, f"{tag}: " + ("; ".join(problems_m) if problems_m else "metadata unchanged"), nt)]


def run_case(case):
    import warnings

    warnings.filterwarnings("ignore")
    if case["side"] == "atoms":
        return _run_atoms(case)
    return _run_measurement(case)
