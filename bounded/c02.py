"""C02 — a frozen-phonon ensemble equals independent per-configuration simulations (bounded run-time contract).

Contract on Probe/PlaneWave/SMatrix .multislice/.scan through Potential(FrozenPhonons | AtomsEnsemble) ->
MultisliceTransform -> multislice_and_detect, and on FrozenPhonons iteration / partitioning:

  (per-config)   out[k] == simulate(Potential(list(fp)[k]))   from the same incident wave, for every k
  (mean)         with ensemble_mean the result == mean_k simulate(Potential(list(fp)[k]))
  (seeds)        list(fp) is a function of the seeds alone: repeated iteration, a fresh instance, any block partition
                 (chunk sizes, lazy or eager partition), any order of block processing and the single-seed
                 FrozenPhonons(seed=(seed_k,)) all give bit-identical displaced atoms for configuration k

Oracle: n independent single-configuration runs of the same builder/detector/scan through Potential(atoms_k) with the
same potential parameters (evaluated eagerly; a single configuration never enters the configuration loop more than once),
and np.mean of them.
"""

from vlib.hx import Res, rng_for, covering

PROPERTY = "C02"

_AXES = {
    "kind": ["fp", "ens"],
    "n": [1, 2, 3, 5],
    "sigmas": ["scalar", "dict", "peratom", "aniso"],
    "seed": ["int", "tuple"],
    "directions": ["xyz", "xy", "z"],
    "mean": [True, False],
    "detectors": ["waves", "annular", "pixelated", "flexible", "two"],
    "exit_planes": ["none", "1", "2", "tuple", "open"],
    "builder": ["probe_point", "probe_grid", "planewave", "smatrix"],
    "lazy": [True, False],
    "grid": ["16x16", "15x18", "12x20"],
}

RULE = ("pairwise covering array over kind (FrozenPhonons / AtomsEnsemble) x number of configurations x sigma form "
        "(scalar, per-element dict, per-atom list, anisotropic triple) x seed form (int / explicit tuple) x directions x "
        "ensemble_mean x detector set x exit planes x builder (Probe at a point, Probe on a 2x2 grid scan, PlaneWave, "
        "SMatrix) x evaluation mode x grid parity, plus seeded random rows; cell, atoms, energy, sigma values and "
        "seeds are seeded samples. Non-trivial: n > 1 and the compared arrays are not all zero (n == 1 rows exercise "
        "the degenerate ensemble and are flagged non-trivial only for the seed clauses). Distinct = distinct case dict.")
BOUNDS = {"axes": _AXES, "atoms": "<= 5", "gpts": "<= 20 per side", "slices": "2..4",
          "rows": {"quick": "covering array + 20 random rows", "thorough": "3 covering arrays + 3 x 150 random rows"}}
EXHAUSTIVE = False
ASSUMPTIONS = [
    "ensemble member vs independent run compared with max-abs error <= 1e-5 * max|reference| (float32)",
    "mean compared with the same tolerance against np.mean (float64 accumulate) of the independent runs",
    "displaced atoms compared bit-exactly (positions, numbers, cell)",
    "SMatrix rows use exit_planes=None: SMatrix.scan raises for any potential with several exit planes, also for a "
    "single configuration, so thickness series through PRISM are outside the domain of this property",
    "Waves outputs keep the frozen-phonon axis even with ensemble_mean=True (abTEM does not average complex waves); "
    "the per-configuration clause is applied whenever the axis is present, the mean clause when it was reduced",
]
CONTRACTS = [
    "abtem/multislice.py:multislice_and_detect",
    "abtem/multislice.py:_generate_potential_configurations",
    "abtem/multislice.py:MultisliceTransform._partition_args",
    "abtem/inelastic/phonons.py:FrozenPhonons.randomize",
    "abtem/inelastic/phonons.py:FrozenPhonons._partition_args",
    "abtem/inelastic/phonons.py:AtomsEnsemble._partition_args",
    "abtem/measurements.py:BaseMeasurements.reduce_ensemble",
    "abtem/prism/s_matrix.py:SMatrix",
]


def _finish(row, seed, i):
    r = rng_for(seed, "c02", i, sorted((k, str(v)) for k, v in row.items()))
    c = dict(row)
    if c["builder"] == "smatrix":
        c["exit_planes"] = "none"  # SMatrix supports no thickness series at all (not even for one configuration)
    c["atoms"] = ["si", "two", "random"][int(r.integers(3))]
    c["aseed"] = int(r.integers(1000))
    c["size"] = [round(float(r.uniform(3.2, 5.0)), 3), round(float(r.uniform(3.2, 5.0)), 3)]
    nsl = int(r.integers(2, 5))
    c["slice_thickness"] = ([round(float(t), 3) for t in r.uniform(0.6, 1.4, nsl)] if r.uniform() < 0.4
                            else round(float(r.uniform(0.8, 1.3)), 3))
    c["nslices"] = nsl
    c["energy"] = float([80e3, 100e3, 200e3, 300e3][int(r.integers(4))])
    c["sigma"] = round(float(r.uniform(0.06, 0.2)), 3)
    c["fpseed"] = int(r.integers(1, 100_000))
    c["seeds"] = [int(x) for x in r.choice(100_000, size=c["n"], replace=False)]
    c["defocus"] = round(float(r.uniform(-50, 50)), 2)
    return c


def _pinned_rows():
    """Three-way combinations a pairwise array does not guarantee: several configurations in ONE block (eager), an
    entrance plane (integer exit_planes) and every detector / builder — the bookkeeping of the configuration loop."""
    rows = []
    for k, det in enumerate(_AXES["detectors"]):
        for b, builder in enumerate(["probe_point", "probe_grid", "planewave"]):
            if (k + b) % 2 and builder != "planewave":
                continue
            rows.append(dict(kind=["fp", "ens"][(k + b) % 2], n=[2, 3][(k + b) % 2], sigmas="scalar", seed="tuple", directions="xyz",
                             mean=bool((k + b) % 3 == 0), detectors=det, exit_planes=["1", "2"][b % 2], builder=builder,
                             lazy=False, grid=_AXES["grid"][(k + b) % 3], _pinned_nslices=4))
    return rows


def cases(tier, seed):
    reps = 1 if tier == "quick" else 3
    i = 0
    for row in _pinned_rows():
        c = _finish({k: v for k, v in row.items() if not k.startswith("_")}, seed, 10_000 + i)
        c["nslices"] = 4
        if isinstance(c["slice_thickness"], list):
            c["slice_thickness"] = 1.0
        yield c
        i += 1
    for s in range(reps):
        for row in covering(_AXES, seed=77 + 1000 * seed + s, extra_random=20 if tier == "quick" else 150):
            yield _finish(row, seed, i)
            i += 1


# ------------------------------------------------------------------------------------------------


def _wavelength(energy):
    import math

    e = energy / 1e3
    return 12.3984244 / math.sqrt(e * (2 * 510.99895 + e))


def _gpts(c):
    a, b = c["grid"].split("x")
    return int(a), int(b)


def _max_angle(c):
    g = _gpts(c)
    return min(g[0] / (2 * c["size"][0]), g[1] / (2 * c["size"][1])) * _wavelength(c["energy"]) * 1e3


def _thicknesses(c):
    st = c["slice_thickness"]
    return [float(t) for t in st] if isinstance(st, list) else [float(st)] * c["nslices"]


def _atoms(c):
    import numpy as np
    from ase import Atoms

    height = float(sum(_thicknesses(c)))
    r = np.random.default_rng(c["aseed"])
    if c["atoms"] == "two":
        sym, pos = ["C", "O"], [[0.3, 0.4, 0.25], [0.7, 0.55, 0.7]]
    elif c["atoms"] == "random":
        sym = [str(s) for s in r.choice(["C", "Si", "Cu"], 5)]
        pos = r.uniform(0.05, 0.95, (5, 3))
    else:
        sym = ["Si", "Si", "O"]
        pos = [[0.2, 0.2, 0.2], [0.6, 0.5, 0.55], [0.4, 0.8, 0.85]]
    sx, sy = c["size"]
    return Atoms(sym, positions=np.array(pos, float) * [sx, sy, height], cell=[sx, sy, height], pbc=True)


def _sigmas(c, atoms):
    import numpy as np

    s = c["sigma"]
    form = c["sigmas"]
    if form == "scalar":
        return s
    if form == "dict":
        syms = sorted(set(atoms.get_chemical_symbols()))
        return {sym: round(s * (1.0 + 0.5 * k), 4) for k, sym in enumerate(syms)}
    if form == "peratom":
        return [round(s * (1.0 + 0.3 * k), 4) for k in range(len(atoms))]
    if form == "aniso":
        return (s, round(0.5 * s, 4), round(1.5 * s, 4))
    raise ValueError(form)


def _make_fp(c, atoms=None, seed=None, n=None, mean=None):
    import abtem

    atoms = _atoms(c) if atoms is None else atoms
    if seed is None:
        seed = c["fpseed"] if c["seed"] == "int" else tuple(c["seeds"])
    return abtem.FrozenPhonons(atoms, c["n"] if n is None else n, _sigmas(c, atoms), directions=c["directions"],
                               ensemble_mean=c["mean"] if mean is None else mean, seed=seed)


def _pot_kwargs(c):
    th = _thicknesses(c)
    n = len(th)
    ep = {"none": None, "1": 1, "2": 2, "tuple": (0, n - 1), "open": (0,)}[c["exit_planes"]]  # open: single plane, not the last slice
    st = tuple(th) if isinstance(c["slice_thickness"], list) else th[0]
    return dict(gpts=_gpts(c), slice_thickness=st, exit_planes=ep)


def _detector(name, c):
    import abtem

    m = _max_angle(c)
    if name == "waves":
        return abtem.detectors.WavesDetector()
    if name == "annular":
        return abtem.AnnularDetector(inner=0.3 * m, outer=0.8 * m)
    if name == "flexible":
        return abtem.FlexibleAnnularDetector(step_size=m / 6.0)
    if name == "pixelated":
        return abtem.PixelatedDetector(max_angle=None)
    raise ValueError(name)


def _detectors(c):
    if c["detectors"] == "two":
        return [_detector("annular", c), _detector("pixelated", c)]
    return _detector(c["detectors"], c)


def _simulate(c, potential, lazy):
    """The pipeline under contract: same builder, scan and detectors for ensemble and single runs."""
    import abtem

    b = c["builder"]
    m = _max_angle(c)
    dets = _detectors(c)
    ex = potential.extent
    if b == "planewave":
        out = abtem.PlaneWave(energy=c["energy"]).multislice(potential, detectors=dets, lazy=lazy)
    elif b in ("probe_point", "probe_grid"):
        probe = abtem.Probe(energy=c["energy"], semiangle_cutoff=0.45 * m, defocus=c["defocus"])
        probe.grid.match(potential)
        if b == "probe_point":
            scan = (0.3 * ex[0], 0.6 * ex[1])
        else:
            scan = abtem.GridScan(start=(0, 0), end=(0.5 * ex[0], 0.5 * ex[1]), gpts=(2, 2))
        out = probe.multislice(potential, scan=scan, detectors=dets, lazy=lazy)
    elif b == "smatrix":
        s = abtem.SMatrix(potential=potential, energy=c["energy"], semiangle_cutoff=0.45 * m, downsample=False)
        scan = abtem.GridScan(start=(0, 0), end=(0.5 * ex[0], 0.5 * ex[1]), gpts=(2, 2))
        out = s.scan(scan=scan, detectors=dets, lazy=lazy)
    else:
        raise ValueError(b)
    if lazy:
        if isinstance(out, (list, tuple)):
            out = out.compute(scheduler="synchronous", progress_bar=False) if hasattr(out, "compute") else [
                o.compute(scheduler="synchronous", progress_bar=False) for o in out]
        else:
            out = out.compute(scheduler="synchronous", progress_bar=False)
    return list(out) if isinstance(out, (list, tuple)) else [out]


def _atoms_sig(a):
    return (a.positions.tobytes(), a.numbers.tobytes(), a.cell.array.tobytes())


def _seed_clauses(c, fp, configs):
    """`configs` = list(fp). All comparisons are bit-exact."""
    import numpy as np

    out = []
    n = len(configs)
    ref = [_atoms_sig(a) for a in configs]
    nt = True

    def cmp(name, other, what):
        ok = len(other) == n and all(_atoms_sig(a) == s for a, s in zip(other, ref))
        det = what
        if not ok:
            if len(other) != n:
                det += f": {len(other)} configurations instead of {n}"
            else:
                k = [i for i, (a, s) in enumerate(zip(other, ref)) if _atoms_sig(a) != s]
                d = float(np.abs(other[k[0]].positions - configs[k[0]].positions).max())
                det += f": configurations {k} differ (max |dpos| of first = {d:.3e})"
        out.append(Res(f"C02/configurations/{name}", ok, det, nt))

    cmp("repeatable", list(fp), "second iteration of the same FrozenPhonons")
    cmp("repeatable", list(_make_fp(c, seed=tuple(fp.seed))), "fresh instance with the same seed tuple")
    if c["seed"] == "int":
        cmp("repeatable", list(_make_fp(c)), "fresh instance from the same integer seed")
    # seed_k alone determines configuration k
    singles = [list(_make_fp(c, seed=(s,), n=1))[0] for s in fp.seed]
    cmp("seed-determined", singles, "FrozenPhonons(num_configs=1, seed=(seed_k,)) for each k")
    # permuted seeds give permuted configurations (order of processing)
    perm = list(np.random.default_rng(c["fpseed"]).permutation(n))
    fp_perm = _make_fp(c, seed=tuple(fp.seed[int(j)] for j in perm))
    got = list(fp_perm)
    back = [None] * n
    for pos, j in enumerate(perm):
        back[int(j)] = got[pos]
    cmp("order-independent", back, f"seeds permuted by {[int(j) for j in perm]}")
    # reversed block processing order
    blocks = list(fp.generate_blocks(1))
    rev = [b[2].item().randomize(b[2].item().atoms) for b in reversed(blocks)][::-1]
    cmp("order-independent", rev, "blocks processed in reverse order")
    # partitions: chunk sizes x lazy/eager partition
    for chunks in sorted({1, 2, n}):
        got = []
        for _, _, blk in fp.generate_blocks(chunks):
            got += list(blk.item())
        cmp("chunking-independent", got, f"generate_blocks(chunks={chunks}) (eager partition)")
        lazy_blocks = fp.ensemble_blocks((chunks,)).compute(scheduler="synchronous")
        got = []
        for blk in lazy_blocks.ravel():
            got += list(blk)
        cmp("chunking-independent", got, f"ensemble_blocks(chunks={chunks}) (lazy partition)")
    # displacement only along the requested directions
    base = fp.atoms.positions
    axes_allowed = {"x": 0, "y": 1, "z": 2}
    frozen = [axes_allowed[a] for a in "xyz" if a not in c["directions"]]
    ok = all(np.array_equal(a.positions[:, frozen], base[:, frozen]) for a in configs)
    moved = all(np.any(a.positions != base) for a in configs)
    out.append(Res("C02/configurations/seed-determined", ok and moved,
                   f"directions={c['directions']}: components {frozen} unchanged={ok}, every configuration displaced={moved}",
                   True))
    distinct = len({s for s in ref}) == n
    out.append(Res("C02/configurations/seed-determined", distinct,
                   f"{n} distinct seeds gave {len(set(ref))} distinct configurations", n > 1))
    return out


def run_case(case):
    import abtem
    import numpy as np

    c = case
    out = []
    n = c["n"]
    fp = _make_fp(c)
    configs = list(fp)
    out += _seed_clauses(c, fp, configs)

    if c["kind"] == "fp":
        ensemble = fp
    else:
        ensemble = abtem.AtomsEnsemble([a.copy() for a in configs], ensemble_mean=c["mean"])
        got = list(ensemble)
        ok = len(got) == n and all(_atoms_sig(a) == _atoms_sig(b) for a, b in zip(got, configs))
        out.append(Res("C02/configurations/seed-determined", ok, "AtomsEnsemble iteration returns its trajectory in order", True))

    kw = _pot_kwargs(c)
    full = _simulate(c, abtem.Potential(ensemble, **kw), c["lazy"])
    singles = [_simulate(c, abtem.Potential(a.copy(), **kw), False) for a in configs]

    for j, res in enumerate(full):
        refs = [s[j] for s in singles]
        ref0 = refs[0]
        stack = np.stack([np.asarray(r.array) for r in refs])
        scale = float(np.abs(stack).max())
        tol = 1e-5 * max(scale, 1e-30)
        got = np.asarray(res.array)
        name = f"out[{j}] {type(res).__name__}{tuple(res.shape)} ({'lazy' if c['lazy'] else 'eager'}, n={n})"
        spread = float(np.abs(stack - stack[0]).max()) if n > 1 else 0.0
        if got.shape == stack.shape:
            err = np.abs(got - stack).reshape(n, -1).max(axis=1)
            ok = bool(np.all(err <= tol))
            out.append(Res("C02/per-config/equals-independent", ok,
                           f"{name}: per-configuration max|ensemble[k]-independent[k]| = {[float(f'{e:.3g}') for e in err]}, "
                           f"scale {scale:.3e}, spread between configurations {spread:.3e}",
                           n > 1 and spread > tol))
        elif got.shape == stack.shape[1:]:
            if c["mean"] or n == 1:
                mean = stack.astype(np.complex128 if np.iscomplexobj(stack) else np.float64).mean(axis=0)
                err = float(np.abs(got - mean).max())
                ob = "C02/ensemble-mean/equals-mean" if c["mean"] else "C02/per-config/equals-independent"
                out.append(Res(ob, err <= tol,
                               f"{name}: max|result-mean_k(independent[k])| = {err:.3e}, scale {scale:.3e}, "
                               f"distance to configuration 0 alone {float(np.abs(got - stack[0]).max()):.3e}",
                               n > 1 and spread > tol))
            else:
                out.append(Res("C02/per-config/equals-independent", False,
                               f"{name}: ensemble axis missing although ensemble_mean=False and n={n}", True))
        else:
            out.append(Res("C02/per-config/equals-independent", False,
                           f"{name}: unexpected shape {got.shape}; independent runs have {stack.shape[1:]}", True))
    return out
