"""C25 — each atomic potential parametrization is internally consistent (bounded run-time contract).

For every element of the Lobato, Kirkland and Peng tables, on the real callables returned by
Parametrization.potential / scattering_factor / projected_potential / projected_scattering_factor:

  potential/positive-decreasing            V(r) > 0 and V(r_i) > V(r_{i+1}) on a log-spaced radial grid
  scattering-factor/positive-decreasing    f(k^2) > 0 and decreasing in k on [0, kmax]
  projected-sf/equals-2d-ft-of-projected-potential
        f_p(k^2) == 2*pi * Int_0^inf V_p(r) J0(2*pi*k*r) r dr     (numerical Hankel transform, composite Gauss-Legendre)
  projected-potential/equals-projection-of-3d-potential
        V_p(r) == 2 * Int_0^inf V(sqrt(r^2+z^2)) dz               (numerical projection, composite Gauss-Legendre)
  same-atom (real space <-> reciprocal space, 3-D forms)
        f(k^2) == kappa * 4*pi * Int_0^inf V(r) sin(2*pi*k*r)/(2*pi*k*r) r^2 dr   (3-D Fourier transform of V), and by the
        central-slice theorem f_p(k^2) == f(k^2)/kappa

The oracles are numerical quadratures written here (NumPy/SciPy only) — no abTEM code on the reference side.  The only
abTEM constant used is abtem.core.constants.kappa (the documented conversion between a scattering factor in Angstrom and a
potential in V*Angstrom^3); it enters only the 'same-atom' clause.
"""

import numpy as np

from vlib.hx import Res, rng_for

PROPERTY = "C25"
RULE = ("exhaustive over every element key of the tables loaded by LobatoParametrization(), KirklandParametrization() and "
        "PengParametrization() / PengParametrization('peng_low.json') (one case per parametrization x element); radii log-spaced in [r_min, r_max] plus seeded "
        "uniform extras, spatial frequencies linear in [0, k_max] plus seeded extras; transform clauses at the stated "
        "sample points. Every case is non-trivial (functions are non-zero); distinct = (parametrization, element)")
BOUNDS = {
    "parametrizations": ["lobato", "kirkland", "peng", "peng_low"],
    "elements": "all keys of each table (103 / 103 / 98 / 98); peng = PengParametrization() (peng_high.json), peng_low = "
                "PengParametrization('peng_low.json'); peng_ionic.json holds ions (keys like 'Li+'), which are not elements "
                "and are not reachable through get_function for positive charge - not in the domain",
    "r_range_A": [1e-3, 12.0], "k_range_invA": [0.0, 12.0],
    "grid_points": {"quick": 300, "thorough": 2000},
    "hankel_k": {"quick": [0.0, 0.05, 0.3, 0.9, 2.0, 4.0], "thorough": [0.0, 0.02, 0.05, 0.1, 0.3, 0.6, 0.9, 1.5, 2.0, 3.0, 4.0, 6.0]},
    "projection_r": {"quick": [0.01, 0.05, 0.2, 0.7, 1.5, 4.0], "thorough": [0.003, 0.01, 0.03, 0.05, 0.1, 0.2, 0.4, 0.7, 1.0, 1.5, 2.5, 4.0, 6.0]},
    "quadrature": "composite 16-point Gauss-Legendre: geometric panels 1e-9..0.02 A (ratio 2), then 0.02 A panels to 60 A",
}
EXHAUSTIVE = False   # elements exhaustive, radii / frequencies sampled
ASSUMPTIONS = [
    "C25: 'decreasing' is strict on grids whose neighbouring points differ by >= 0.3 %; values are evaluated by abTEM with "
    "float32 coefficients",
    "C25: transform identities are compared pointwise: |abTEM - oracle| <= 5e-4*|oracle| + 1e-8*max|oracle| (observed on "
    "the unchanged tree: <= 1.1e-4 for Lobato at k = 6 1/A, where float32 coefficients of opposite sign cancel, <= 1e-6 "
    "elsewhere); the quadratures reproduce the closed forms of a Yukawa and of a Gaussian term to 1e-14",
    "C25: integrals are truncated at 60 A; every tabulated term is negligible there except the third Gaussian of He in "
    "the Kirkland table (amplitude 1.7e-11 V, width ~60 A), which stays below the absolute floor",
]
CONTRACTS = [
    "abtem/parametrizations/__init__.py:Parametrization.get_function",
    "abtem/parametrizations/__init__.py:LobatoParametrization.scaled_parameters",
    "abtem/parametrizations/__init__.py:KirklandParametrization.scaled_parameters",
    "abtem/parametrizations/__init__.py:PengParametrization.scaled_parameters",
    "abtem/parametrizations/functions/lobato.py", "abtem/parametrizations/functions/kirkland.py",
    "abtem/parametrizations/functions/peng.py",
]


def _param(name, table="shipped"):
    from abtem.parametrizations import KirklandParametrization, LobatoParametrization, PengParametrization

    cls = {"lobato": LobatoParametrization, "kirkland": KirklandParametrization, "peng": PengParametrization,
           "peng_low": PengParametrization}[name]
    base = PengParametrization("peng_low.json") if name == "peng_low" else cls()
    if table == "shipped":
        return base
    # the same table handed over as a dict of float64 arrays (the documented `parameters: dict[str, np.ndarray]` form,
    # also what Parametrization.from_json stores)
    return cls(parameters={k: np.array(v, dtype=np.float64) for k, v in base.parameters.items()})


def cases(tier, seed):
    for name in BOUNDS["parametrizations"]:
        els = [str(e) for e in _param(name).parameters.keys()]
        for el in els:
            yield dict(parametrization=name, element=el, tier=tier, seed=int(seed))
        # the same elements with the table given as ndarrays and the four functions requested in another order
        sub = els if tier == "thorough" else els[:: max(1, len(els) // 8)]
        for j, el in enumerate(sub):
            yield dict(parametrization=name, element=el, tier=tier, seed=int(seed), table="ndarray", order=j % 4)


# ---- oracle-side quadrature ------------------------------------------------------------------------------------

_GL = np.polynomial.legendre.leggauss(16)


def _nodes(rmax=60.0, first=1e-9, knee=0.02, step=0.02):
    """Composite Gauss-Legendre nodes/weights on [0, rmax]: geometric panels near 0 (integrable log / 1/r behaviour)."""
    edges = [0.0, first]
    while edges[-1] * 2 < knee:
        edges.append(edges[-1] * 2)
    lin = np.arange(knee, rmax + step / 2, step)
    edges = np.concatenate((edges, lin))
    a, b = edges[:-1], edges[1:]
    x = (0.5 * (b - a))[:, None] * _GL[0][None] + (0.5 * (b + a))[:, None]
    w = (0.5 * (b - a))[:, None] * _GL[1][None]
    return x.ravel(), w.ravel()


def _hankel0(fr, k, x, w):
    from scipy.special import j0

    return np.array([2 * np.pi * np.sum(w * fr * j0(2 * np.pi * kk * x) * x) for kk in k])


def _ft3(fr, k, x, w):
    return np.array([4 * np.pi * np.sum(w * fr * np.sinc(2 * kk * x) * x ** 2) for kk in k])


def _project(func, r):
    """2 * Int_0^inf func(sqrt(r^2+z^2)) dz with panels scaled to r (the integrand varies on the scale r near z=0)."""
    out = []
    for rr in r:
        edges = np.concatenate(([0.0], np.geomspace(rr / 64, 60.0, 120)))
        a, b = edges[:-1], edges[1:]
        z = ((0.5 * (b - a))[:, None] * _GL[0][None] + (0.5 * (b + a))[:, None]).ravel()
        wz = ((0.5 * (b - a))[:, None] * _GL[1][None]).ravel()
        out.append(2 * np.sum(wz * np.asarray(func(np.sqrt(rr ** 2 + z ** 2)), dtype=np.float64)))
    return np.array(out)


def _monotone(name, x, f, what):
    f = np.asarray(f, dtype=np.float64)
    fin = bool(np.all(np.isfinite(f)))
    pos = bool(np.all(f > 0))
    d = np.diff(f)
    dec = bool(np.all(d < 0))
    msg = "ok"
    if not fin:
        i = int(np.where(~np.isfinite(f))[0][0])
        msg = f"non-finite value {f[i]} at {what}={x[i]:.6g}"
    elif not pos:
        i = int(np.where(f <= 0)[0][0])
        msg = f"value {f[i]:.6g} <= 0 at {what}={x[i]:.6g}"
    elif not dec:
        i = int(np.where(d >= 0)[0][0])
        msg = f"not decreasing: f({x[i]:.6g})={f[i]:.9g} <= f({x[i + 1]:.6g})={f[i + 1]:.9g}"
    return Res(name, fin and pos and dec, f"{len(x)} points of {what} in [{x[0]:.4g}, {x[-1]:.4g}]: {msg}", True)


def _agree(name, got, ref, xs, what, rtol=5e-4, afloor=1e-8):
    """Pointwise: |abTEM - oracle| <= rtol*|oracle| + afloor*max|oracle|."""
    got = np.asarray(got, dtype=np.float64)
    ref = np.asarray(ref, dtype=np.float64)
    scale = float(np.abs(ref).max())
    err = np.abs(got - ref)
    excess = err - (rtol * np.abs(ref) + afloor * scale)
    i = int(np.argmax(excess))
    return Res(name, bool(np.all(np.isfinite(got)) and excess[i] <= 0),
               f"{what}: worst point {xs[i]:.4g}: abTEM {got[i]:.8g}, oracle {ref[i]:.8g} (rel. dev. "
               f"{err[i] / max(abs(ref[i]), 1e-300):.3e}); values at {[float(f'{v:.4g}') for v in xs]} abTEM "
               f"{[float(f'{v:.6g}') for v in got]} oracle {[float(f'{v:.6g}') for v in ref]}", scale > 0)


def run_case(case):
    from abtem.core.constants import kappa

    name, el, tier = case["parametrization"], case["element"], case.get("tier", "quick")
    p = _param(name, case.get("table", "shipped"))
    # the order in which the four functions are requested must not matter (each request re-derives the scaled parameters)
    req = ["potential", "projected_potential", "scattering_factor", "projected_scattering_factor"]
    o = int(case.get("order", 0))
    fns = {nm: getattr(p, nm)(el) for nm in req[o:] + req[:o]}
    V, Vp, f, fp = (fns[nm] for nm in req)
    r_lo, r_hi = BOUNDS["r_range_A"]
    k_lo, k_hi = BOUNDS["k_range_invA"]
    n = BOUNDS["grid_points"][tier]
    rng = rng_for(case.get("seed", 0), "c25", name, el)
    r = np.geomspace(r_lo, r_hi, n)
    extra = np.sort(rng.uniform(r_lo, r_hi, n // 4))
    r = np.unique(np.concatenate((r, extra)))
    r = r[np.concatenate(([True], np.diff(r) / r[:-1] > 3e-3))]
    k = np.linspace(k_lo, k_hi, n)
    k = np.unique(np.concatenate((k, rng.uniform(k_lo, k_hi, n // 4))))
    k = k[np.concatenate(([True], np.diff(k) > 1e-3))]
    out = [
        _monotone(f"C25/{name}/potential-positive-decreasing", r, V(r), "r"),
        _monotone(f"C25/{name}/projected-potential-positive-decreasing", r, Vp(r), "r"),
        _monotone(f"C25/{name}/scattering-factor-positive-decreasing", k, f(k ** 2), "k"),
        _monotone(f"C25/{name}/projected-scattering-factor-positive-decreasing", k, fp(k ** 2), "k"),
    ]
    x, w = _nodes()
    ks = np.array(BOUNDS["hankel_k"][tier], dtype=np.float64)
    rs = np.array(BOUNDS["projection_r"][tier], dtype=np.float64)
    vp_x = np.asarray(Vp(x), dtype=np.float64)
    v_x = np.asarray(V(x), dtype=np.float64)
    fp_k = np.asarray(fp(ks ** 2), dtype=np.float64)
    f_k = np.asarray(f(ks ** 2), dtype=np.float64)
    out.append(_agree(f"C25/{name}/projected-sf-equals-2d-ft-of-projected-potential", fp_k, _hankel0(vp_x, ks, x, w), ks,
                      "f_p(k^2) vs 2*pi*Int V_p(r) J0(2 pi k r) r dr"))
    out.append(_agree(f"C25/{name}/projected-potential-equals-projection-of-3d-potential", Vp(rs), _project(V, rs), rs,
                      "V_p(r) vs 2*Int V(sqrt(r^2+z^2)) dz"))
    out.append(_agree(f"C25/{name}/scattering-factor-equals-3d-ft-of-potential", f_k, kappa * _ft3(v_x, ks, x, w), ks,
                      "f(k^2) vs kappa*4*pi*Int V(r) sinc(2 k r) r^2 dr"))
    out.append(_agree(f"C25/{name}/projected-sf-equals-central-slice-of-sf", fp_k, f_k / kappa, ks,
                      "f_p(k^2) vs f(k^2)/kappa"))
    return out
