"""C19 — ensemble partitioning reassembles every member exactly once (bounded run-time contract).

For an ensemble E (scan, distribution-parametrised transform / probe, frozen phonons, potentials, S-matrix, array
object with ensemble axes) and a valid chunking c the REAL partitioning machinery is run twice,
    eager:  list(E.generate_blocks(c))            -> (block index, slices, block)
    lazy :  E.ensemble_blocks(c).compute(sync)     -> object array of blocks
and the contract is evaluated on what the blocks report about their members:

  indices-and-slices     block indices come in C order, one block per index; the slices tile the ensemble shape exactly
                         once (NumPy counter array), are contiguous in the original order, and each block's own
                         ensemble_shape equals the extent of its slices; explicit tuple chunkings are honoured verbatim
  members-reassemble     for every block and every member table T of the ensemble kind:  T(block) == T(E)[slices]
                         (scan positions; distribution values and weights per axis; frozen-phonon seeds and the atomic
                         configurations generated per member; trajectory frames; array data).  Together with the tiling
                         clause this is "reassembling the blocks yields exactly the original members in order".
  axes                   per ensemble axis: type/label/units kept; value-carrying axes (Ordinal/NonLinear/Parameter/
                         Tilt/Positions) report exactly the slice of the original values; linear axes (LinearAxis,
                         ScanAxis ...) report the coordinates of the slice (offset advanced by start*sampling)
  lazy-equals-eager      same number of blocks, and every lazy block reports the same members as the eager block

Oracle: NumPy slicing of the tables reported by the *unpartitioned* ensemble; chunk extents recomputed here by
cumulative sums.  No abTEM partition logic is re-used.
"""

import itertools

from vlib.hx import Res, rng_for

PROPERTY = "C19"
RULE = ("every ensemble kind (custom/line/grid scan; CTF, aperture, temporal envelope, beam tilt, probe with 1-3 "
        "distribution axes; FrozenPhonons, AtomsEnsemble, Potential, CrystalPotential, SMatrix, DummyFrozenPhonons; "
        "Images/Waves with linear, scan, ordinal, parameter, positions and index axes, eager and dask-backed) x every "
        "ensemble shape <= (4,3) (1-axis kinds 1..5; one 3-axis shape) x ALL tuple chunkings (all compositions per "
        "axis) plus int / -1 / mixed / whole-int specs; each case runs eager and lazy. Non-trivial: more than one "
        "block. Distinct = distinct (kind, parameters, shape, chunks).")
BOUNDS = {"ensemble_shape_max": [4, 3], "one_axis_max": 5, "three_axis_shapes": [[2, 3, 2]],
          "chunkings": "all compositions per axis + ints 1..n + -1 + whole-int limits",
          "quick": "2-axis kinds: all compositions on shapes <= (4,3); thorough adds shapes <= (5,4) and more seeds"}
EXHAUSTIVE = False
ASSUMPTIONS = [
    "exact equality for values, weights, seeds, array data, ordinal axis values and custom-scan positions; grid/line "
    "scan positions (float32, recomputed by abTEM from start + k*sampling) within 2e-6 * max|coordinate|; linear-axis "
    "coordinates within 1e-9",
    "'auto' chunk specs are not used: the ensemble API passes no dtype, so validate_chunks raises ValueError for them "
    "(chunk validation itself is C18)",
    "LineScan axis metadata (label r, offset fixed to 0 by construction of every LineScan) is not compared; its "
    "positions are",
    "member tables are read from the blocks through public attributes where they exist (positions, values, weights, "
    "seed(s), trajectory, array, ensemble_axes_metadata) and `_distribution_properties`/`_ensembles` otherwise",
]
CONTRACTS = ["abtem/core/ensemble.py:Ensemble.generate_blocks", "abtem/core/ensemble.py:Ensemble.ensemble_blocks",
             "abtem/scan.py:CustomScan._partition_args", "abtem/scan.py:LineScan._partition_args",
             "abtem/scan.py:GridScan._partition_args", "abtem/distributions.py:DistributionFromValues.divide",
             "abtem/distributions.py:EnsembleFromDistributions._partition_args",
             "abtem/inelastic/phonons.py:FrozenPhonons._partition_args",
             "abtem/inelastic/phonons.py:AtomsEnsemble._partition_args",
             "abtem/inelastic/phonons.py:DummyFrozenPhonons._partition_args",
             "abtem/potentials/iam.py:CrystalPotential._partition_args", "abtem/potentials/iam.py:Potential._partition_args",
             "abtem/waves.py:WavesBuilder._partition_args", "abtem/prism/s_matrix.py:SMatrix._partition_args",
             "abtem/array.py:ArrayObject._partition_args", "abtem/array.py:ArrayObject._partition_ensemble_axes_metadata"]

_OB_IDX = "C19/generate_blocks/indices-and-slices"
_OB_SCAN = "C19/scan/positions-reassemble"
_OB_DIST = "C19/distributions/values-and-weights-reassemble"
_OB_SEED = "C19/frozen_phonons/seeds-and-configurations-reassemble"
_OB_ARR = "C19/array_object/array-reassembles"
_OB_AXV = "C19/axes/values-reassemble"
_OB_AXL = "C19/axes/linear-coordinates-reassemble"
_OB_AXT = "C19/axes/type-label-units-kept"
_OB_LAZY = "C19/ensemble_blocks/lazy-equals-eager"

_GROUP = {"custom_scan": _OB_SCAN, "line_scan": _OB_SCAN, "grid_scan": _OB_SCAN,
          "ctf": _OB_DIST, "aperture": _OB_DIST, "temporal": _OB_DIST, "beam_tilt": _OB_DIST, "probe": _OB_DIST,
          "aberrations": _OB_DIST,
          "frozen_phonons": _OB_SEED, "atoms_ensemble": _OB_SEED, "potential": _OB_SEED, "crystal_potential": _OB_SEED,
          "smatrix": _OB_SEED, "dummy_phonons": _OB_SEED,
          "images": _OB_ARR, "waves": _OB_ARR}


def _compositions(n):
    if n == 0:
        yield []
        return
    for first in range(1, n + 1):
        for rest in _compositions(n - first):
            yield [first] + rest


def _axis_specs(n, full=True):
    """Per-axis chunk specs (JSON): every composition, plus int and -1 forms that are not already compositions."""
    specs = [c for c in _compositions(n)] if full else [[n], [1] * n] + ([[n - 1, 1], [1, n - 1]] if n > 2 else [])
    out = []
    for s in specs:
        if s not in out:
            out.append(s)
    return out


def _chunkings(shape, full=True):
    """All tuple chunkings of `shape` + int / -1 / whole-int forms."""
    per = [_axis_specs(n, full) for n in shape]
    for combo in itertools.product(*per):
        yield [list(c) for c in combo]
    if len(shape) == 0:
        yield -1
        return
    # int / -1 forms per axis (mixed with tuples)
    for k in sorted({1, 2, max(shape), max(shape) + 1}):
        yield [k] * len(shape)
    yield [-1] * len(shape)
    if len(shape) > 1:
        yield [1] + [-1] * (len(shape) - 1)
        yield [-1] * (len(shape) - 1) + [2]
        yield [[shape[0]]] + [1] * (len(shape) - 1)
    # whole-spec shorthands: -1 and an element limit
    yield -1
    for lim in sorted({1, 2, 3, max(shape)}):
        yield lim


def cases(tier, seed):
    quick = tier == "quick"
    n1 = 5 if quick else 7
    # ---- one-axis kinds ---------------------------------------------------------------------------------------------
    one_axis = [("custom_scan", {}), ("line_scan", {"endpoint": False}), ("line_scan", {"endpoint": True}),
                ("aperture", {}), ("temporal", {}), ("beam_tilt", {}), ("ctf", {}), ("probe", {}),
                ("frozen_phonons", {"seeds": "int"}), ("frozen_phonons", {"seeds": "tuple"}),
                ("atoms_ensemble", {}), ("potential", {}), ("crystal_potential", {}), ("smatrix", {}),
                ("images", {"axes": ["linear"], "lazy_source": None}),
                ("images", {"axes": ["ordinal"], "lazy_source": [2]}),
                ("images", {"axes": ["parameter"], "lazy_source": None}),
                ("images", {"axes": ["positions"], "lazy_source": [1]}),
                ("images", {"axes": ["index"], "lazy_source": None}),
                ("waves", {"axes": ["scan"], "lazy_source": None})]
    for kind, par in one_axis:
        heavy = kind in ("potential", "crystal_potential", "smatrix", "probe")
        for n in range(1, (4 if heavy else n1) + 1):
            for ch in _chunkings([n], full=True):
                yield dict(kind=kind, shape=[n], chunks=ch, **par)
            if kind in ("images", "waves", "frozen_phonons", "atoms_ensemble", "potential", "crystal_potential"):
                yield dict(kind=kind, shape=[n], chunks="default", **par)
    # ---- two-axis kinds: every shape <= (4,3), all chunkings ------------------------------------------------------------
    two_axis = [("grid_scan", {"endpoint": [False, False]}), ("grid_scan", {"endpoint": [True, False]}),
                ("grid_scan", {"endpoint": [True, True]}),
                ("ctf", {}), ("aberrations", {}), ("probe", {}),
                ("images", {"axes": ["linear", "ordinal"], "lazy_source": None}),
                ("images", {"axes": ["parameter", "linear"], "lazy_source": [2, 1]}),
                ("images", {"axes": ["index", "positions"], "lazy_source": None}),
                ("waves", {"axes": ["scan", "scan"], "lazy_source": None}),
                ("waves", {"axes": ["parameter", "scan"], "lazy_source": [1, 2]})]
    n0max, n1max = (4, 3) if quick else (5, 4)
    for kind, par in two_axis:
        heavy = kind == "probe"
        for a in range(1, n0max + 1):
            for b in range(1, n1max + 1):
                full = not (heavy and quick and a * b > 6)
                for ch in _chunkings([a, b], full=full):
                    yield dict(kind=kind, shape=[a, b], chunks=ch, **par)
                if kind in ("images", "waves"):
                    yield dict(kind=kind, shape=[a, b], chunks="default", **par)
    # ---- three axes ---------------------------------------------------------------------------------------------------
    for kind, par in (("probe", {}), ("images", {"axes": ["ordinal", "linear", "parameter"], "lazy_source": [1, 3, 1]}),
                      ("waves", {"axes": ["parameter", "scan", "scan"], "lazy_source": None})):
        for shape in ([2, 3, 2],) if quick else ([2, 3, 2], [3, 2, 3], [1, 4, 2]):
            for ch in _chunkings(shape, full=(kind != "probe")):
                yield dict(kind=kind, shape=shape, chunks=ch, **par)
    # ---- zero axes ----------------------------------------------------------------------------------------------------
    for kind, par in (("dummy_phonons", {"num_configs": None}), ("images", {"axes": [], "lazy_source": None}),
                      ("potential", {}), ("probe", {})):
        yield dict(kind=kind, shape=[], chunks=[], **par)
        yield dict(kind=kind, shape=[], chunks=-1, **par)
    # DummyFrozenPhonons that advertises an ensemble axis (num_configs set; used by the GPAW potentials)
    for n in (1, 3):
        yield dict(kind="dummy_phonons", shape=[n], chunks=[1], num_configs=n)
        yield dict(kind="dummy_phonons", shape=[n], chunks=[[n]], num_configs=n)


# ---------------------------------------------------------------------------------------------------------------------
# building the ensembles


def _atoms():
    from vlib.hx import tiny_atoms

    return tiny_atoms("si")


def _dist(D, np, n, k):
    """k-th flavour of a 1-D distribution with n values (distinct values, non-uniform weights)."""
    if k % 3 == 0:
        vals = np.round(np.linspace(-3.0, 7.0, n) + 0.1 * np.arange(n) ** 2, 4)
        w = np.round(0.2 + 0.15 * np.arange(n)[::-1] + 0.05 * (np.arange(n) % 2), 4)
        return D.from_values(vals, weights=w, ensemble_mean=False)
    if k % 3 == 1:
        return D.gaussian(2.0, n, dimension=1, center=1.0, ensemble_mean=False, sampling_limit=2.0)
    return D.uniform(10.0, 20.0, n, endpoint=bool(n % 2))


def _axis(A, np, kind, n, j):
    if kind == "linear":
        return A.LinearAxis(label=f"l{j}", sampling=0.5, offset=1.0, units="Å")
    if kind == "scan":
        return A.ScanAxis(label="xy"[j % 2], sampling=0.25 * (j + 1), offset=2.0 - j, units="Å", endpoint=False)
    if kind == "ordinal":
        return A.OrdinalAxis(label=f"o{j}", values=tuple("abcdefgh"[:n]))
    if kind == "parameter":
        return A.ParameterAxis(label=f"p{j}", values=tuple(float(x) for x in np.round(1.5 * np.arange(n) ** 1.5 - 2, 3)),
                               units="Å")
    if kind == "positions":
        return A.PositionsAxis(values=tuple((float(i) * 0.5, float(i * i) * 0.25) for i in range(n)))
    if kind == "index":
        return A.FrozenPhononsAxis() if j % 2 == 0 else A.UnknownAxis()
    raise ValueError(kind)


def _build(case):
    import numpy as np

    import abtem
    from abtem import distributions as D
    from abtem.core import axes as A

    kind, shape = case["kind"], case["shape"]
    if kind == "custom_scan":
        r = np.random.default_rng(5)
        return abtem.CustomScan(r.uniform(0, 5, (shape[0], 2)).astype(np.float32))
    if kind == "line_scan":
        return abtem.LineScan(start=(0.3, 1.1), end=(3.7, 4.9), gpts=shape[0], endpoint=case["endpoint"])
    if kind == "grid_scan":
        return abtem.GridScan(start=(0.5, 0.25), end=(3.5, 4.75), gpts=tuple(shape), endpoint=tuple(case["endpoint"]))
    if kind == "ctf":
        kw = dict(defocus=_dist(D, np, shape[0], 0))
        if len(shape) > 1:
            kw["Cs"] = _dist(D, np, shape[1], 1)
        return abtem.CTF(energy=100e3, semiangle_cutoff=20.0, **kw)
    if kind == "aberrations":
        return abtem.transfer.Aberrations(energy=80e3, C10=_dist(D, np, shape[0], 2), C30=_dist(D, np, shape[1], 0))
    if kind == "aperture":
        return abtem.transfer.Aperture(energy=100e3, semiangle_cutoff=_dist(D, np, shape[0], 2))
    if kind == "temporal":
        return abtem.transfer.TemporalEnvelope(energy=100e3, focal_spread=_dist(D, np, shape[0], 2))
    if kind == "beam_tilt":
        from abtem.tilt import BeamTilt

        return BeamTilt(tilt=np.array([(0.5 * i, 1.0 - 0.25 * i * i) for i in range(shape[0])]))
    if kind == "probe":
        kw = {}
        if len(shape) >= 1:
            kw["defocus"] = _dist(D, np, shape[0], 0)
        if len(shape) >= 2:
            kw["Cs"] = _dist(D, np, shape[1], 1)
        sa = _dist(D, np, shape[2], 2) if len(shape) >= 3 else 20.0
        return abtem.Probe(energy=100e3, semiangle_cutoff=sa, gpts=8, extent=4.0, **kw)
    if kind == "frozen_phonons":
        n = shape[0]
        seed = 7 if case["seeds"] == "int" else tuple(100 + 13 * i * i for i in range(n))
        return abtem.FrozenPhonons(_atoms(), num_configs=n, sigmas=0.1, seed=seed)
    if kind == "atoms_ensemble":
        from abtem.inelastic.phonons import AtomsEnsemble

        traj = []
        for k in range(shape[0]):
            a = _atoms()
            a.positions += 0.01 * (k + 1) * np.arange(9).reshape(3, 3)
            traj.append(a)
        return AtomsEnsemble(traj)
    if kind == "dummy_phonons":
        from abtem.inelastic.phonons import DummyFrozenPhonons

        return DummyFrozenPhonons(_atoms(), num_configs=case["num_configs"])
    if kind in ("potential", "smatrix"):
        if len(shape):
            fp = abtem.FrozenPhonons(_atoms(), num_configs=shape[0], sigmas=0.1, seed=11)
        else:
            fp = _atoms()
        pot = abtem.Potential(fp, gpts=8, slice_thickness=2.0)
        if kind == "potential":
            return pot
        return abtem.SMatrix(potential=pot, energy=100e3, semiangle_cutoff=10.0)
    if kind == "crystal_potential":
        unit = abtem.Potential(_atoms(), gpts=8, slice_thickness=2.0)
        return abtem.CrystalPotential(unit, repetitions=(1, 1, 2), num_frozen_phonons=shape[0], seeds=21)
    if kind in ("images", "waves"):
        base = (3, 2) if kind == "images" else (4, 4)
        full = tuple(shape) + base
        arr = np.arange(int(np.prod(full)), dtype=np.float32).reshape(full) + 1.0
        if kind == "waves":
            arr = (arr * np.exp(0.1j * arr)).astype(np.complex64)
        md = [_axis(A, np, k, n, j) for j, (k, n) in enumerate(zip(case["axes"], shape))]
        if case.get("lazy_source"):
            import dask.array as da

            arr = da.from_array(arr, chunks=tuple(case["lazy_source"]) + base)
        if kind == "images":
            return abtem.Images(arr, sampling=0.1, ensemble_axes_metadata=md)
        return abtem.Waves(arr, energy=100e3, sampling=0.5, ensemble_axes_metadata=md)
    raise ValueError(kind)


# ---------------------------------------------------------------------------------------------------------------------
# member tables: name -> (array with the leading dims laid out along `axes`, axes, tolerance)


def _dist_list(obj):
    if hasattr(obj, "_distribution_properties"):
        return list(obj._distribution_properties.values())
    if hasattr(obj, "_ensembles"):
        out = []
        for e in obj._ensembles.values():
            out += _dist_list(e)
        return out
    return []


def _seeds_of(kind, obj):
    if kind == "frozen_phonons":
        return obj.seed
    if kind == "potential":
        return getattr(obj.frozen_phonons, "seed", None)
    if kind == "smatrix":
        return getattr(obj.potential.frozen_phonons, "seed", None)
    if kind == "crystal_potential":
        return obj.seeds
    return None


def _tables(np, kind, obj):
    t = {}
    if kind == "custom_scan":
        t["positions"] = (np.asarray(obj.positions), (0,), 0.0)
    elif kind == "line_scan":
        p = np.asarray(obj.get_positions(), float)
        t["positions"] = (p, (0,), 2e-6 * 5.0)
    elif kind == "grid_scan":
        p = np.asarray(obj.get_positions(), float)
        t["positions"] = (p, (0, 1), 2e-6 * 5.0)
    elif kind in ("ctf", "aberrations", "aperture", "temporal", "beam_tilt", "probe"):
        for a, d in enumerate(_dist_list(obj)):
            t[f"values[axis {a}]"] = (np.asarray(d.values), (a,), 0.0)
            t[f"weights[axis {a}]"] = (np.asarray(d.weights, float), (a,), 0.0)
    elif kind in ("frozen_phonons", "potential", "smatrix", "crystal_potential"):
        s = _seeds_of(kind, obj)
        if s is not None and len(obj.ensemble_shape):
            t["seeds"] = (np.asarray([int(x) for x in s], dtype=np.int64), (0,), 0.0)
        if kind == "frozen_phonons":
            # the atomic configuration generated for every single member (one seed each)
            conf = []
            for _, _, b in obj.generate_blocks(1):
                m = b.item()
                conf.append(m.randomize(m.atoms).positions)
            t["configurations"] = (np.asarray(conf), (0,), 0.0)
            t["atoms"] = (np.asarray(obj.atoms.positions), (), 0.0)
    elif kind == "atoms_ensemble":
        traj = obj.trajectory
        if hasattr(traj, "compute"):
            traj = traj.compute(scheduler="synchronous")
        t["trajectory"] = (np.asarray([a.positions for a in traj]), (0,), 0.0)
    elif kind == "dummy_phonons":
        t["atoms"] = (np.asarray(obj.atoms.positions), (), 0.0)
    elif kind in ("images", "waves"):
        arr = obj.array
        if hasattr(arr, "compute"):
            arr = arr.compute(scheduler="synchronous")
        t["array"] = (np.asarray(arr), tuple(range(len(obj.ensemble_shape))), 0.0)
    return t


def _axis_tables(np, kind, obj):
    """Per ensemble axis: (type, label, units), values table or linear-coordinate table."""
    out = []
    md = obj.ensemble_axes_metadata
    shape = obj.ensemble_shape
    from abtem.core import axes as A

    for a, ax in enumerate(md):
        ident = (type(ax).__name__, getattr(ax, "label", None), getattr(ax, "units", None))
        vals = lin = None
        if isinstance(ax, A.OrdinalAxis):
            v = ax.values
            arr = np.empty(len(v), dtype=object)
            for i, x in enumerate(v):
                arr[i] = tuple(float(y) for y in x) if isinstance(x, (tuple, list, np.ndarray)) else (
                    x if isinstance(x, str) else float(x))
            vals = arr
        elif isinstance(ax, A.LinearAxis) and kind != "line_scan":
            n = shape[a] if a < len(shape) else 0
            lin = np.asarray(ax.coordinates(n), float), float(ax.sampling)
        out.append((ident, vals, lin))
    return out


def _cmp(np, a, b, tol):
    a = np.asarray(a)
    b = np.asarray(b)
    if a.shape != b.shape:
        return False, f"shape {a.shape} vs {b.shape}"
    if a.dtype == object or b.dtype == object or tol == 0.0:
        ok = bool(np.array_equal(a, b)) if a.dtype != object else all(x == y for x, y in zip(a.ravel(), b.ravel()))
        return ok, f"{a.ravel()[:6]} vs {b.ravel()[:6]}"
    err = float(np.max(np.abs(a - b))) if a.size else 0.0
    return err <= tol, f"max abs diff {err:.3e} > {tol:.1e}: {a.ravel()[:6]} vs {b.ravel()[:6]}"


class _Acc:
    def __init__(self, nontrivial):
        self.n = {}
        self.fail = {}
        self.nt = nontrivial

    def add(self, ob, ok, detail=""):
        self.n[ob] = self.n.get(ob, 0) + 1
        if not ok and ob not in self.fail:
            self.fail[ob] = detail

    def results(self):
        return [Res(ob, ob not in self.fail, self.fail.get(ob, f"{n} evaluations"), self.nt) for ob, n in self.n.items()]


def _check_block(np, acc, kind, tag, how, block, slices, ref_tables, ref_axes, group_ob):
    """members + axes clauses for one block against the tables of the unpartitioned ensemble."""
    want_shape = tuple(s.stop - s.start for s in slices)
    acc.add(_OB_IDX, tuple(block.ensemble_shape) == want_shape,
            f"{tag} [{how}] block at {slices}: ensemble_shape {block.ensemble_shape} but slice extent {want_shape}")
    bt = _tables(np, kind, block)
    for name, (ref, axes, tol) in ref_tables.items():
        if name not in bt:
            acc.add(group_ob, False, f"{tag} [{how}] block at {slices}: no table {name}")
            continue
        want = ref[tuple(slices[a] for a in axes)] if axes else ref
        ok, msg = _cmp(np, bt[name][0], want, tol)
        acc.add(group_ob, ok, f"{tag} [{how}] block at {[(s.start, s.stop) for s in slices]}: {name} of the block != "
                              f"{name} of the original at those indices: {msg}")
    ba = _axis_tables(np, kind, block)
    if len(ba) != len(ref_axes):
        acc.add(_OB_AXT, False, f"{tag} [{how}] block has {len(ba)} ensemble axes, original {len(ref_axes)}")
        return
    for a, ((ident, vals, lin), (rident, rvals, rlin)) in enumerate(zip(ba, ref_axes)):
        acc.add(_OB_AXT, ident == rident, f"{tag} [{how}] axis {a}: {ident} vs original {rident}")
        if rvals is not None:
            ok = vals is not None and len(vals) == len(rvals[slices[a]]) and all(
                x == y for x, y in zip(vals, rvals[slices[a]]))
            acc.add(_OB_AXV, ok, f"{tag} [{how}] axis {a} ({rident[0]} {rident[1]}) block at "
                                 f"{(slices[a].start, slices[a].stop)}: values {None if vals is None else list(vals)[:5]} "
                                 f"but original slice {list(rvals[slices[a]])[:5]}")
        if rlin is not None:
            want = rlin[0][slices[a]]
            got = None if lin is None else lin[0]
            ok = got is not None and got.shape == want.shape and bool(np.all(np.abs(got - want) <= 1e-9 + 2e-7 * np.abs(want))) \
                and abs(lin[1] - rlin[1]) <= 1e-9 + 2e-7 * abs(rlin[1])
            acc.add(_OB_AXL, ok, f"{tag} [{how}] axis {a} ({rident[0]} {rident[1]}) block at "
                                 f"{(slices[a].start, slices[a].stop)}: block coordinates "
                                 f"{None if got is None else got[:4].tolist()} but the original members there have "
                                 f"{want[:4].tolist()}")


def run_case(case):
    import warnings

    import numpy as np

    warnings.filterwarnings("ignore")
    kind = case["kind"]
    ens = _build(case)
    shape = tuple(case["shape"])
    if tuple(ens.ensemble_shape) != shape:
        raise AssertionError(f"harness: built {kind} with ensemble_shape {ens.ensemble_shape}, wanted {shape}")
    spec = case["chunks"]

    def py(s):
        return tuple(py(x) for x in s) if isinstance(s, list) else s

    chunks = None if spec == "default" else py(spec)
    tag = f"{kind}{ {k: v for k, v in case.items() if k not in ('kind', 'chunks')} } chunks={chunks!r}"
    group_ob = _GROUP[kind]
    ref_tables = _tables(np, kind, ens)
    ref_axes = _axis_tables(np, kind, ens)

    # ---- eager ---------------------------------------------------------------------------------------------------------
    eager = list(ens.generate_blocks(chunks))
    nblocks_axis = None
    acc = _Acc(len(eager) > 1)
    count = np.zeros(shape, dtype=int)
    idx_list = []
    ok_slices = True
    for idx, slices, block in eager:
        idx_list.append(tuple(int(i) for i in idx))
        count[tuple(slices)] += 1
        ok_slices = ok_slices and all(isinstance(s, slice) and s.step in (None, 1) and s.stop > s.start for s in slices)
    # per-axis extents, recomputed from the slices of the blocks with all other indices 0
    ext = []
    for a in range(len(shape)):
        along = [(i, s) for i, s, _ in eager if all(i[b] == 0 for b in range(len(shape)) if b != a)]
        along.sort(key=lambda t: t[0][a])
        pos, good, sizes = 0, True, []
        for i, s in along:
            good = good and s[a].start == pos
            pos = s[a].stop
            sizes.append(s[a].stop - s[a].start)
        ext.append(sizes)
        ok_slices = ok_slices and good and pos == shape[a]
    nblocks_axis = tuple(len(e) for e in ext)
    want_idx = list(itertools.product(*[range(n) for n in nblocks_axis]))
    explicit_ok = True
    if isinstance(spec, list):
        for a, s in enumerate(spec):
            if isinstance(s, list):
                explicit_ok = explicit_ok and ext[a] == s
            elif s == -1:
                explicit_ok = explicit_ok and ext[a] == [shape[a]]
            elif isinstance(s, int):
                explicit_ok = explicit_ok and max(ext[a]) <= s and all(x == min(s, shape[a]) for x in ext[a][:-1])
    elif isinstance(spec, int) and spec > 0 and len(shape):
        explicit_ok = all(int(np.prod([sl.stop - sl.start for sl in s])) <= spec for _, s, _ in eager)
    acc.add(_OB_IDX, ok_slices and idx_list == want_idx and bool(np.all(count == 1)) and explicit_ok,
            f"{tag} [eager]: block indices {idx_list[:8]} (expected C order {want_idx[:8]}), slices "
            f"{[[(x.start, x.stop) for x in s] for _, s, _ in eager][:8]}, coverage counts min "
            f"{int(count.min()) if count.size else 1} max {int(count.max()) if count.size else 1}, per-axis block sizes {ext} "
            f"for spec {spec!r}")
    slices_of = {}
    for idx, slices, block in eager:
        b = block.item() if hasattr(block, "item") else block
        slices_of[tuple(int(i) for i in idx)] = tuple(slices)
        _check_block(np, acc, kind, tag, "eager", b, tuple(slices), ref_tables, ref_axes, group_ob)

    # ---- lazy ----------------------------------------------------------------------------------------------------------
    # a fresh instance: generate_blocks on a dask-backed array object computes it in place (ArrayObject.compute mutates
    # the receiver), which would change what chunks=None means for the lazy pass
    ens_lazy = _build(case)
    lazy = ens_lazy.ensemble_blocks(chunks)
    lz = lazy.compute(scheduler="synchronous") if hasattr(lazy, "compute") else lazy
    lz = np.asarray(lz, dtype=object) if not isinstance(lz, np.ndarray) else lz
    if len(shape) == 0 and lz.size == 1:
        lz = lz.reshape(())          # Potential wraps the single block of a 0-d ensemble in a length-1 array
    acc.add(_OB_LAZY, tuple(lz.shape) == nblocks_axis,
            f"{tag}: lazy block array has shape {lz.shape}, eager partition has {nblocks_axis} blocks per axis")
    if tuple(lz.shape) == nblocks_axis:
        for idx in want_idx:
            b = lz[idx] if len(idx) else lz.item()
            if isinstance(b, np.ndarray):
                b = b.item()
            # lazy block == original slice (members, axes) ...
            sub = _Acc(acc.nt)
            _check_block(np, sub, kind, tag, "lazy", b, slices_of[idx], ref_tables, ref_axes, group_ob)
            for ob, n in sub.n.items():
                acc.n[ob] = acc.n.get(ob, 0) + n
            for ob, d in sub.fail.items():
                acc.fail.setdefault(ob, d)
            # ... and == the eager block (relational clause), on the member tables
            eb = [blk for i, _, blk in eager if tuple(int(x) for x in i) == idx][0]
            eb = eb.item() if hasattr(eb, "item") else eb
            te, tl = _tables(np, kind, eb), _tables(np, kind, b)
            same = set(te) == set(tl)
            msg = f"tables {sorted(te)} vs {sorted(tl)}"
            if same:
                for name in te:
                    ok, m = _cmp(np, tl[name][0], te[name][0], te[name][2])
                    if not ok:
                        same, msg = False, f"{name}: {m}"
                        break
            ae, al = _axis_tables(np, kind, eb), _axis_tables(np, kind, b)
            same_ax = len(ae) == len(al) and all(
                x[0] == y[0] and ((x[1] is None) == (y[1] is None)) and (x[1] is None or list(x[1]) == list(y[1]))
                and ((x[2] is None) == (y[2] is None)) and (x[2] is None or (np.array_equal(x[2][0], y[2][0])))
                for x, y in zip(ae, al))
            acc.add(_OB_LAZY, same and same_ax and tuple(b.ensemble_shape) == tuple(eb.ensemble_shape),
                    f"{tag} block {idx}: lazy block differs from eager block ({msg}; axes equal: {same_ax})")
    return acc.results()
