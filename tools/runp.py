import sys, importlib, time, json
import os; sys.path.insert(0, os.path.dirname(os.path.dirname(os.path.abspath(__file__))))
prop=sys.argv[1]
only=sys.argv[2:] 
m=importlib.import_module('proofs.'+prop.lower())
if only:
    m.ALL=dict(m.SPECS); [m.SPECS.pop(k) for k in list(m.SPECS) if not any(o in k for o in only)]
t=time.time()
r=m.run()
from collections import Counter
c=Counter(o['status'] for o in r['obligations'])
for o in r['obligations']:
    if o['status']!='discharged':
        print(o['status'], o['name'], o.get('backend'), round(o.get('time_s',0),2), (o.get('reason') or '')[:300], (o.get('witness_case') or {}).get('args',''))
print(dict(c), 'errors:', r['errors'], round(time.time()-t,1),'s')
print('crosscheck', r['selfcheck'].get('cross_check'))
print('slow:', sorted([(round(o['time_s'],1),o['name']) for o in r['obligations'] if o.get('time_s',0)>2], reverse=True)[:8])
