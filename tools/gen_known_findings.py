#!/usr/bin/env python3
"""Writes /verif/known_findings.json from the tables below (run by hand, the result is committed; checks never write it).

`finding` entries suppress exactly the violations whose obligation matches and whose `where` expression (over the
`case` dict of the bounded harness / the witness of a proof obligation) is true; anything else of the same property is
still reported. `fixed` entries suppress nothing: they document `fix:` commits in /repo (hash looked up by subject)."""
import json
import os
import subprocess
import sys

sys.path.insert(0, os.path.dirname(os.path.abspath(__file__)))
from fixed_entries import FIXED  # noqa: E402

ROOT = os.path.dirname(os.path.dirname(os.path.abspath(__file__)))

FINDINGS = [
    # C03 -------------------------------------------------------------------------------------------------
    ("C03", "C03/ensemble_mean/weighted-mean",
     "'weighted' in case.get('features', []) and (case.get('family') == 'mean-probe' or case.get('path') in ('ctf-spread', 'ctf-cutoff'))",
     "non-uniform distribution weights are ignored in ensemble means except for aberration coefficients on the apply_ctf path "
     "(Probe normalises every member after the weights were multiplied in; BeamTilt/Aperture/envelopes discard the weights) — design-level, not a small repair"),
    # C04 -------------------------------------------------------------------------------------------------
    ("C04", "C04/step/nonincrease-potential", "case.get('slice_type') == 'potential' and 'largest I_after/I_before over' in detail and "
     "float(detail.split(' = ')[1].split(' ')[0]) <= 1.5",
     "conventional_multislice_step band-limits exp(i sigma V) after exponentiation, so |T'| > 1 locally and the total intensity can grow "
     "(measured +4e-5 .. +29% per step); the un-band-limited transmission path never increases intensity"),
    ("C04", "C04/pipeline/nonincrease", "case.get('mode') == 'pipeline' and 'largest I(k+1)/I(k) = ' in detail and "
     "float(detail.split('largest I(k+1)/I(k) = ')[1].split(' ')[0]) <= 1.5",
     "same cause as C04/step/nonincrease-potential observed through Probe/Waves.multislice thickness series (+5e-5 .. 3e-4 per slice)"),
    # C06 -------------------------------------------------------------------------------------------------
    ("C06", "C06/reduce/exit-waves-equal-probe-multislice", "case.get('potential') in ('fp_mean', 'ensemble_mean') and 'shape' in detail and 'rel err' not in detail",
     "eager SMatrix.reduce/scan with an ensemble_mean potential averages exit waves coherently and drops the phonon axis (_eager_build_s_matrix_detect)"),
    ("C06", "C06/reduce/measurements-equal-probe-multislice", "case.get('potential') in ('fp_mean', 'ensemble_mean') and 'shape' in detail and 'rel err' not in detail",
     "eager SMatrixArray.reduce never averages over ensemble_mean axes / leaves singleton axes (shape mismatch with lazy and with Probe)"),
    ("C06", "C06/reduce/lazy-equals-eager", "case.get('potential') in ('fp_mean', 'ensemble_mean') and 'shape' in detail and 'rel err' not in detail",
     "eager and lazy PRISM reduction disagree in shape for ensemble_mean potentials (see the two entries above)"),
    ("C06", "C06/no-exception", "case.get('kind') == 'interp' and 'IndexError' in detail and 'out of bounds' in detail and 'abtem/prism/s_matrix.py' in detail",
     "interpolated S-matrix reduction raises IndexError in batch_crop_2d for probe positions whose crop window wraps around the array edge"),
    # C08 -------------------------------------------------------------------------------------------------
    ("C08", "C08/translate-pixels/infinite-roll/pbc-false", "case.get('atoms', {}).get('pbc') is False",
     "structures with pbc=False: Atoms.wrap honours the pbc flags, so atoms translated out of the cell are cropped instead of wrapped (potential is not periodic-covariant)"),
    ("C08", "C08/translate-pixels/finite-roll/pbc-false", "case.get('atoms', {}).get('pbc') is False",
     "same as above for the finite projection (periodic images beyond the cutoff margin are lost)"),
    # C12 -------------------------------------------------------------------------------------------------
    ("C12", "C12/FlexibleAnnularDetector/bin-content-matches-stated-edges", "case.get('default_outer') is True",
     "FlexibleAnnularDetector with the default outer=None: _match_waves stores the unrounded cutoff angle as outer and polar_binning spreads the bins over [inner, outer), "
     "so the real bin width differs from the stated step (and the detector keeps the stale outer)"),
    ("C12", "C12/FlexibleAnnularDetector/integrate_radial-equals-annular", "case.get('default_outer') is True",
     "consequence of the entry above: integrate_radial over stated bin edges differs from AnnularDetector"),
    # C14 / C40: unshifted patterns ---------------------------------------------------------------------------
    ("C14", "C14/DiffractionPatterns.crop/unshifted-equals-centered-crop", "True",
     "DiffractionPatterns.crop assumes fftshift=True input: cropping an fftshift=False pattern loses the direct beam while the flag stays False"),
    ("C40", "C40/center_of_mass/unshifted-equals-weighted-mean", "True",
     "DiffractionPatterns.coordinates ignores fftshift: the centre of mass of fftshift=False patterns is computed with shifted coordinates"),
    # C15 -------------------------------------------------------------------------------------------------
    ("C15", "C15/fft_interpolate/updown-identity", "str(case.get('dtype', '')).startswith('float')",
     "real-valued arrays with an even size: upsampling stores the Nyquist component on one side only and .real halves it, so up -> down does not restore the input (complex arrays are exact)"),
    # C16 -------------------------------------------------------------------------------------------------
    ("C16", "C16/Images.interpolate/fft-same-grid-identity", "case.get('target') == 'same_sampling'",
     "Images.interpolate(sampling=image.sampling) changes the grid when extent/sampling is 6.000000000000001 (ceil); the repair conflicts with an existing test that encodes ceil(l/d), so it is recorded, not fixed"),
    # C18 -------------------------------------------------------------------------------------------------
    ("C18", "C18/no-exception", "case.get('kind') in ('validate', 'shape') and 'Object cannot be automatically chunked' in detail and 'although a valid chunking exists' in detail",
     "_auto_chunks raises 'Object cannot be automatically chunked' although a valid chunking exists when an explicit int chunk exceeds its dimension next to a size-1 'auto' dimension (current_chunks not clamped)"),
    # C19 -------------------------------------------------------------------------------------------------
    ("C19", "C19/axes/linear-coordinates-reassemble", "case.get('kind') in ('images', 'waves')",
     "blocks of an array object keep the parent's LinearAxis/ScanAxis offset (LinearAxis has no __getitem__), so block coordinates do not reassemble to the original ones"),
    ("C19", "C19/axes/type-label-units-kept", "case.get('kind') == 'atoms_ensemble'",
     "AtomsEnsemble blocks carry UnknownAxis instead of FrozenPhononsAxis (deliberate in _from_partitioned_args)"),
    ("C19", "C19/no-exception", "case.get('kind') == 'dummy_phonons' and 'AssertionError' in detail and 'generate_blocks' in detail",
     "DummyFrozenPhonons.generate_blocks raises AssertionError (0-d partition args for a 1-d ensemble shape)"),
    ("C19", "C19/no-exception", "case.get('kind') == 'grid_scan' and list(case.get('shape', [])) == [1, 1] and 'scan extent must be positive' in detail",
     "GridScan with gpts=(1,1) and endpoint=True has zero sampling; partitioning raises 'scan extent must be positive'"),
    # C27 -------------------------------------------------------------------------------------------------
    ("C27", "C27/structure-factor/forbidden-reflections-are-zero", "case.get('centring') in ('half_x', 'half_y', 'half_z') and case.get('centering_arg') == 'auto'",
     "relative_positions_for_centering uses half-cell shifts along one axis for A/B/C; crystals with such a translation are auto-detected as A/B/C and non-zero reflections are dropped "
     "(correcting the table makes F lattices ambiguous in auto_detect_centering and breaks an existing test, so it is recorded)"),
    # C28 -------------------------------------------------------------------------------------------------
    ("C28", "C28/no-exception", "str(case.get('family', '')).startswith('multislice') and '_evaluate_propagator_array' in detail",
     "MultislicePtychographicOperator with >= 2 slices calls FresnelPropagator._evaluate_propagator_array, which does not exist"),
    ("C28", "C28/fourier_projection/amplitude-equals-measured", "str(case.get('family', '')).startswith('mixed')",
     "MixedStatePtychographicOperator._fourier_projection divides by the summed intensity: NaN wherever it is exactly zero (constant / band-limited exit waves, second application)"),
    ("C28", "C28/fourier_projection/phase-kept", "str(case.get('family', '')).startswith('mixed')", "same as above"),
    ("C28", "C28/fourier_projection/idempotent", "str(case.get('family', '')).startswith('mixed')", "same as above"),
    # C29 -------------------------------------------------------------------------------------------------
    ("C29", "C29/getitem/selected-metadata-linear", "case.get('slices_linear_axis') is True",
     "slicing a linear (scan) ensemble axis keeps the old offset and sampling (LinearAxis has no __getitem__; same root as C19)"),
    ("C29", "C29/PotentialArray.getitem/exit-planes-aligned", "case.get('op') == 'potential_getitem'",
     "PotentialArray[...] along z copies the parent's exit_planes, which then index slices that no longer exist"),
    ("C29", "C29/getitem/values", "case.get('type') in ('PotentialArray', 'IndexedDiffractionPatterns') and (case.get('has_none') or case.get('has_adv'))",
     "FieldArray.__getitem__ splits items positionally and mishandles None / list items"),
    ("C29", "C29/getitem/selected-metadata-ordinal", "case.get('type') in ('PotentialArray', 'IndexedDiffractionPatterns') and (case.get('has_none') or case.get('has_adv'))",
     "same as above"),
    ("C29", "C29/getitem/values", "case.get('style') == 'adv_mixed'",
     "int and list indices separated by a slice: NumPy moves the list dimension to the front, the axes metadata keeps positional order"),
    ("C29", "C29/getitem/selected-metadata-ordinal", "case.get('style') == 'adv_mixed'", "same as above"),
    ("C29", "C29/no-exception", "case.get('op') == 'reduce' and case.get('keepdims') and 'number of values for ordinal axis' in detail",
     "reductions with keepdims=True over an ordinal axis raise (n-valued axis entry kept for a length-1 dimension)"),
    ("C29", "C29/no-exception", "case.get('op') == 'getitem' and (case.get('has_none') or case.get('has_adv')) and any(m in detail for m in "
     "('only 0-dimensional arrays can be converted', 'Too many indices for potential array', 'number of values for ordinal axis', "
     "'boolean index did not match', 'Boolean array with size', 'is out of bounds for axis', 'can only concatenate tuple', "
     "\"unsupported operand type(s) for +: 'slice' and 'int'\"))",
     "indexing PotentialArray / IndexedDiffractionPatterns / eager adv_mixed with None or lists raises"),
    # C31 -------------------------------------------------------------------------------------------------
    ("C31", "C31/poisson_noise/lazy-equals-eager-any-chunking", "True",
     "NoiseTransform derives the per-block RNG seed from the user seed only, so every chunk draws the same noise and lazy != eager when the ensemble is chunked"),
    ("C31", "C31/poisson_noise/distinct-members-distinct-noise", "True",
     "same cause: ensemble members in different chunks receive identical noise"),
    # C35 -------------------------------------------------------------------------------------------------
    ("C35", "C35/axis_to_dict/roundtrip-eq", "case.get('values_kind') == 'ndarray2d'",
     "axes whose values are a tuple of arrays: == raises ValueError inside safe_equality and is reported as False, so dict round trips are not equal"),
    ("C35", "C35/AxisMetadata.to_dict/roundtrip-eq", "case.get('values_kind') == 'ndarray2d'", "same as above"),
    # C37 -------------------------------------------------------------------------------------------------
    ("C37", "C37/laplace/eigenvalue", "case.get('isotropic') is False",
     "finite-difference Laplacian uses prefactor 1/prod(sampling) and the same coefficients along x and y: wrong operator for anisotropic sampling"),
    # C38 -------------------------------------------------------------------------------------------------
    ("C38", "C38/no-exception", "(case.get('fft', 'fftw') == 'fftw' or case.get('history') == 'other_backend') and (case.get('input') in ('view', 'dask') or case.get('transform') == 'member_in_place') and 'Invalid input alignment' in detail",
     "FFTW objects are planned on an aligned dummy and updated with the caller's array: 'Invalid input alignment' for 8-byte-aligned views (numpy backend fine)"),
    ("C38", "C38/simulation/backend-independent", "case.get('pipeline') == 'prism' and case.get('precision') == 'float64'",
     "PRISM ignores the precision setting (S-matrix hard-coded complex64), so float64 runs are only single-accurate and backends differ by 1e-7"),
]


def main():
    log = subprocess.run(["git", "-C", "/repo", "log", "--format=%h\t%s"], capture_output=True, text=True).stdout.splitlines()
    by_subject = {l.split("\t", 1)[1]: l.split("\t", 1)[0] for l in log if "\t" in l}
    out = []
    missing = []
    for key, prop, obligation, what in FIXED:
        # key: commit subject (or a prefix of it)
        hit = [h for s, h in by_subject.items() if s.startswith(key)]
        if not hit:
            missing.append(key)
            continue
        out.append(dict(status="fixed", property=prop, commit=hit[0], obligation=obligation,
                        what=f"fixed: property={prop} {hit[0]} {what}"))
    for prop, obligation, where, what in FINDINGS:
        out.append(dict(status="finding", property=prop, obligation=obligation, where=where, what=what))
    json.dump(out, open(os.path.join(ROOT, "known_findings.json"), "w"), indent=1, ensure_ascii=False)
    print(f"{sum(1 for o in out if o['status'] == 'fixed')} fixed, {sum(1 for o in out if o['status'] == 'finding')} findings; "
          f"unmatched fixed keys: {missing}")


if __name__ == "__main__":
    main()
