#!/usr/bin/env python3
"""Runs the pinned baseline test command in /repo (guard off) and compares with BASELINE.json stable_pass."""
import json, subprocess, sys, tempfile, os, xml.etree.ElementTree as ET
b = json.load(open("/root/.vp/BASELINE.json"))
out = tempfile.mktemp(suffix=".xml", dir="/tmp")
cmd = b["cmd"].replace("<file>", out)
env = dict(os.environ); env.pop("ABTEM_ABTEM_VERIF", None)
subprocess.run(cmd, shell=True, env=env, stdout=subprocess.DEVNULL, stderr=subprocess.DEVNULL)
passed = set()
for tc in ET.parse(out).getroot().iter("testcase"):
    if not any(ch.tag in ("failure", "error", "skipped") for ch in tc):
        passed.add(f"{tc.get('classname')}::{tc.get('name')}")
os.remove(out)
missing = sorted(set(b["stable_pass"]) - passed)
print(f"passed {len(passed)}; stable_pass {len(b['stable_pass'])}; missing {len(missing)}")
for m in missing[:20]: print("  MISSING", m)
sys.exit(1 if missing else 0)
