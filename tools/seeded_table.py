#!/usr/bin/env python3
"""Prints (markdown) which check caught which confirmed seeded change, from seeded/*/meta.json."""
import glob, json, os, re
ROOT = os.path.dirname(os.path.dirname(os.path.abspath(__file__)))
rows = []
for f in sorted(glob.glob(os.path.join(ROOT, "seeded", "*", "meta.json"))):
    m = json.load(open(f))
    out = m.get("check_output", [])
    obl = sorted({l.split("failed obligation: ")[1].split(":")[0] for l in out if "failed obligation: " in l})
    ded = sorted({o.split("@")[0] for o in obl if "@cfg" in o or "@cpython" in o or "assigns-nothing" in o})
    dj = os.path.join(os.path.dirname(f), "deductive.json")
    if os.path.exists(dj):  # written by tools/deductive_on_mutants.py: the proof module of the property run on the changed tree
        dd = json.load(open(dj))
        ded = sorted(set(dd.get("refuted", []))) if dd.get("proof_module") else []
    bnd = sorted({o for o in obl if "@" not in o and "assigns-nothing" not in o})
    notes = open(os.path.join(os.path.dirname(f), "notes.md")).read() if os.path.exists(os.path.join(os.path.dirname(f), "notes.md")) else ""
    mm = re.search(r"`(abtem/[^`]+)`[^`]*`([A-Za-z_.]+)`", notes) or re.search(r"(abtem/[\w/]+\.py)[^\w]+`?([A-Za-z_.]+)", notes)
    site = f"{mm.group(1)}: {mm.group(2)}" if mm else ""
    rows.append((m["name"], site[:70], "yes" if m.get("detected_by_quick_check") else "NO",
                 ", ".join(o.split("/", 1)[1] for o in ded)[:110] or "—", ", ".join(o.split("/", 1)[1] for o in bnd)[:150] or "—"))
print("| change (property) | site of the change | caught by the quick check | refuted contract obligations (deductive tier) | failing run-time contracts (bounded tier) |")
print("|---|---|---|---|---|")
for r in rows:
    print("| " + " | ".join(r) + " |")
