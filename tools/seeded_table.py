#!/usr/bin/env python3
"""Prints (markdown) which check caught which confirmed seeded change, from seeded/*/meta.json."""
import glob, json, os
ROOT = os.path.dirname(os.path.dirname(os.path.abspath(__file__)))
rows = []
for f in sorted(glob.glob(os.path.join(ROOT, "seeded", "*", "meta.json"))):
    m = json.load(open(f))
    obl = sorted({l.split("failed obligation: ")[1].split(":")[0] for l in m.get("check_output", []) if "failed obligation: " in l})
    tiers = []
    for l in m.get("check_output", []):
        if l.startswith("["):
            summary = l
            break
    else:
        summary = ""
    first = (m.get("needs_to_manifest") or "").strip().splitlines()
    desc = " ".join(first[:3])[:220]
    rows.append((m["name"], m["property"], "yes" if m.get("detected_by_quick_check") else "NO", ", ".join(obl)[:160], desc))
print("| seeded change | property | caught by quick check | failing obligation(s) | what it is |")
print("|---|---|---|---|---|")
for r in rows:
    print("| " + " | ".join(r) + " |")
