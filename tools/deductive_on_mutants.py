#!/usr/bin/env python3
"""For every stored seeded change: apply it to a scratch worktree (never /repo), run the *deductive* tier of the property's
proof module on that tree and record which contract obligations are refuted / undecided -> seeded/<id>/deductive.json."""
import glob, json, os, subprocess, sys
ROOT = os.path.dirname(os.path.dirname(os.path.abspath(__file__)))
WT = "/tmp/dm-worktree"
subprocess.run(["git", "-C", "/repo", "worktree", "remove", "--force", WT], capture_output=True)
subprocess.run(["git", "-C", "/repo", "worktree", "add", "--detach", WT], check=True, capture_output=True)
CODE = r'''
import sys, json, importlib
sys.path.insert(0, %r)
m = importlib.import_module("proofs." + sys.argv[1].lower())
r = m.run()
out = dict(refuted=sorted({o["name"].split("@")[0] for o in r["obligations"] if o["status"] == "refuted"}),
           undecided=sorted({o["name"].split("@")[0] for o in r["obligations"] if o["status"] == "undecided"}),
           discharged=sum(o["status"] == "discharged" for o in r["obligations"]), total=len(r["obligations"]), errors=r.get("errors", [])[:2])
print("RESULT " + json.dumps(out))
''' % ROOT
only = sys.argv[1:]
try:
    for d in sorted(glob.glob(os.path.join(ROOT, "seeded", "*"))):
        name = os.path.basename(d)
        if only and name not in only:
            continue
        meta = json.load(open(os.path.join(d, "meta.json")))
        prop = meta["property"]
        res = dict(property=prop, proof_module=os.path.exists(os.path.join(ROOT, "proofs", prop.lower() + ".py")))
        if res["proof_module"]:
            subprocess.run(["git", "-C", WT, "checkout", "--", "."], check=True)
            subprocess.run(["git", "-C", WT, "apply", os.path.join(d, "patch.diff")], check=True)
            env = dict(os.environ, VERIF_REPO=WT, PYTHONPATH=f"{WT}:{ROOT}", OMP_NUM_THREADS="1")
            try:
                p = subprocess.run([os.path.join(ROOT, ".ovenv/bin/python"), "-c", CODE, prop], capture_output=True, text=True, env=env,
                                   timeout=1500, cwd=ROOT)
                line = [l for l in p.stdout.splitlines() if l.startswith("RESULT ")]
                res.update(json.loads(line[-1][7:]) if line else dict(error=(p.stderr or p.stdout)[-800:]))
            except subprocess.TimeoutExpired:
                res["error"] = "timeout"
        json.dump(res, open(os.path.join(d, "deductive.json"), "w"), indent=1)
        print(name, {k: v for k, v in res.items() if k in ("refuted", "undecided", "discharged", "total", "error")}, flush=True)
finally:
    subprocess.run(["git", "-C", "/repo", "worktree", "remove", "--force", WT], capture_output=True)
