#!/bin/bash
# usage: run_on_mutant.sh <mutant-name> <check-id> [more check ids...]   (patch from /tmp/mut/<name>/patch.diff or /verif/seeded/<name>/patch.diff)
name=$1; shift
src=/tmp/mut/$name/patch.diff; [ -f "$src" ] || src=/verif/seeded/$name/patch.diff
wt=/tmp/rm-$name
git -C /repo worktree remove --force $wt >/dev/null 2>&1; rm -rf $wt
git -C /repo worktree add -q --detach $wt HEAD || exit 3
git -C $wt apply $src || git -C $wt apply --3way $src || { echo "patch does not apply"; exit 3; }
for c in "$@"; do
  (cd /verif && PYTHONPATH=$wt VERIF_REPO=$wt VERIF_OUT=/tmp/rm-$name-out VERIF_JOBS=${VERIF_JOBS:-8} ./check $c --tier ${TIER:-quick} 2>&1 | grep "failed obligation\|VIOLATION\|^\[C" | cut -c1-260)
done
git -C /repo worktree remove --force $wt >/dev/null 2>&1; rm -rf /tmp/rm-$name-out
