#!/usr/bin/env python3
"""Confirm a seeded change delivered under /tmp/mut/<id>/ in a fresh scratch worktree of /repo and run the check on it.

Usage: confirm_mutant.py <id> [--name <seed-name>] [--no-baseline]
Steps: fresh worktree at /repo HEAD -> demo passes -> apply patch -> demo fails -> 509 baseline tests still pass ->
run ./check <id> (quick) against the patched worktree (imports + extraction from the worktree, outputs to a scratch dir)
-> copy patch/demo/meta into /verif/seeded/<name>/ -> remove the worktree."""
import json, os, shutil, subprocess, sys, time

pid = sys.argv[1]
name = pid
if "--name" in sys.argv:
    name = sys.argv[sys.argv.index("--name") + 1]
src = f"/tmp/mut/{name}" if os.path.isdir(f"/tmp/mut/{name}") else f"/tmp/mut/{pid}"
if "--src" in sys.argv:  # e.g. second-round changes delivered under /tmp/mut2/<id>
    src = sys.argv[sys.argv.index("--src") + 1]
wt = f"/tmp/cw-{name}"
out = f"/tmp/cw-{name}-out"
VER = os.path.dirname(os.path.dirname(os.path.abspath(__file__)))
meta = dict(property=pid, name=name, source=src, ran=[])

def run(cmd, **kw):
    t0 = time.time()
    p = subprocess.run(cmd, shell=True, capture_output=True, text=True, **kw)
    meta["ran"].append(dict(cmd=cmd, rc=p.returncode, wall_s=round(time.time() - t0, 1), tail=(p.stdout + p.stderr)[-600:]))
    return p

subprocess.run(f"git -C /repo worktree remove --force {wt}", shell=True, capture_output=True)
shutil.rmtree(wt, ignore_errors=True); shutil.rmtree(out, ignore_errors=True)
run(f"git -C /repo worktree add -q --detach {wt} HEAD")
meta["repo_head"] = subprocess.run("git -C /repo rev-parse --short HEAD", shell=True, capture_output=True, text=True).stdout.strip()
env = f"cd {wt} && PYTHONPATH={wt} timeout 600 /venv/bin/python {src}/demo.py"
p0 = run(env)
meta["demo_without_change_rc"] = p0.returncode
pa = run(f"git -C {wt} apply {src}/patch.diff")
if pa.returncode != 0:
    pa = run(f"git -C {wt} apply --3way {src}/patch.diff")
meta["patch_applies"] = pa.returncode == 0
p1 = run(env)
meta["demo_with_change_rc"] = p1.returncode
if "--no-baseline" not in sys.argv:
    pb = run(f"python3 /tmp/mut_tools/baseline_check.py {wt}")
    meta["baseline"] = pb.stdout.strip().splitlines()[:6]
    meta["baseline_ok"] = pb.returncode == 0
pc = run(f"cd {VER} && PYTHONPATH={wt} VERIF_REPO={wt} VERIF_OUT={out} VERIF_JOBS=8 ./check {pid} --tier quick")
lines = [l for l in pc.stdout.splitlines() if l.startswith("VIOLATION") or l.startswith("  failed obligation") or l.startswith("[")]
meta["check_rc"] = pc.returncode
meta["check_lines"] = [l[:300] for l in lines[:12]]
meta["detected"] = pc.returncode == 1
meta["confirmed"] = bool(meta["patch_applies"] and p0.returncode == 0 and p1.returncode != 0 and meta.get("baseline_ok", True))
dst = f"{VER}/seeded/{name}"
if meta["confirmed"]:
    os.makedirs(dst, exist_ok=True)
    shutil.copy(f"{src}/patch.diff", dst); shutil.copy(f"{src}/demo.py", dst)
    if os.path.exists(f"{src}/notes.md"):
        shutil.copy(f"{src}/notes.md", dst)
    notes = open(f"{src}/notes.md").read() if os.path.exists(f"{src}/notes.md") else ""
    json.dump(dict(property=pid, name=name, breaks=pid, needs_to_manifest=notes[:1500],
                   confirmed_on_repo_head=meta["repo_head"], demo_without_change_rc=p0.returncode, demo_with_change_rc=p1.returncode,
                   baseline_509_still_pass=meta.get("baseline_ok"), check_quick_rc=pc.returncode, detected_by_quick_check=meta["detected"],
                   check_output=meta["check_lines"], what_i_ran=[r["cmd"] for r in meta["ran"]]),
              open(f"{dst}/meta.json", "w"), indent=1)
subprocess.run(f"git -C /repo worktree remove --force {wt}", shell=True, capture_output=True)
shutil.rmtree(out, ignore_errors=True)
print(json.dumps({k: meta[k] for k in ("property", "name", "patch_applies", "demo_without_change_rc", "demo_with_change_rc", "baseline_ok", "check_rc", "detected", "confirmed") if k in meta}))
for l in meta["check_lines"][:6]:
    print("   ", l)
if not meta["confirmed"]:
    for r in meta["ran"]:
        print("  RAN", r["cmd"][:100], "rc", r["rc"], r["tail"][-200:].replace("\n", " | "))
