#!/usr/bin/env python3
"""Regenerates MANIFEST.json from tools/levels.json (per-property claim texts) and the modules present."""
import json
import os

ROOT = os.path.dirname(os.path.dirname(os.path.abspath(__file__)))
props = [json.loads(l) for l in open(os.path.join(ROOT, "properties.jsonl"))]
levels = json.load(open(os.path.join(ROOT, "tools", "levels.json")))

checks, na = [], []
for p in props:
    pid = p["id"]
    has_b = os.path.exists(os.path.join(ROOT, "bounded", pid.lower() + ".py"))
    has_p = os.path.exists(os.path.join(ROOT, "proofs", pid.lower() + ".py"))
    lv = levels.get(pid, {})
    if lv.get("not_applicable"):
        na.append(dict(property_id=pid, reason=lv["not_applicable"]))
        continue
    if not (has_b or has_p):
        na.append(dict(property_id=pid, reason="check not built yet (work in progress)"))
        continue
    cat = lv.get("category", "exploration")
    if cat == "proof" and not has_p:
        cat = "exploration"
    checks.append(dict(
        property_id=pid,
        quick_cmd=f"./check {pid} --tier quick",
        thorough_cmd=f"./check {pid} --tier thorough",
        evidence_file=f"/verif/evidence/{pid}.json",
        replay_cmd_template=f"./check {pid} --replay {{path}}",
        engine="pyvc+bounded" if has_p else "bounded",
        level_claimed=dict(category=cat, text=lv.get("text", "bounded run-time contracts on the real functions over a stated finite domain"),
                           design_ref=f"DESIGN.md §6 {pid}"),
        level_note=lv.get("note", "bounded stand-in only: nothing proved; oracle and tolerances are listed in the evidence file"),
        technique=lv.get("technique", "run-time contracts on the real functions over an enumerated domain (bounded stand-in)"),
    ))

man = dict(
    version=1,
    setup_cmd="./setup.sh",
    hooks=dict(
        guard="ABTEM_ABTEM_VERIF",
        enable="no hooks in /repo: contracts are sidecar files under /verif; ./check exports ABTEM_ABTEM_VERIF=1 (unused by /repo)",
        baseline_off_cmd="cd /repo && /venv/bin/python -m pytest -ra -q -p no:cacheprovider --timeout=900 --continue-on-collection-errors",
        source_commits=[],
        add_only=True,
    ),
    engines=[
        dict(name="pyvc", path="pyvc", serves_properties=[c["property_id"] for c in checks if "pyvc" in c["engine"]],
             kind_free_text="symbolic executor over the AST of the real abTEM functions (re-read from /repo on every run) generating verification conditions from sidecar contracts; discharged by z3 (cvc5 second opinion)"),
        dict(name="bounded", path="bounded", serves_properties=[c["property_id"] for c in checks],
             kind_free_text="run-time contracts evaluated on the real functions over a stated finite domain; also the native replay oracle"),
    ],
    checks=checks,
    not_applicable=na,
    notes="See DESIGN.md. Exit 0 held / 1 violation / 2 nothing decided / 3 checker crash. known_findings.json lists recorded findings and fixed defects.",
)
json.dump(man, open(os.path.join(ROOT, "MANIFEST.json"), "w"), indent=1)
print(f"{len(checks)} checks, {len(na)} not applicable")
